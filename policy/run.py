#!/usr/bin/env python3
"""./check <ID> [quick|thorough] [--repo DIR]  -- decide one property statically."""
import importlib
import os
import sys
import traceback

sys.path.insert(0, os.path.dirname(os.path.abspath(__file__)))
from sa import facts, prog as progmod, report  # noqa: E402


def main(argv):
    if len(argv) < 2:
        print("usage: check <ID> [quick|thorough] [--repo DIR]")
        return 2
    pid = argv[1]
    tier = "quick"
    repo = "/repo"
    i = 2
    while i < len(argv):
        if argv[i] in ("quick", "thorough"):
            tier = argv[i]
        elif argv[i] == "--repo":
            repo = argv[i + 1]
            i += 1
        i += 1
    tier = os.environ.get("VERIF_TIER", tier) if tier == "quick" and os.environ.get("VERIF_TIER") in ("quick", "thorough") and len(argv) < 3 else tier
    seed = int(os.environ.get("VERIF_SEED", "0") or 0)
    chk = report.Check(pid, tier)
    try:
        mod = importlib.import_module(f"props.{pid}")
    except ModuleNotFoundError:
        print(f"no check registered for {pid}")
        return 2
    try:
        units = facts.load(repo, "default")
        program = progmod.Program(units)
    except Exception as e:  # the analysed tree does not build: a broken check run, not a verdict
        print(f"ERROR: could not analyse {repo}: {e}")
        return 2
    extra = {}
    if getattr(program, "renamed", None):
        chk.note("functions recognised as renamings of reviewed functions (analysed under their reviewed names): " + ", ".join(f"{n} = {o}" for n, o in sorted(program.renamed.items())))
    if getattr(program, "inlined", None):
        chk.note("new helper functions spliced into the reviewed functions that call them (sa/inline.py): " + ", ".join(f"{h} -> {', '.join(cs)}" for h, cs in sorted(program.inlined.items())))
    try:
        mod.run(program, chk)
        if tier == "thorough":
            import thorough
            rc2 = thorough.run(pid, mod, program, chk, repo, extra)
            if rc2:
                return rc2
    except progmod.AnchorMissing as e:
        chk.anchor_missing("anchor", str(e))
    except (SyntaxError, ImportError, NameError):
        raise  # a defect of the checker itself: never "undecided"
    except Exception as e:
        # a rule that cannot digest the shape of the (changed) code fails closed, like a missing anchor: the
        # construct it was written for is no longer there in the form that was reviewed
        traceback.print_exc()
        tb = traceback.extract_tb(e.__traceback__)
        where = next((f"{os.path.basename(fr.filename)}:{fr.name}" for fr in reversed(tb) if "/props/" in fr.filename), "?")
        chk.anchor_missing("rule-cannot-analyse", f"{where}: {type(e).__name__}: {str(e)[:120]}")
    return report.finish(
        chk,
        program,
        explanation=mod.EXPLANATION,
        trusted_base=getattr(mod, "TRUSTED", []) + COMMON_TRUSTED,
        assumptions=getattr(mod, "ASSUMPTIONS", []),
        seed=seed,
        extra=extra or None,
    )


COMMON_TRUSTED = [
    "rustc nightly front-end: name resolution, type checking, trait selection (Instance::try_resolve) and MIR construction at -Zmir-opt-level=0",
    "the fact dump of /verif/driver (a pure pretty-printer of MIR/HIR/items)",
    "reviewed tables under /verif/policy/tables (each entry carries its reason)",
]

if __name__ == "__main__":
    try:
        rc_ = main(sys.argv)
    except SystemExit:
        raise
    except BaseException:  # noqa: BLE001 - a defect of the checker itself: broken (2), never a verdict
        traceback.print_exc()
        print("CHECK-BROKEN: the checker itself failed (see the traceback above); no verdict")
        rc_ = 2
    sys.exit(rc_)
