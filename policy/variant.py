#!/usr/bin/env python3
"""Run checks against a patched scratch copy of /repo (never touches /repo or the evidence dir).

usage: variant.py <patch.diff | --rev COMMIT | --at COMMIT> <ID> [<ID>...]
  patch.diff   a unified diff applied with `git apply` to a copy of /repo's working tree
  --rev C      the reverse of commit C of /repo (undo one fix)
  --at C       the tree of commit C
prints one line per check:  <ID> rc=<n> <VIOLATION keys...>
"""
import json
import os
import shutil
import subprocess
import sys
import tempfile

VERIF = os.path.dirname(os.path.dirname(os.path.abspath(__file__)))


def make_variant(spec, arg):
    d = tempfile.mkdtemp(prefix="svgdx-variant-")
    subprocess.check_call(["rsync", "-a", "--exclude", "target", "--exclude", ".git", "/repo/", d + "/"])
    if spec == "patch":
        base = None
        meta = os.path.join(os.path.dirname(os.path.abspath(arg)), "meta.json")
        if os.path.exists(meta):
            base = json.load(open(meta)).get("base_commit")
        p = subprocess.run(["patch", "-p1", "-s", "--dry-run", "-i", os.path.abspath(arg)], cwd=d, capture_output=True, text=True)
        if p.returncode != 0 and os.environ.get("SVGDX_VARIANT_NO_FALLBACK"):
            shutil.rmtree(d)
            print("NOAPPLY")
            sys.exit(3)
        if p.returncode != 0 and base:
            # the patch was written against an older commit of /repo: build the variant from that tree
            shutil.rmtree(os.path.join(d, "src"))
            tar = subprocess.check_output(["git", "-C", "/repo", "archive", base, "src", "Cargo.toml", "Cargo.lock"])
            subprocess.run(["tar", "-x", "-C", d], input=tar, check=True)
            print(f"(patch applied to its base commit {base})")
        p = subprocess.run(["patch", "-p1", "-s", "-i", os.path.abspath(arg)], cwd=d, capture_output=True, text=True)
        if p.returncode != 0:
            shutil.rmtree(d)
            raise RuntimeError("patch does not apply: " + p.stderr + p.stdout)
    elif spec == "rev":
        diff = subprocess.check_output(["git", "-C", "/repo", "show", "-R", "--format=", arg, "--", "src"], text=True)
        p = subprocess.run(["patch", "-p1", "-s"], cwd=d, input=diff, capture_output=True, text=True)
        if p.returncode != 0:
            shutil.rmtree(d)
            raise RuntimeError("reverse patch does not apply: " + p.stderr + p.stdout)
    elif spec == "at":
        shutil.rmtree(os.path.join(d, "src"))
        tar = subprocess.check_output(["git", "-C", "/repo", "archive", arg, "src", "Cargo.toml", "Cargo.lock"])
        subprocess.run(["tar", "-x", "-C", d], input=tar, check=True)
    return d


def run_checks(d, ids):
    res = {}
    ev = tempfile.mkdtemp(prefix="svgdx-variant-ev-")
    env = dict(os.environ, SVGDX_SA_EVIDENCE_DIR=ev, SVGDX_SA_REPLAY_DIR=ev)
    try:
        p = subprocess.run([sys.executable, os.path.join(VERIF, "policy", "run_many.py"), d] + list(ids), capture_output=True, text=True, env=env)
        for line in p.stdout.splitlines():
            if " rc=" in line and line.split(" ", 1)[0] in ids:
                pid, rest = line.split(" ", 1)
                rc = int(rest.split()[0].split("=")[1])
                tail = rest.split(" ", 1)[1].strip() if " " in rest else ""
                keys = [k.strip() for k in tail.split(" ; ") if k.strip()] if rc == 1 else []
                res[pid] = (rc, keys, tail if rc not in (0, 1) else "")
        for pid in ids:
            if pid not in res:
                res[pid] = (2, [], (p.stderr or p.stdout)[-1500:])
    finally:
        shutil.rmtree(ev, ignore_errors=True)
    return res


def main():
    a = sys.argv[1:]
    if a[0] == "--rev":
        spec, arg, ids = "rev", a[1], a[2:]
    elif a[0] == "--at":
        spec, arg, ids = "at", a[1], a[2:]
    else:
        spec, arg, ids = "patch", a[0], a[1:]
    d = make_variant(spec, arg)
    try:
        res = run_checks(d, ids)
    finally:
        shutil.rmtree(d, ignore_errors=True)
    for pid, (rc, keys, out) in res.items():
        print(f"{pid} rc={rc} " + " ; ".join(keys))
        if out:
            print(out[-1500:])
    return 0


if __name__ == "__main__":
    sys.exit(main())
