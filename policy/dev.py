#!/usr/bin/env python3
"""dev helper: print compact MIR of functions whose path contains argv[1]"""
import sys, os, json
sys.path.insert(0, os.path.dirname(os.path.abspath(__file__)))
from sa import facts, prog as pm

def fp(p):
    l, pr = p
    return f"_{l}" + "".join(pr)

def fo(o):
    if o is None: return "?"
    if "c" in o: return fp(o["c"])
    if "m" in o: return "move " + fp(o["m"])
    k = o.get("k")
    if k is not None:
        if "fn" in k: return "fn:" + k["fn"].get("rpath", k["fn"]["path"])
        if "closure" in k: return "closure:" + k["closure"]
        for key in ("str", "int", "bool", "char", "float"):
            if key in k: return f"const {k[key]!r}"
        return "const " + k.get("disp", "?")[:40]
    return str(o)[:40]

def frv(rv):
    k = rv["k"]
    if k == "use": return fo(rv["op"])
    if k == "ref": return ("&mut " if rv["mut"] else "&") + fp(rv["place"])
    if k == "binop": return f"{rv['op']}({fo(rv['a'])}, {fo(rv['b'])})"
    if k == "unop": return f"{rv['op']}({fo(rv['a'])})"
    if k == "cast": return f"{fo(rv['op'])} as {rv['ty'][:40]} [{rv['ck']}]"
    if k == "discr": return f"discr({fp(rv['place'])})"
    if k == "aggr":
        if rv["ak"] == "adt": return f"{rv['adt'].split('::')[-1]}::{rv['variant']}(" + ", ".join(fo(o) for o in rv["ops"]) + ")"
        if rv["ak"] in ("closure", "coroutine"): return f"closure {rv['closure']}(" + ", ".join(fo(o) for o in rv["ops"]) + ")"
        return rv["ak"] + "(" + ", ".join(fo(o) for o in rv["ops"]) + ")"
    return json.dumps(rv)[:100]

def show(b):
    print(f"=== {b.path}  [{b.id}] {b.file}:{b.line} argc={b.argc}")
    names = {i: l.get("name") for i, l in enumerate(b.locals) if l.get("name")}
    print("   names:", names)
    for i, bl in enumerate(b.blocks):
        tag = " (cleanup)" if bl.get("cleanup") else ""
        if i not in b.reachable and not VERBOSE: continue
        print(f" bb{i}{tag}:")
        for s in bl["s"]:
            if "lhs" in s:
                print(f"    {fp(s['lhs'])} = {frv(s['rv'])}    // {s.get('line','')}")
            else:
                print("    " + json.dumps(s)[:100])
        t = bl["t"]
        k = t["k"]
        if k == "call":
            fn = t.get("fn")
            name = (fn.get("rpath") or fn["path"]) if fn else "fnptr " + fo(t.get("fnptr"))
            extra = "" if not fn else (" {unresolved}" if "rid" not in fn else "")
            print(f"    {fp(t['dest'])} = CALL {name}{extra}(" + ", ".join(fo(a) for a in t["args"]) + f") -> bb{t['t']}    // {t.get('line','')}  :: {t['dty'][:60]}")
        elif k == "switch":
            print(f"    SWITCH {fo(t['op'])} {t['vals']} else bb{t['otherwise']}    // {t.get('line','')}")
        elif k == "drop":
            print(f"    DROP {fp(t['place'])} -> bb{t['t']}")
        elif k == "assert":
            print(f"    ASSERT {t['msg']} {fo(t['cond'])}=={t['expected']} -> bb{t['t']}    // {t.get('line','')}")
        elif k == "goto":
            print(f"    GOTO bb{t['t']}")
        else:
            print(f"    {k.upper()}")

VERBOSE = "-v" in sys.argv
if __name__ == "__main__":
    repo = "/repo"
    args = [a for a in sys.argv[1:] if not a.startswith("-")]
    if "--repo" in sys.argv:
        repo = sys.argv[sys.argv.index("--repo") + 1]
        args = [a for a in args if a != repo]
    prog = pm.Program(facts.load(repo))
    for b in prog.bodies.values():
        if args[0] in b.path:
            show(b)
