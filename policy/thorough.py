"""Thorough tier: feature-configuration matrix, seeded-change regression (the checker tested both ways),
and for C01 the static stack budget and the clippy inventory cross-reference."""
import json
import os
import subprocess
import sys
import time

from sa import facts, prog as progmod, report

VERIF = os.path.dirname(os.path.dirname(os.path.abspath(__file__)))
CONFIGS = ("nodefault", "cli", "server")


def run(pid, mod, program, chk, repo, extra):
    t0 = time.time()
    # 1. the other feature configurations
    cfgs = {}
    for cfg in CONFIGS:
        units = facts.load(repo, cfg)
        p2 = progmod.Program(units)
        c2 = report.Check(pid, chk.tier)
        c2.config = cfg
        try:
            mod.run(p2, c2)
        except progmod.AnchorMissing as e:
            # functions that exist only with other features
            c2.note(f"[{cfg}] anchor not compiled in this configuration: {e}")
        for o in c2.obs:
            o = dict(o, config=cfg)
            chk.obs.append(o)
        chk.notes += [f"[{cfg}] {n}" for n in c2.notes]
        chk.instances.update(c2.instances)
        cfgs[cfg] = dict(bodies=len(p2.bodies), obligations=len(c2.obs), features=p2.features)
    extra["feature_matrix"] = cfgs
    # 2. seeded-change regression: every change recorded as caught by this property must still be caught
    if repo == "/repo" and not os.environ.get("SVGDX_SA_NO_SEEDED"):
        rp = os.path.join(VERIF, "seeded", "RESULTS.json")
        blind = []
        tested = []
        if os.path.exists(rp):
            res = json.load(open(rp))
            for name, r in sorted(res.items()):
                if r.get(pid, {}).get("rc") != 1:
                    continue
                if all(k.startswith("rule-cannot-analyse") for k in r[pid].get("keys", [])):
                    continue  # recorded while a rule was failing to run: not a catch to hold on to
                mp = os.path.join(VERIF, "seeded", name, "meta.json")
                if os.path.exists(mp) and json.load(open(mp)).get("property") != pid:
                    continue  # only the changes aimed at this property are its regression set (plus the self-tests)
                path = os.path.join(VERIF, "seeded", name, "patch.diff")
                if not os.path.exists(path):
                    path = os.path.join(VERIF, "selftest", name + ".diff")
                if not os.path.exists(path):
                    continue
                p = subprocess.run([sys.executable, os.path.join(VERIF, "policy", "variant.py"), path, pid], capture_output=True, text=True, env=dict(os.environ, SVGDX_VARIANT_NO_FALLBACK="1"))
                if p.returncode == 3:
                    tested.append(dict(change=name, fired=None, keys=["patch does not apply to the current tree: skipped"]))
                    continue
                fired = f"{pid} rc=1" in p.stdout
                tested.append(dict(change=name, fired=fired, keys=[l for l in p.stdout.splitlines() if l.startswith(pid)][:1]))
                if not fired:
                    blind.append(name)
        # behaviour-preserving refactors must stay silent
        import glob
        false_alarms = []
        for path in sorted(glob.glob(os.path.join(VERIF, "selftest", "neutral", "*.diff"))):
            p = subprocess.run([sys.executable, os.path.join(VERIF, "policy", "variant.py"), path, pid], capture_output=True, text=True, env=dict(os.environ, SVGDX_VARIANT_NO_FALLBACK="1"))
            if p.returncode == 3:
                tested.append(dict(change="neutral-" + os.path.basename(path)[:-5], fired=None, keys=["patch does not apply to the current tree: skipped"]))
                continue
            fired = f"{pid} rc=1" in p.stdout
            tested.append(dict(change="neutral-" + os.path.basename(path)[:-5], fired=fired, expected="silent", keys=[l for l in p.stdout.splitlines() if l.startswith(pid)][:1]))
            if fired:
                false_alarms.append(os.path.basename(path))
        extra["seeded_regression"] = dict(tested=len([t for t in tested if t["fired"] is not None]), fired=len([t for t in tested if t["fired"] and t.get("expected") != "silent"]), skipped=len([t for t in tested if t["fired"] is None]), changes=tested)
        for fa in false_alarms:
            print(f"SELFTEST-FALSE-ALARM property={pid} change={fa}: a behaviour-preserving refactor is reported as a violation")
        if false_alarms and not blind:
            return 2
        if blind:
            for b in blind:
                print(f"SELFTEST-BLIND property={pid} change={b}: a seeded change this check used to catch no longer produces a violation")
            return 2
    # 3. property specific
    if pid == "C01":
        import c01_thorough
        c01_thorough.run(program, chk, repo, extra)
    extra["thorough_wall_s"] = round(time.time() - t0, 1)
    return 0
