"""Single source of truth for MANIFEST.json (tools/gen_manifest.py)."""

NOTES = (
    "Technique family: static analysis only. Every verdict is computed from /repo's current source through a "
    "rustc_private driver (type-checked MIR/HIR) and a Python policy layer; svgdx is never executed. Each check claims "
    "only the structural clauses named in its level text; value-level remainders are listed in DESIGN.md section 8."
)

RULE_NOT_BUILT = "rule set for this property is not built yet in this session; until it is, the property is not claimed (see DESIGN.md section 10) - "

CLAIMED = {
    "C07": dict(
        text="Decides isolation and failure discipline structurally: no mutable/interior-mutable/thread-local static or process-global mutator exists; per-transform state is created only inside transform_stream and owns all its data; the HTTP handler and router carry no state; every front-end reaches the transform only through transform_stream via a closed table of entry points and adds no verdict after the core call; Err -> 400 text/plain / failure exit status, Ok -> image/svg+xml; every write to the output path is dominated by a successful transform into a temp file; the same-file refusal compares canonicalised paths and guards the only construction of cli::Config. OS-level partial writes are not decided.",
        design_ref="DESIGN.md section 4 C07",
        note="Trusted: rustc MIR and item tables (Freeze-ness of statics); axum delivering the built Response; std::fs/tempfile semantics. Known finding F17 (server maps empty output to 400).",
        technique="static analysis: item/type walk for global state (A9), call-graph who-may-call tables (A1/A10), MIR dominance for fs writes and the same-file check (A13), constant extraction for HTTP status/headers, error-construction scan in front-end bodies (A6)",
    ),
    "C15": dict(
        text="Decides the structural core of lexical scoping: scope push/pop pairing on every exit (incl. error exits that the retry loop turns into normal flow), both stacks move together, variables are written only into the innermost scope, <var> evaluates all attributes before assigning any, lookup is innermost-first with first hit deciding. The scope of an element is created from its complete, unfiltered attribute map; the attributes a <reuse> hands to its target are read from the evaluated element. Does not decide the string-level `$name` substitution.",
        design_ref="DESIGN.md section 4 C15",
        note="Trusted: rustc MIR, Vec/HashMap/Iterator::rev semantics. An Err exit counts as an ordinary exit because failed elements are retried.",
        technique="static analysis: MIR typestate pairing (push_element/pop_element incl. inspect_err idiom), who-may-write on context fields, CFG ordering (no set_var -> eval_attr path), value-origin checks (scope variables = unfiltered attribute map; reuse overrides read from the evaluated element)",
    ),
    "C01": dict(
        text="Decides, over everything reachable from the public entry points: every panic-capable site (MIR asserts, unwrap/expect, explicit panics, Index impls, split_at/remove/clamp/random_range/RefCell borrows and every external callee documented to panic) is discharged by a guard rule (path-sensitive Option/Result state, dominating length tests, find/position-derived offsets, argument-precondition tests, structural 64-bit counters) or by a reviewed table line counted per (function, kind, callee); every recursive SCC has a verified bound (depth guard dominating the in-SCC calls, nesting counter inherited by new evaluator states, visited set, variant change, resolved target) or a reviewed data-structural reason; every loop is driven by a finite iterator or has a verified progress witness (scanner must-consume summaries with stable cursor predicates, strictly shrinking suffix, counters, limit counter, length exit, visited set, external reader). Does not decide time complexity, memory exhaustion or the wasm front-end.",
        design_ref="DESIGN.md section 4 C01",
        note="Trusted: rustc MIR; documented std panic conditions; \"\".parse::<f32>() fails; finite input gives a finite event stream; reviewed table policy/tables/panic_allow.json (64 sites) and the not-a-transform-path list (server start-up, static assets).",
        technique="static analysis: call-graph reachability with CHA and generic-callback edges, MIR panic-site inventory with dominance / path-sensitive guard discharge (A2), SCC witnesses (A3), natural-loop progress witnesses incl. an abstract suffix domain and must-call summaries (A4)",
    ),
    "C02": dict(
        text="Decides the escaping discipline behind well-formed output: every quick-xml constructor site is classified by its resolved constructor; raw attribute sinks must be fed by an unconditional & < \" escaper, the raw CDATA sink by the ]]> splitter, the raw text conversion must be unreachable for Text events in write_to; reader and writer agree on the escape level per channel; `class` can never be written twice and AttrMap::insert never duplicates a key; the root gets xmlns/version unless the author's root has that very key, and an empty-element root is closed. Does not decide that quick-xml's writer itself emits well-formed bytes or value-level escaping for every string.",
        design_ref="DESIGN.md section 4 C02",
        note="Trusted: quick-xml constructor semantics as documented. Known findings: F13 comments, F15-residual unknown entities, F18 foreign xmlns, F19 real-SVG root without version (conflict with C03), F20 input ending inside open elements.",
        technique="static analysis: resolved-constructor sink classification with value-origin slices to escaper summaries (A11), dominance/must-pass on root synthesis (A13), literal-key scan (A14), who-may-write (A10)",
    ),
    "C03": dict(
        text="Decides the mechanisms of pass-through: the real-SVG edge of process_events (top level only) and of postprocess reach nothing but conversion and write_to; real_svg is written only there; nested namespaced <svg> (both tag forms) returns its raw input events before any evaluation; is_real_svg skips non-element events; reader/writer escape levels agree per channel; attribute order is normalised by a stable sort only. Normalisations applied on the pass-through path are enumerated as findings. Infoset equality itself (two executions) is not decided.",
        design_ref="DESIGN.md section 4 C03",
        note="Trusted: quick-xml reader/writer inverse on passed-through Event kinds. Known findings: F15-residual, F23 class-list normalisation, F24 trailing blanks trimmed.",
        technique="static analysis: MIR dominance / region reachability on bypass edges (A13), who-may-write (A10), reader-side payload classification vs writer-side sinks (A11)",
    ),
    "C05": dict(
        text="Decides the mechanisms that make T(x) a fixed point: escape balance and sink discipline (shared with C02/C03); the generated root satisfies the reader's real-SVG predicate (same namespace literal, inserted unless present) and the second pass's bypass edges reach only conversion and write_to under every configuration; the writer's normalisations are idempotent (stable attribute sort, blank-line removal once on the coalesced text inside write_to only, class list cannot hold duplicates). Byte equality of T(T(x)) and T(x) is not decided.",
        design_ref="DESIGN.md section 4 C05",
        note="Trusted: as C02/C03. Known findings: F13 comments, F18 foreign xmlns.",
        technique="static analysis: shared A11/A13/A16 rules of C02/C03 plus who-may-call/who-may-write on the writer's normalisers",
    ),
    "C19": dict(
        text="Decides: the escape balance of the text carriers (text attribute, element text, CDATA content) against the once-escaping writer; that the eight text-specific attributes are consumed from the shape on every successful path, the 17 text presentation attributes and the d-text-* classes move to the text element, and an author-supplied text-loc is only ever defaulted; the (side x outside x vertical) -> alignment-class table and the inward/outward sign of text-offset against a reference table, with a style rule for every such class; one <tspan> per line of multi-line text. The anchor point for all 13 text-loc locations incl. text-dx/dy and the inward/outward text-offset per touched side, as term identities against a reference algebra (A17: affine abstract evaluation of the typed HIR, exact rationals, uninterpreted atoms; reference algebra in policy/spec/geometry_algebra.json); no character-altering string operation in src/text.rs beyond the two reviewed ones. Line spacing values and the string-level behaviour of the `\\n` splitter are not decided.",
        design_ref="DESIGN.md section 4 C19",
        note="Trusted: rustc MIR/HIR; quick-xml constructor semantics. Known finding: F15-residual (unknown entities in element text).",
        technique="static analysis: reader/sink classification (A11), MIR literal-key vocabulary with must-pass on Ok exits (A14), typed-HIR match-table extraction compared with reference tables (A15/A16), loop must-pass, affine abstract evaluation of the text anchor for all locations against a reference algebra (A17), frozen inventory of character-altering string operations in the text pipeline",
    ),
    "C14": dict(
        text="Decides the skeleton and wiring of the expression language: the precedence chain exists as call edges with loops at each binary level (left associativity) and no up-calls; each operator token/word selects the primitive of the reference table with operands in source order (%, = f32::rem_euclid; comparisons yield 0/1; logical words combine non-zero-ness); all 53 built-in names map to the variant/argument accessor/std primitive set frozen in policy/spec/functions.json (trigonometry in degrees) and every documented function exists; a parsed value is returned only when no tokens remain, parentheses/calls require their closing token, evaluator errors are propagated (5 reviewed type probes), number_pair/number_triple accept exactly 2/3 values; RNG draws only in random()/randint(); loop parameters are evaluated once. 36 built-in functions agree as terms with a reference algebra written from the documentation (A17: affine abstract evaluation of the typed HIR, exact rationals, uninterpreted atoms; reference algebra in policy/spec/geometry_algebra.json) (r2p = (hypot, atan2(y, x) in degrees), p2r, divmod euclidean, mix, sign, comparisons/logic -> 1/0 ...); every {{..}} block found in a value is evaluated by eval_str in that pass of the scan. IEEE results of the primitives, list flattening and the exactly-once clause for re-evaluated attributes are not decided.",
        design_ref="DESIGN.md section 4 C14",
        note="Trusted: IEEE semantics of the named f32 primitives; the reviewed reference table policy/spec/functions.json.",
        technique="static analysis: typed-HIR match-arm dispatch summaries compared with reference tables (A15/A16), call-graph skeleton (A1), MIR dominance on end-of-token tests and arity tests (A13), error-fate (A6), affine abstract evaluation of the 36 closed-form built-ins against a reference algebra (A17), CFG must-pass for per-occurrence evaluation",
    ),
    "C16": dict(
        text="Decides the control skeleton of <loop>/<for>/<if>: parameters and the data list are evaluated once before the loop; count is tested at the top, while before the body, until after it (at least one pass), each with the right edge leaving the loop; the loop variable is bound before and advanced after the body; each pass processes the unmodified stored inner events and appends its output in order; <for> binds item/index per pass over the list in order; loops open no variable scope; <if> processes its body exactly on the true edge and otherwise returns nothing; a condition is true iff != 0. The loop variable is assigned only in passes that render the body; start/step defaults (0 / 1) are independent of each other (reference algebra, A17); <loop> and <for> accumulate their extent with BoundingBoxBuilder. Equality with the unrolled document is not decided.",
        design_ref="DESIGN.md section 4 C16",
        note="Trusted: rustc MIR; Vec::into_iter order.",
        technique="static analysis: MIR natural loops, dominance and within-pass ordering, value-origin slices (A4/A13), CFG must-pass (variable assigned only in rendering passes), sibling agreement on extent accumulation, reference algebra for the start/step defaults (A17)",
    ),
    "C10": dict(
        text="Decides the mechanisms of forward-reference resolution: at every get_element call site an unknown reference ends in an Err exit (never in a normal result); every update_element(E) is dominated by the successful evaluation/generation of E and, in process_tags, a tag is registered in the very pass that evaluates it (no pre-registration of later siblings); a failed attempt restores the depth counter and the variable scope; the retry loop leaves with an error when no element makes progress and output is ordered by document index. The early registration of the unresolved element is reported as known finding F16. Errors are what defers an unresolved element: the places where a Result<_, SvgdxError> is not propagated are frozen in a reviewed table (53 sites; a new swallow site is reported) and no defaulting combinator is applied to an Option<BoundingBox>. Coordinate invariance under sibling permutations (values of the fix-point) is not decided.",
        design_ref="DESIGN.md section 4 C10",
        note="Trusted: rustc MIR. Known finding F16 (order-dependent geometry through early registration).",
        technique="static analysis: Option-fate analysis on get_element results (A6), MIR dominance on registration sites and loop co-location (A10/A13), shared pairing rules (A5), frozen inventory of swallowed SvgdxError results (A6 through time), zero-instance rule with positive control on Option<BoundingBox> combinators",
    ),
    "C20": dict(
        text="Decides the consistency mechanisms of auto-styles: injection is control-dependent on root-present && add_auto_styles and unreachable for real SVG; every rule emitted under has_class(K) selects .K (literal, formatted pattern or table row), templates decoded from the fmt::Arguments byte encoding; every url(#X) in a template has exactly one id=\"X\" emitted by the same generator with the same literal/variable, ids are distinct, the arrow marker is defined iff referenced, pattern ids derive injectively from the class, emitted rules/definitions are never rewritten afterwards; the class/element collection visits every Start/Empty event unconditionally; DARK_COLOURS is a duplicate-free subset of COLOUR_LIST. Every class guard is the bare has_class() test (no extra conjunct/disjunct), and write_auto_styles writes get_defs()/get_styles() unfiltered. The exhaustive sweep over the class vocabulary x themes and the parsing of numeric class suffixes are not decided.",
        design_ref="DESIGN.md section 4 C20",
        note="Trusted: rustc HIR/MIR; the documented fmt template encoding.",
        technique="static analysis: typed-HIR guard/template extraction with format-template decoding (A14/A16), MIR control dependence and loop must-pass (A13), who-may-write (A10), bare-guard rule on has_class conditions, direct-binding rule on get_defs/get_styles",
    ),
    "C04": dict(
        text="Decides preservation of names and the mechanisms values depend on: the pass-through filter withholds exactly class/data-src-line/_/__; every standard SVG 1.1 attribute name that is popped/removed anywhere is in a reviewed table (geometry re-set from the computed box, dx/dy only outside text/tspan/feOffset - verified by constant-propagating reachability -, id on reuse instances) and computed-key removals are reviewed per function; geometry is rewritten only under a computed bounding box and unit/percentage values bypass parsing; attribute values and text survive the reader/writer round trip (escape balance); a retried element leaves the depth counter intact. The unit bypass predicate is built on the same number parser the arms apply afterwards. Acceptance of the SVG number/path/points/transform grammars by the hand-written scanners (language inclusion) and value preservation up to rounding are NOT decided.",
        design_ref="DESIGN.md section 4 C04",
        note="Trusted: policy/spec/svg11_attributes.json; the reviewed consumption table in props/C04.py. Known finding: F15-residual.",
        technique="static analysis: MIR literal-vocabulary extraction of consumed attribute names against an SVG 1.1 name table (A14), dominance / bool-constant reachability (A13), shared A11 and A5 rules, guard/consumer parser agreement (A16)",
    ),
    "C08": dict(
        text="Decides the synthesis discipline around the root extent, not its value: every synthesised root attribute (width, height, viewBox, version, xmlns, id) is control-dependent on the author's root lacking exactly that attribute, style only under svg_style; expand(border) dominates round(), which dominates every read of the extent; mm/scale only when neither width nor height is supplied; specs/var/config/defaults return no box, defs/symbol/point reset theirs, generated text is not consulted. Additionally decided as term identities against a reference algebra (A17: affine abstract evaluation of the typed HIR, exact rationals, uninterpreted atoms; reference algebra in policy/spec/geometry_algebra.json): the box of each shape from its attributes (rect/image, circle, ellipse, line, text/point anchor), BoundingBox::combine / intersect / expand / round / translated / width / height; a zero-area intersection is still a box; a <use> with only one of x/y is still translated. Float rounding, group transforms, path/polyline boxes and the aspect-ratio derivation are NOT decided.",
        design_ref="DESIGN.md section 4 C08",
        note="Trusted: rustc MIR/HIR; BoundingBox::expand/round arithmetic.",
        technique="static analysis: MIR dominating-condition extraction on guarded inserts and call ordering (A13), typed-HIR arm summaries (A15), affine abstract evaluation of the geometry primitives against a reference algebra (A17), may-reach under assumption (degenerate boxes, one-sided <use> translation)",
    ),
    "C09": dict(
        text="Decides only the selection wiring of relative positioning, composed end-to-end against reference tables in external vocabulary: direction letters -> side of the reference box, nine location names and four edges -> bounding-box fields, scalar names -> field/operation, scalar -> location, xy-loc -> anchor attribute pair; the order of the resolve_position pipeline; a <point> becomes `^` before its box is discarded; no min/max of an operand with itself in geometry code. Additionally decided as term identities against a reference algebra (A17: affine abstract evaluation of the typed HIR, exact rationals, uninterpreted atoms; reference algebra in policy/spec/geometry_algebra.json): |h |H |v |V placement (beside the box, centred on the shared axis, gap away), the 13 locspec locations, calc_offset (units from the start, negative units back from the end, percent interpolation, reversed edges), the 11 scalarspec values, Length::evaluate/adjust, the size of each shape (use/reuse by their target, width first), the box of each shape; dx/dy never cross axes. Float rounding, the tokenisers and the reference-chain fix-point are NOT decided.",
        design_ref="DESIGN.md section 4 C09",
        note="Trusted: rustc HIR/MIR. A pass means the selection tables and the pipeline order are intact, not that the geometry is right.",
        technique="static analysis: typed-HIR dispatch-table extraction with let-resolution, composed and compared with reference tables (A15), MIR call ordering (A13), operand-identity lint (A16), affine abstract evaluation of HIR function bodies compared with a reference algebra modulo role renaming (A17)",
    ),
    "C11": dict(
        text="Decides attribute hygiene and wiring of uniform positioning: per shape, removed names plus native names cover the whole geometry vocabulary and no native name is removed; every shorthand is popped and its first/second component goes to the x-like/y-like longhand of the reference table; axis consistency - every value written to an x-axis (y-axis) geometry attribute depends only on x-axis (y-axis) quantities, resolved through let bindings and (x, y)-pair destructuring. Every arm of Position::extent / three_point is an affine form of the constraints it binds and satisfies each of them exactly (start = A, end = B, middle = (A+B)/2, length = B-A), all six pairs are covered and the call sites pass the fields in their roles - so sufficient spellings of one box give one box; shorthand values are split by the one shared tokenizer; size of each shape against the reference algebra. Float rounding, over-determined input and the tokenizer itself are NOT decided.",
        design_ref="DESIGN.md section 4 C11",
        note="Trusted: rustc HIR. Axis classification of identifiers follows the code base's own vocabulary (assumption listed in the evidence).",
        technique="static analysis: typed-HIR literal arrays and per-arm summaries (A14/A15), let-resolving axis dataflow over expressions, linear-form check of the constraint table against its defining equations and size-by-shape algebra (A17), CFG must-pass on the shared tokenizer",
    ),
    "C12": dict(
        text="Decides hygiene and branch wiring of containment: every successful exit of handle_containment except the neither-present return passes remove_attrs([surround, inside, margin]); surround/inside select get_element_bbox-union-expand-circumscribe / inscribed_bbox-intersection-shrink-inscribe; per shape, position_from_bbox sets the attributes from the matching quantities with SQRT_2 exactly on the circumscribing side (min vs max for circles); intersection() folds over a carried accumulator; unknown or box-less references are errors. Additionally decided as term identities against a reference algebra (A17: affine abstract evaluation of the typed HIR, exact rationals, uninterpreted atoms; reference algebra in policy/spec/geometry_algebra.json): position_from_bbox for rect/box/circle/ellipse x surround/inside, inscribed_bbox (r/sqrt2), the CSS order of 1-4 margin values, expand/shrink_trbl_length with their max/min percent bases, combine/intersect. The enclosure inequality for non-square circles and float rounding are NOT decided.",
        design_ref="DESIGN.md section 4 C12",
        note="Trusted: rustc HIR/MIR.",
        technique="static analysis: MIR must-pass on Ok exits (A5/A14), typed-HIR branch and arm summaries against reference tables (A15), accumulator dataflow, affine abstract evaluation of placement / inscription / margin handling against a reference algebra (A17)",
    ),
    "C13": dict(
        text="Decides hygiene, route structure and wiring of connectors: start/end/corner-offset are popped on every successful path and edge-type is stripped; in every corner-route arm consecutive points share an operand in one coordinate (axis-parallel), the route runs start -> end, first/last segments are perpendicular to the chosen edges, U-routes turn beyond the boxes on the side of their direction; h/v connectors are axis-parallel through the overlap (max of mins, min of maxes) with both siblings using the element map; location -> direction table, edge-type words, and the closest_loc/shortest_link choice when locations are omitted. Additionally decided: h/v/straight connector coordinates as term identities against a reference algebra (A17: affine abstract evaluation of the typed HIR, exact rationals, uninterpreted atoms; reference algebra in policy/spec/geometry_algebra.json) (middle of the overlap, literal endpoints), locspec/calc_offset for endpoints and corner offsets, and that every candidate location (pair) is measured and compared in closest_loc/shortest_link. The distance arithmetic itself and corner-route coordinates beyond axis-parallelism are NOT decided.",
        design_ref="DESIGN.md section 4 C13",
        note="Trusted: rustc HIR/MIR.",
        technique="static analysis: typed-HIR route-literal extraction with canonical operand identity (A15), sibling agreement (A16), MIR must-pass (A14), affine abstract evaluation of connector coordinates against a reference algebra (A17), CFG must-pass on the candidate loops",
    ),
    "C06": dict(
        text="Decides the absence of order- and environment-dependent constructs: every iteration (or Debug rendering) of a HashMap/HashSet is followed to an order-insensitive consumer or a reviewed table line; clock/env/pid/unseeded-RNG calls occur only under use_local_styles and the randomised id is reset whenever local styles are off; the single Pcg32 is seeded from config.seed, reseeded only by set_config and consumed only by random()/randint(); output is merged through a BTreeMap<OrderIndex,_>. This is the whole mechanism behind the property; cross-platform floating point is outside the statement.",
        design_ref="DESIGN.md section 4 C06",
        note="Trusted: rustc MIR; std iteration-order and sort semantics; the reviewed table policy/tables/hash_iteration.json (1 entry).",
        technique="static analysis: MIR def-use following of hash-container iterators through adapter chains to their consumers (A8), deny-listed callee search with control-dependence on a config field, who-may-write/who-may-call (A10), type facts",
    ),
    "C18": dict(
        text="Decides the mechanisms of template instantiation: the instance is cloned from the unevaluated snapshot (get_original_element), snapshots are taken once per id and every tag is registered raw before it is evaluated, the evaluated template reaches the instance only through content_bbox, reuse bindings are a scope popped on every exit, id/style/class transfer is wired as stated, <specs> output/bbox are gated on !in_specs, SpecsElement returns nothing and in_specs is reset on every exit. Wherever an existing transform is combined with the placing translate() the existing transform comes first (both placement paths agree); use/reuse size = target size, width first (A17); BoundingBox::translated. Equality with the hand-inlined document is not decided.",
        design_ref="DESIGN.md section 4 C18",
        note="Trusted: rustc MIR; HashMap::insert return value semantics.",
        technique="static analysis: MIR value-origin slices, typestate pairing (scope, in_specs flag), control dependence, who-may-write, ordered-composition check of transform strings (fmt template / array order), size algebra (A17)",
    ),
    "C17": dict(
        text="Decides: every read of loop_limit/var_limit/depth_limit is an exact `counter > limit` test whose counter provably means completed passes / stored length / depth after increment and whose true edge returns the matching error; inc_depth/dec_depth are paired on every exit (depth = nesting, not length); no limit error can be queued for retry or swallowed anywhere; <config> and the CLI wire the three limits 1:1.",
        design_ref="DESIGN.md section 4 C17",
        note="Trusted: rustc MIR; integer comparison semantics; String::len. Numeric parsing of limit values is std.",
        technique="static analysis: MIR limit-predicate extraction (A7), typestate pairing (A5), discriminant-consistent reachability to the retry queue (A13), error-fate of every Result that may carry a limit error (A6), HIR dispatch tables (A15)",
    ),
}

NOT_APPLICABLE = {}


# sentences appended to the level text of a property (rules added after the main text was written)
EXTRA_TEXT = {
    "C01": " Endless iterators (cycle/repeat) may only be consumed by adaptors that pull a bounded number of items; loop finiteness is judged on the resolved iterator type (Zip/Take/Chain aware).",
    "C02": " After the root start tag every successful path passes the test that adds the end tag of an empty-element root; every input event is UTF-8 validated before it is stored.",
    "C03": " Also: the writer's attribute/text sinks escape unconditionally; the real-SVG test scans the whole event list up to the first element; the XML reader keeps quick-xml's default configuration; the reader/element/writer path applies no string operation beyond nine reviewed ones.",
    "C05": " Also: the real-SVG test scans the whole event list; the reader keeps its default configuration (input acceptance matches what the writer emits); an empty-element root is closed on every path.",
    "C06": " Between a hash iteration and its sort no order-selecting adaptor (take/skip/zip/enumerate ...) occurs; the reviewed <reuse> override loop writes only the key it visits (checked).",
    "C04": " All six SVG transform function names are matched under their standard spelling.",
    "C17": " A limit configured by <config> is the parsed value itself (no clamping).",
    "C11": " End to end through the affine evaluator: set_position_attrs writes exactly the box the two constraints per axis define, moved by dx/dy, for rect/circle/ellipse x 36 constraint combinations (216 cases), and From<&SvgElement> for Position reads every admissible spelling into the field of its role (279 cases).",
    "C08": " Also: xfrm_scale / xfrm_translate as terms; the Option returned by intersect() for a clipped element is stored untested (None when disjoint).",
    "C09": " Also: an x-like attribute referencing `#id@loc dx dy` takes the x of the location plus dx (y-like: y plus dy), `~scalar delta` adjusts the named scalar (pos_attr_helper, 15 cases).",
}
