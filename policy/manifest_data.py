"""Single source of truth for MANIFEST.json (tools/gen_manifest.py)."""

NOTES = (
    "Technique family: static analysis only. Every verdict is computed from /repo's current source through a "
    "rustc_private driver (type-checked MIR/HIR) and a Python policy layer; svgdx is never executed. Each check claims "
    "only the structural clauses named in its level text; value-level remainders are listed in DESIGN.md section 8."
)

RULE_NOT_BUILT = "rule set for this property is not built yet in this session; until it is, the property is not claimed (see DESIGN.md section 10) - "

CLAIMED = {
    "C15": dict(
        text="Decides the structural core of lexical scoping: scope push/pop pairing on every exit (incl. error exits that the retry loop turns into normal flow), both stacks move together, variables are written only into the innermost scope, <var> evaluates all attributes before assigning any, lookup is innermost-first with first hit deciding. Does not decide the string-level `$name` substitution.",
        design_ref="DESIGN.md section 4 C15",
        note="Trusted: rustc MIR, Vec/HashMap/Iterator::rev semantics. An Err exit counts as an ordinary exit because failed elements are retried.",
        technique="static analysis: MIR typestate pairing (push_element/pop_element incl. inspect_err idiom), who-may-write on context fields, CFG ordering (no set_var -> eval_attr path)",
    ),
    "C17": dict(
        text="Decides: every read of loop_limit/var_limit/depth_limit is an exact `counter > limit` test whose counter provably means completed passes / stored length / depth after increment and whose true edge returns the matching error; inc_depth/dec_depth are paired on every exit (depth = nesting, not length); no limit error can be queued for retry or swallowed anywhere; <config> and the CLI wire the three limits 1:1.",
        design_ref="DESIGN.md section 4 C17",
        note="Trusted: rustc MIR; integer comparison semantics; String::len. Numeric parsing of limit values is std.",
        technique="static analysis: MIR limit-predicate extraction (A7), typestate pairing (A5), discriminant-consistent reachability to the retry queue (A13), error-fate of every Result that may carry a limit error (A6), HIR dispatch tables (A15)",
    ),
}

NOT_APPLICABLE = {
    pid: RULE_NOT_BUILT + why
    for pid, why in {
        "C01": "planned: panic-site inventory with guard discharge, recursion witnesses, loop progress",
        "C02": "planned: XML sink discipline / escape balance",
        "C03": "planned: bypass dominance, escape balance; infoset equality itself is a two-execution comparison no static rule decides",
        "C04": "planned: pass-through filter; acceptance of the SVG grammars is a language-inclusion question, not a shape property",
        "C05": "planned: escape balance + sibling predicates; T(T(x))=T(x) itself compares two executions",
        "C06": "planned: unordered-iteration and nondeterminism-source rules",
        "C07": "planned: global-state, single-core, failure-signalling and output-file ordering rules",
        "C08": "planned: guarded root inserts; the extent value is numeric",
        "C09": "selection-table wiring only would be decidable; placement arithmetic is numeric",
        "C10": "planned: unknown-ref -> error, registration discipline; permutation invariance is a value statement",
        "C11": "planned: attribute hygiene per shape; constraint solving is numeric",
        "C12": "planned: attribute hygiene and branch wiring; enclosure is numeric",
        "C13": "planned: attribute hygiene and route structure; distances are numeric",
        "C14": "planned: grammar skeleton and operator wiring; numeric results are not decided",
        "C16": "planned: loop/if control skeleton; equality with the unrolling compares two outputs",
        "C18": "planned: template source, scope pairing, specs flag pairing",
        "C19": "planned: escape balance of text carriers; anchors are numeric",
        "C20": "planned: injection gating, guard/selector agreement, url/id closure",
    }.items()
}
