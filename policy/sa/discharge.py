"""Guard-discharge rules for panic sites (DESIGN section 3, A2: D1, D2, D5)."""
from .prog import P, Callee, op_place, op_const, const_int
from . import rules as R

LEN_FNS = ("::len",)


def value_key(body, op_or_place):
    """canonical identity of the collection a reference points to: ('local', n) | ('arg', n) | ('field', place)"""
    l = R.origin_local(body, op_or_place)
    if l is not None:
        return ("local", l)
    o = R.origin(body, op_or_place, carriers={"deref": 0, "deref_mut": 0, "as_slice": 0, "as_ref": 0, "as_mut": 0, "borrow": 0, "as_str": 0})
    if o[0] == "arg":
        return ("arg", o[1])
    if o[0] == "field":
        pl = o[1]
        if isinstance(pl, tuple) and len(pl) == 2 and isinstance(pl[0], int):
            # through reborrows (`&*self` handed to a spliced helper): the same field of the same object
            for _ in range(4):
                n2 = _norm(body, (pl[0], tuple(pl[1])))
                if n2 == pl:
                    break
                pl = n2
        return ("field", pl)
    if o[0] == "call":
        return ("call", o[1])
    return None


def _len_subject(body, op):
    """if operand's value is `X.len()` (or PtrMetadata of X) return value_key(X)"""
    o = R.origin(body, op, carriers={})
    if o[0] == "call" and "fn" in o[2]:
        c = Callee(o[2]["fn"])
        if c.path.endswith("::len") and o[2]["args"]:
            return value_key(body, o[2]["args"][0]), "len"
        if c.path.endswith("::is_empty") and o[2]["args"]:
            return value_key(body, o[2]["args"][0]), "is_empty"
    if o[0] == "rv" and o[1].get("k") == "unop" and o[1].get("op") == "PtrMetadata":
        return value_key(body, o[1]["a"]), "len"
    return None, None


def len_lower_bound_on_edge(body, a, succ):
    """If block `a` ends in a switch that tests the length of some collection, return
    (key, lo, hi) implied by taking the edge a->succ (hi may be None)."""
    t = body.term(a)
    if t["k"] != "switch":
        return None
    listed = {v: tgt for v, tgt in t["vals"]}
    # (1) switch directly on len()
    key, kind = _len_subject(body, t["op"])
    if key is not None and kind == "len":
        hits = [v for v, tgt in t["vals"] if tgt == succ]
        if succ != t["otherwise"] and len(hits) == 1:
            return key, hits[0], hits[0]
        if succ == t["otherwise"] and not hits:
            lo = 0
            while lo in listed:
                lo += 1
            return key, lo, None
        return None
    if key is not None and kind == "is_empty":
        tt, ft = R.switch_targets_bool(t)
        if succ == ft and succ != tt:
            return key, 1, None
        if succ == tt and succ != ft:
            return key, 0, 0
        return None
    # (2) switch on a comparison of len() with a constant
    o = R.origin(body, t["op"], carriers={})
    if o[0] == "rv" and o[1].get("k") == "binop" and o[1]["op"] in R.CMP_OPS:
        rv = o[1]
        ka, _ = _len_subject(body, rv["a"])
        kb, _ = _len_subject(body, rv["b"])
        ca, cb = _const_through(body, rv["a"]), _const_through(body, rv["b"])
        if ka is not None and cb is not None:
            key, op, k = ka, rv["op"], cb
        elif kb is not None and ca is not None:
            key, op, k = kb, R.MIRROR[rv["op"]], ca
        else:
            return None
        tt, ft = R.switch_targets_bool(t)
        if tt == ft:
            return None
        truth = succ == tt
        if succ not in (tt, ft):
            return None
        # len <op> k is `truth`
        if op == "Eq":
            return (key, k, k) if truth else (key, 0, None, {k})
        if op == "Ne":
            return (key, k, k) if not truth else (key, 0, None, {k})
        if op == "Lt":
            return (key, 0, k - 1) if truth else (key, k, None)
        if op == "Le":
            return (key, 0, k) if truth else (key, k + 1, None)
        if op == "Gt":
            return (key, k + 1, None) if truth else (key, 0, k)
        if op == "Ge":
            return (key, k, None) if truth else (key, 0, k - 1)
    return None


def dominating_edges(body, s):
    """edges (a, b) such that every path from entry to block s takes a->b"""
    out = []
    b = s
    idom = body.idom
    chain = [s]
    while idom.get(b) is not None and idom[b] != b:
        b = idom[b]
        chain.append(b)
    for a in chain:
        t = body.term(a)
        if t["k"] != "switch":
            continue
        succs = body.succ[a]
        for x in succs:
            if x == s or body.dominates(x, s):
                # x must be entered only from a (otherwise the edge is not implied)
                if all(p == a or body.dominates(x, p) for p in body.pred[x]) and x != a:
                    others = [y for y in succs if y != x]
                    # make sure s is not reachable from a by another successor without passing x
                    if s not in body.reach(others, avoid=[x]):
                        out.append((a, x))
    return out


def mutated_between(body, key, from_bb, site_bb):
    """conservative: is the collection mutably borrowed / reassigned in a block that lies between?"""
    if key[0] != "local":
        return False
    local = key[1]
    # blocks on a way from the search to the use that does not pass the search again (in a loop every block reaches
    # every other; what matters is the same pass)
    fwd = set(body.reach([from_bb], avoid=[site_bb])) | {from_bb}
    region = {x for x in fwd if x == from_bb or site_bb in body.reach([x], avoid=[from_bb])}
    for b in region:
        for s in body.stmts(b):
            if "lhs" not in s:
                continue
            if s["lhs"][0] == local and not s["lhs"][1]:
                if b == from_bb:
                    continue
                return True
            rv = s["rv"]
            if rv["k"] == "ref" and rv.get("mut") and rv["place"][0] == local:
                return True
    return False


def min_len_at(body, site_bb, key):
    """largest lower bound on len(key) established by a dominating branch"""
    best = None
    excluded = set()
    for (a, x) in dominating_edges(body, site_bb):
        r = len_lower_bound_on_edge(body, a, x)
        if r is None:
            continue
        k, lo, hi = r[0], r[1], r[2]
        if k != key:
            continue
        if mutated_between(body, key, x, site_bb):
            continue
        if len(r) > 3:
            excluded |= r[3]
        if best is None or lo > best[0]:
            best = (lo, a)
    if best is not None:
        lo = best[0]
        while lo in excluded:
            lo += 1
        best = (lo, best[1])
    return best


def index_requirement(body, t):
    """for an Index::index call: (receiver operand, minimal length needed) when the index is constant,
    else (receiver, None)"""
    recv = t["args"][0]
    idx = t["args"][1]
    c = const_int(idx)
    if c is not None:
        return recv, c + 1
    o = R.origin(body, idx, carriers={})
    if o[0] == "const" and "int" in o[1]:
        return recv, o[1]["int"] + 1
    # RangeFrom { start: const } / RangeTo / Range built as aggregates
    if o[0] == "rv" and o[1].get("k") == "aggr" and o[1].get("adt", "").startswith("std::ops::Range"):
        rv = o[1]
        name = rv["adt"].split("::")[-1]
        vals = [const_int(x) if const_int(x) is not None else _const_through(body, x) for x in rv["ops"]]
        if name == "RangeFrom" and vals and vals[0] is not None:
            return recv, vals[0]
        if name == "RangeTo" and vals and vals[0] is not None:
            return recv, vals[0]
        if name == "Range" and len(vals) == 2 and vals[0] is not None:
            # start..len(recv)
            k2, kind = _len_subject(body, rv["ops"][1])
            if k2 is not None and k2 == value_key(body, recv):
                return recv, vals[0]
            if vals[1] is not None and vals[0] <= vals[1]:
                return recv, vals[1]
        if name == "RangeFull":
            return recv, 0
    return recv, None


def _const_through(body, op):
    c = const_int(op)
    if c is not None:
        return c
    o = R.origin(body, op, carriers={})
    if o[0] == "const" and "int" in o[1]:
        return o[1]["int"]
    return None


# ---------------------------------------------------------------------------
# D1: Option/Result state
# ---------------------------------------------------------------------------

def option_state_discharge(prog, body, site_bb, t):
    """unwrap/expect of a value that is provably Some/Ok on every path to the site."""
    arg = t["args"][0]
    pl = op_place(arg)
    if pl is None:
        return None
    c = Callee(t["fn"])
    is_result = c.path.startswith("std::result::Result")
    bad_disc = 1 if is_result else 0  # Err / None
    if c.path.endswith("unwrap_err") or c.path.endswith("expect_err"):
        bad_disc = 0
    # canonical source place of the moved/copied temp
    src = _source_place(body, pl)
    # Is there a feasible path from entry to the site on which `src` has the bad discriminant?
    feas = _reach_with_fact(prog, body, site_bb, src, bad_disc)
    if feas is False:
        return f"value `{_pname(body, src)}` is {'Ok' if is_result else 'Some'} on every path to this site (established by dominating tests / assignments)"
    return None


def _pname(body, pl):
    n = body.local_name(pl[0]) or f"_{pl[0]}"
    return n + "".join(pl[1])


def _source_place(body, pl, depth=6):
    while depth > 0:
        depth -= 1
        if pl[1]:
            return pl
        d = body.single_def(pl[0])
        if not d or d[1] == R.TERM:
            return pl
        rv = d[2]
        if rv["k"] == "use" and op_place(rv["op"]) is not None:
            pl = op_place(rv["op"])
            continue
        return pl
    return pl


def _tested_places(body):
    """places whose Option/Result discriminant is tested somewhere in the body"""
    out = set()
    for b in sorted(body.reachable):
        sd = R.switch_discr_place(body, b)
        if sd is not None and (sd[1].startswith("std::option::Option<") or sd[1].startswith("std::result::Result<")):
            out.add(_norm(body, sd[0]))
        t = body.term(b)
        if t["k"] == "call" and "fn" in t and t["args"]:
            c = Callee(t["fn"])
            if c.path.split("::")[-1] in ("is_some", "is_none", "is_ok", "is_err") and (c.path.startswith("std::option::Option") or c.path.startswith("std::result::Result")):
                ap = _deref_place(body, t["args"][0])
                if ap is not None:
                    out.add(_norm(body, ap))
    return out


def _assigned_variant(body, rv):
    """variant index when rv constructs (directly or via a single-def temp) an Option/Result value"""
    if rv["k"] == "aggr" and rv.get("ak") == "adt" and rv.get("adt") in ("std::option::Option", "std::result::Result"):
        return rv["vidx"]
    if rv["k"] == "use":
        pl = op_place(rv["op"])
        if pl is not None and not pl[1]:
            d = body.single_def(pl[0])
            if d and d[1] != R.TERM:
                return _assigned_variant(body, d[2])
    return None


def _deferred_mut_refs(body):
    """{reference local: place it points to} for `&mut` references whose only uses are being handed to a call,
    being written through, reborrowed or moved into another such reference.  What they point to can change only at
    those uses - not where the reference is created (a two-phase borrow `x.set(f(..)?)` creates `&mut x` before the
    arguments are evaluated)"""
    cache = getattr(body, "_dmr", None)
    if cache is not None:
        return cache
    tgt = {}
    for l in range(len(body.locals)):
        if not str(body.local_ty(l)).startswith("&mut"):
            continue
        d = body.single_def(l)
        if not d or d[1] == R.TERM:
            continue
        rv = d[2]
        if rv["k"] == "ref":
            tgt[l] = _norm(body, P(rv["place"]))
        elif rv["k"] == "use" and op_place(rv["op"]) is not None and not op_place(rv["op"])[1]:
            tgt[l] = ("alias", op_place(rv["op"])[0])
    for _ in range(4):
        for l, v in list(tgt.items()):
            if v[0] == "alias":
                w = tgt.get(v[1])
                if w is None:
                    del tgt[l]
                elif w[0] != "alias":
                    tgt[l] = w
    tgt = {l: v for l, v in tgt.items() if v[0] != "alias"}
    ok = {}

    def good(l, depth=0):
        if l in ok:
            return ok[l]
        ok[l] = False
        if l not in tgt or depth > 4:
            return False
        for (b, i, node, how) in R.uses_of(body, l):
            if how in ("arg", "drop", "lhs-base"):
                continue
            if i != R.TERM and how in ("operand", "ref") and "rv" in node and not node["lhs"][1] and node["lhs"][0] in tgt and good(node["lhs"][0], depth + 1):
                continue
            return False
        ok[l] = True
        return True

    res = {l: tgt[l] for l in tgt if good(l)}
    body._dmr = res
    return res


def _reach_with_fact(prog, body, site_bb, place, bad, cap=60000):
    """Path-sensitive search: can the site be reached with `place` possibly having discriminant `bad`?
    Tracks discriminant facts for every Option/Result place that is tested in the function (so that
    correlated tests such as `a.is_none() && b.is_none()` are understood).  Returns False when
    provably not, True otherwise (including when the search budget is exhausted)."""
    place = _norm(body, place)
    tracked = _tested_places(body) | {place}
    tracked = {p for p in tracked if len(p[1]) <= 3}
    by_local = {}
    for p in tracked:
        by_local.setdefault(p[0], []).append(p)
    ALL = frozenset([0, 1])
    dmr = _deferred_mut_refs(body)
    seen = set()
    work = [(0, frozenset())]
    steps = 0
    while work:
        b, st = work.pop()
        if (b, st) in seen:
            continue
        seen.add((b, st))
        steps += 1
        if steps > cap:
            return True
        facts = dict(st)
        for s in body.stmts(b):
            if "lhs" not in s:
                continue
            lhs = P(s["lhs"])
            if lhs[1] and lhs[1][0] == "*":
                lhs = _norm(body, lhs)  # a write through a reference (`(*r).loc = ..`, r = &mut x) is a write to x.loc
            rv = s["rv"]
            # writes end what a scrutinee tuple says about the place it copied
            for k_ in [k_ for k_, v_ in facts.items() if k_[0] == "alias" and v_[0] == lhs[0] and (tuple(v_[1][: len(lhs[1])]) == tuple(lhs[1]) or tuple(lhs[1][: len(v_[1])]) == tuple(v_[1]))]:
                del facts[k_]
            if rv["k"] == "aggr" and rv.get("ak") == "tuple" and not lhs[1]:
                # `match (a.loc, b.loc) { .. }`: the tuple's fields are copies of tracked places
                for i_, o_ in enumerate(rv["ops"]):
                    sp = op_place(o_)
                    sp = _norm(body, sp) if sp is not None else None
                    if sp is not None and sp in tracked:
                        fp_ = (lhs[0], (f".{i_}",))
                        facts[("alias", fp_)] = sp
                        if fp_ in tracked:
                            if sp in facts:
                                facts[fp_] = facts[sp]
                            else:
                                facts.pop(fp_, None)
                continue
            for p in by_local.get(lhs[0], ()):
                if lhs == p:
                    v = _assigned_variant(body, rv)
                    if v is not None:
                        facts[p] = frozenset([v])
                    else:
                        facts.pop(p, None)
                elif len(lhs[1]) < len(p[1]) and tuple(p[1][: len(lhs[1])]) == tuple(lhs[1]):
                    facts.pop(p, None)
            if rv["k"] in ("ref", "rawptr") and rv.get("mut", True) and not (not s["lhs"][1] and s["lhs"][0] in dmr):
                rp = P(rv["place"])
                for p in by_local.get(rp[0], ()):
                    if tuple(p[1][: len(rp[1])]) == tuple(rp[1]) or tuple(rp[1][: len(p[1])]) == tuple(p[1]):
                        facts.pop(p, None)
                        for k_ in [k_ for k_, v_ in facts.items() if k_[0] == "alias" and v_ == p]:
                            del facts[k_]
        if b == site_bb:
            cur = facts.get(place)
            if cur is None or bad in cur:
                return True
            continue
        t = body.term(b)
        if t["k"] in ("call", "tailcall") and dmr:
            # a deferred `&mut` reference is handed to a call: what it points to may change now
            for a_ in t.get("args", []):
                ap_ = op_place(a_)
                if ap_ is not None and not ap_[1] and ap_[0] in dmr:
                    rp = dmr[ap_[0]]
                    for p in by_local.get(rp[0], ()):
                        if tuple(p[1][: len(rp[1])]) == tuple(rp[1]) or tuple(rp[1][: len(p[1])]) == tuple(p[1]):
                            facts.pop(p, None)
                            for k_ in [k_ for k_, v_ in facts.items() if k_[0] == "alias" and v_ == p]:
                                del facts[k_]
        if t["k"] == "call" and t.get("dest"):
            d = P(t["dest"])
            for p in by_local.get(d[0], ()):
                if d == p or (len(d[1]) < len(p[1]) and tuple(p[1][: len(d[1])]) == tuple(d[1])):
                    facts.pop(p, None)
                    for k_ in [k_ for k_, v_ in facts.items() if k_[0] == "alias" and v_ == p]:
                        del facts[k_]
        sd = R.switch_discr_place(body, b)
        if sd is not None and _norm(body, sd[0]) in tracked:
            pl = _norm(body, sd[0])
            listed = [v for v, _ in t["vals"]]
            for v, tgt in t["vals"] + [[None, t["otherwise"]]]:
                allowed = frozenset([v]) if v is not None else ALL - frozenset(listed)
                cur = facts.get(pl)
                if cur is not None:
                    allowed = allowed & cur
                if allowed:
                    nf = dict(facts)
                    nf[pl] = allowed
                    al = facts.get(("alias", pl))
                    if al is not None:
                        a3 = allowed if nf.get(al) is None else (allowed & nf[al])
                        if not a3:
                            continue
                        nf[al] = a3
                    work.append((tgt, frozenset(nf.items())))
            continue
        if t["k"] == "switch":
            o = R.origin(body, t["op"], carriers={})
            if o[0] == "call" and "fn" in o[2]:
                c = Callee(o[2]["fn"])
                last = c.path.split("::")[-1]
                if last in ("is_some", "is_none", "is_ok", "is_err") and o[2]["args"]:
                    ap = _deref_place(body, o[2]["args"][0])
                    ap = _norm(body, ap) if ap is not None else None
                    if ap is not None and ap in tracked:
                        tt, ft = R.switch_targets_bool(t)
                        true_set = frozenset([1]) if last in ("is_some", "is_err") else frozenset([0])
                        for tgt, allowed in ((tt, true_set), (ft, ALL - true_set)):
                            cur = facts.get(ap)
                            a2 = allowed if cur is None else (allowed & cur)
                            if a2:
                                nf = dict(facts)
                                nf[ap] = a2
                                work.append((tgt, frozenset(nf.items())))
                        continue
        for s_ in body.succ[b]:
            work.append((s_, frozenset(facts.items())))
    return False


def _deref_place(body, op):
    """place that a `&place` operand refers to"""
    pl = op_place(op)
    if pl is None:
        return None
    d = body.single_def(pl[0])
    if d and d[1] != R.TERM and d[2]["k"] == "ref":
        return _source_place(body, P(d[2]["place"]))
    return None


def _same_place(body, a, b):
    a = _norm(body, a)
    b = _norm(body, b)
    return a == b


def _norm(body, pl):
    """resolve `(*_r)` where _r = &place into place"""
    local, proj = pl
    if proj and proj[0] == "*":
        d = body.single_def(local)
        if d and d[1] != R.TERM and d[2]["k"] == "ref":
            base = P(d[2]["place"])
            return _norm(body, (base[0], tuple(base[1]) + tuple(proj[1:])))
        if d and d[1] != R.TERM and d[2]["k"] == "use" and op_place(d[2]["op"]) is not None:
            src = op_place(d[2]["op"])
            return _norm(body, (src[0], tuple(src[1]) + tuple(proj)))
    if not proj:
        return _source_place(body, pl)
    return (local, tuple(proj))


# ---------------------------------------------------------------------------
# D5: structural counters
# ---------------------------------------------------------------------------
STRUCTURAL_CALLS = (
    "len", "find", "rfind", "position", "count", "min", "max", "index", "saturating_sub", "saturating_add", "checked_add", "checked_sub",
    "unwrap_or", "unwrap_or_default", "clone", "to_owned", "deref", "next", "into", "from", "branch", "unwrap", "expect", "enumerate", "char_indices", "chars",
    "into_iter", "iter", "rev", "zip", "capacity", "start", "end", "as_ref", "copied", "cloned", "get", "last", "first", "abs_diff", "ok_or", "ok_or_else",
)
TAINT_CALLS = ("parse", "from_str", "one_number", "number_pair", "number_triple", "number_list", "strp", "from_str_radix", "strp_length", "split_unit")


def overflow_structural(body, t):
    """Overflow(Add) assert on a 64-bit unsigned count whose operands are structural (never a number
    parsed from the document)."""
    a, b = t.get("a"), t.get("b")
    if a is None or b is None:
        return None
    tys = set()
    for o in (a, b):
        pl = op_place(o)
        if pl is not None and not pl[1]:
            tys.add(body.local_ty(pl[0]))
        k = op_const(o)
        if k is not None:
            tys.add(k["ty"])
    if not tys <= {"usize", "u64"}:
        return None
    for o in (a, b):
        if _tainted(body, o, set(), 10):
            return None
    return "usize arithmetic on structural quantities (constants, lengths, positions, unit-step counters): cannot reach 2^64 on in-memory data in feasible time"


PROG = None  # set by the caller that owns the program (closure bodies are looked up in it)


def _tainted(body, op, seen, depth):
    if depth <= 0:
        return True
    if op_const(op) is not None:
        return False
    pl = op_place(op)
    if pl is None:
        return True
    local, proj = pl
    if (local, proj) in seen:
        return False
    seen.add((local, proj))
    named = [p for p in proj if p.startswith(".") and not p[1:].isdigit()]
    if named:
        return False  # a struct field: structural (indices, counters); parsed numbers live in f32 fields
    if 0 < local <= body.argc:
        return False  # parameter: provenance checked at callers' own sites (usize params are counts/indices in this code base)
    defs = body.defs_of(local)
    if not defs:
        return False
    for (b, i, rv) in defs:
        if i == R.TERM:
            c = Callee(rv["fn"]) if "fn" in rv else None
            last = c.path.split("::")[-1] if c else ""
            if last in TAINT_CALLS:
                return True
            if last in STRUCTURAL_CALLS:
                continue
            if last in ("map", "map_or", "map_or_else", "and_then", "unwrap_or_else", "filter", "or_else") and c is not None and c.path.startswith(("std::option::Option", "std::result::Result")) and PROG is not None:
                # a combinator on an Option: structural when its operands are and the closures it is given neither parse
                # nor convert from a float
                bad_ = False
                for a_ in rv.get("args", []):
                    cid_ = R.closure_id_of_operand(body, a_)
                    k_ = op_const(a_)
                    if cid_ is None and k_ is not None and "{" in str(k_.get("ty", "")) and str(k_.get("ty", "")).startswith(("fn(", "for<")):
                        # a function of the crate handed over by name (`map_or(0, newline_count)`)
                        fb_ = PROG.maybe_body(str(k_["ty"]).rsplit("{", 1)[1].rstrip("}"))
                        if fb_ is None or fb_.call_sites(lambda c2: c2.path.split("::")[-1] in TAINT_CALLS) or any((s_.get("rv") or {}).get("k") == "cast" and "FloatToInt" in str((s_.get("rv") or {}).get("ck", "")) for _x, _i, s_ in fb_.all_stmts()):
                            bad_ = True
                        continue
                    if cid_ is not None:
                        cb_ = PROG.bodies.get(cid_)
                        if cb_ is None or cb_.call_sites(lambda c2: c2.path.split("::")[-1] in TAINT_CALLS) or any((s_.get("rv") or {}).get("k") == "cast" and str(cb_.local_ty((op_place((s_["rv"]).get("op")) or (0,))[0])) in ("f32", "f64") for _x, _i, s_ in cb_.all_stmts()):
                            bad_ = True
                    elif _tainted(body, a_, seen, depth - 1):
                        bad_ = True
                if not bad_:
                    continue
            return True  # unknown producer
        k = rv["k"]
        if k == "use":
            if _tainted(body, rv["op"], seen, depth - 1):
                return True
        elif k == "cast":
            src = rv["op"]
            spl = op_place(src)
            sty = body.local_ty(spl[0]) if spl is not None and not spl[1] else (op_const(src) or {}).get("ty", "")
            if sty in ("f32", "f64"):
                return True
            if _tainted(body, src, seen, depth - 1):
                return True
        elif k == "binop":
            if _tainted(body, rv["a"], seen, depth - 1) or _tainted(body, rv["b"], seen, depth - 1):
                return True
        elif k in ("ref", "discr", "aggr", "unop", "other"):
            if k == "unop" and rv.get("op") == "PtrMetadata":
                continue
            if k == "aggr":
                for o in rv.get("ops", []):
                    if _tainted(body, o, seen, depth - 1):
                        return True
                continue
            continue
    return False


# ---------------------------------------------------------------------------
# dominating conditions (for argument-precondition guards: clamp, random_range, rest[n])
# ---------------------------------------------------------------------------

def _okey(body, op):
    """identity of a scalar operand: named local / constant / None"""
    k = op_const(op)
    if k is not None:
        return ("const", k.get("int", k.get("float", k.get("disp"))))
    # through plain copies / moves only: a cast changes the value (`x as i32` of a NaN is 0), so `a <= b` known of the
    # values before a cast says nothing about the values after it
    pl = op_place(op)
    if pl is not None:
        src = _source_place(body, pl)
        if not src[1]:
            return ("local", src[0])
        return ("place", src)
    return None


def dom_conditions(body, bb):
    """[(kind, payload, truth)] for every branch that dominates bb:
       ('call', (callee_last, [arg keys]))  |  ('cmp', (op, akey, bkey))"""
    out = []
    for (a, x) in dominating_edges(body, bb):
        t = body.term(a)
        if t["k"] != "switch":
            continue
        tt, ft = R.switch_targets_bool(t)
        if x not in (tt, ft) or tt == ft:
            continue
        truth = x == tt
        o = R.origin(body, t["op"], carriers={})
        if o[0] == "call" and "fn" in o[2]:
            c = Callee(o[2]["fn"])
            out.append(("call", (c.path.split("::")[-1], [_okey(body, arg) for arg in o[2]["args"]]), truth))
        elif o[0] == "rv" and o[1].get("k") == "binop" and o[1]["op"] in R.CMP_OPS:
            rv = o[1]
            out.append(("cmp", (rv["op"], _okey(body, rv["a"]), _okey(body, rv["b"])), truth))
        elif o[0] == "rv" and o[1].get("k") == "unop" and o[1].get("op") == "Not":
            o2 = R.origin(body, o[1]["a"], carriers={})
            if o2[0] == "call" and "fn" in o2[2]:
                c = Callee(o2[2]["fn"])
                out.append(("call", (c.path.split("::")[-1], [_okey(body, arg) for arg in o2[2]["args"]]), not truth))
            elif o2[0] == "rv" and o2[1].get("k") == "binop" and o2[1]["op"] in R.CMP_OPS:
                rv = o2[1]
                out.append(("cmp", (rv["op"], _okey(body, rv["a"]), _okey(body, rv["b"])), not truth))
    return out


NEG = {"Gt": "Le", "Ge": "Lt", "Lt": "Ge", "Le": "Gt", "Eq": "Ne", "Ne": "Eq"}


def knows_le(conds, a, b, strict=False):
    """do the dominating conditions establish a <= b (a < b when strict)?  (for floats: and not NaN-unordered
    only when the established relation is a positive comparison)"""
    for kind, payload, truth in conds:
        if kind != "cmp":
            continue
        op, x, y = payload
        if not truth:
            op = NEG[op]
            positive = False
        else:
            positive = True
        rel = None
        if (x, y) == (a, b):
            rel = op
        elif (x, y) == (b, a):
            rel = R.MIRROR[op]
        if rel is None:
            continue
        if strict and rel == "Lt":
            return True, positive
        if not strict and rel in ("Le", "Lt", "Eq"):
            return True, positive
    return False, False


def knows_not_call(conds, name, key):
    for kind, payload, truth in conds:
        if kind == "call" and payload[0] == name and payload[1] and payload[1][0] == key and not truth:
            return True
    return False


def clamp_guard(body, bb, t):
    """f32::clamp(x, min, max) panics if min > max or either bound is NaN"""
    if len(t["args"]) != 3:
        return None
    lo, hi = _okey(body, t["args"][1]), _okey(body, t["args"][2])
    if lo is None or hi is None:
        return None
    conds = dom_conditions(body, bb)
    le, positive = knows_le(conds, lo, hi)
    nan_lo = knows_not_call(conds, "is_nan", lo) or lo[0] == "const"
    nan_hi = knows_not_call(conds, "is_nan", hi) or hi[0] == "const"
    if le and (positive or (nan_lo and nan_hi)) and nan_lo and nan_hi:
        return "dominating tests establish min <= max and that neither bound is NaN"
    if le and positive:
        return "a dominating positive comparison min <= max holds (which also excludes NaN bounds)"
    return None


def range_guard(body, bb, t):
    """random_range(lo..=hi) panics on an empty range"""
    o = R.origin(body, t["args"][1], carriers={}) if len(t["args"]) > 1 else None
    if not o or o[0] != "call" or "fn" not in o[2]:
        return None
    c = Callee(o[2]["fn"])
    if not c.path.endswith("RangeInclusive::<Idx>::new") and "RangeInclusive" not in c.path:
        return None
    lo, hi = _okey(body, o[2]["args"][0]), _okey(body, o[2]["args"][1])
    conds = dom_conditions(body, bb)
    le, positive = knows_le(conds, lo, hi)
    tys = {str(body.local_ty(op_place(a)[0])) if op_place(a) is not None and not op_place(a)[1] else "?" for a in o[2]["args"][:2]}
    if le and (positive or tys <= {"i32", "i64", "u32", "u64", "usize", "isize"}):
        return "dominating test establishes min <= max for the (integer) range bounds"
    return None


def bounds_guard(body, bb, t):
    """slice[idx] (BoundsCheck assert): dominated by idx < len of the same slice"""
    idx = _okey(body, t.get("index"))
    ln = t.get("len")
    if idx is None or ln is None:
        return None
    lkey, kind = _len_subject(body, ln)
    conds = dom_conditions(body, bb)
    # find a dominating `idx < X.len()` where X is the indexed slice
    for (a, x) in dominating_edges(body, bb):
        tt = body.term(a)
        if tt["k"] != "switch":
            continue
        t_true, t_false = R.switch_targets_bool(tt)
        o = R.origin(body, tt["op"], carriers={})
        if o[0] == "rv" and o[1].get("k") == "binop":
            rv = o[1]
            op = rv["op"]
            if x == t_false:
                op = NEG.get(op)
            for (p, q, oo) in ((rv["a"], rv["b"], op), (rv["b"], rv["a"], R.MIRROR.get(op))):
                if oo == "Lt" and _okey(body, p) == idx:
                    k2, kind2 = _len_subject(body, q)
                    if k2 is not None and k2 == lkey:
                        return "dominating test `index < len` of the same slice"
    return None


# ---------------------------------------------------------------------------
# D3 / D4: offsets derived from a search on the same collection
# ---------------------------------------------------------------------------

def _search_origin(body, op, names):
    """if the operand is the hit payload of recv.<name>(..) return (value_key(recv), call bb)"""
    o = R.origin(body, op, carriers={"branch": 0, "unwrap": 0, "expect": 0})
    if o[0] == "call" and "fn" in o[2]:
        c = Callee(o[2]["fn"])
        if c.path.split("::")[-1] in names and o[2]["args"]:
            recv = o[2]["args"][0]
            # position() is called on an iterator: follow to the collection
            k = value_key(body, recv)
            if k is not None and k[0] == "call":
                it = body.term(k[1])
                if "fn" in it and Callee(it["fn"]).path.split("::")[-1] in ("iter", "iter_mut", "chars", "char_indices") and it["args"]:
                    k = value_key(body, it["args"][0])
            return k, o[1]
    return None, None


def search_offset_guard(body, bb, t, kind):
    """split_at(s, i) / Vec::remove(v, i): i is the hit of find/rfind/position on the same s / v"""
    recv, idx = t["args"][0], t["args"][1]
    names = ("find", "rfind") if kind == "split_at" else ("position", "rposition")
    if kind == "split_at" and "fn" in t and "[" in Callee(t["fn"]).path and "str" not in Callee(t["fn"]).path.split("<impl ")[-1][:4]:
        names = ("position", "rposition")  # split_at on a slice: the offset of an element, not of a char
    k, cb = _search_origin(body, idx, names)
    if k is None:
        return None
    rk = value_key(body, recv)
    if rk is None or rk != k:
        return None
    if mutated_between(body, rk, cb, bb):
        return None
    return f"offset is the {names[0]}() hit on the same, unmodified {'string' if kind == 'split_at' else 'vector'}"


def ascii_match_tail(body, op):
    """is the &str operand the tail `.1` of `x.split_at(h)` where h is the find() / rfind() hit of a pattern made of
    ASCII characters only on the same x?  Such a tail is not empty and starts with a one-byte character"""
    pl = op_place(op)
    for _ in range(6):
        if pl is None:
            return False
        if pl[1] and [p for p in pl[1] if p != "*"] == [".1"]:
            d = body.single_def(pl[0])
            if not d or d[1] != R.TERM or "fn" not in d[2] or not Callee(d[2]["fn"]).path.endswith("<impl str>::split_at"):
                return False
            k, cb = _search_origin(body, d[2]["args"][1], ("find", "rfind"))
            if k is None or k != value_key(body, d[2]["args"][0]):
                return False
            ft = body.term(cb)
            if len(ft.get("args", [])) < 2:
                return False
            ch = body.chase(ft["args"][1])
            chars = None
            if ch[0] == "rv" and ch[1].get("k") == "aggr" and ch[1].get("ak") == "array":
                chars = [(op_const(o) or {}).get("char") for o in ch[1]["ops"]]
            elif ch[0] == "const" and "char" in ch[1]:
                chars = [ch[1]["char"]]
            return bool(chars) and all(isinstance(c_, str) and len(c_) == 1 and ord(c_) < 128 for c_ in chars)
        d = body.single_def(pl[0]) if not [p for p in pl[1] if p != "*"] else None
        if not d or d[1] == R.TERM:
            return False
        rv = d[2]
        pl = op_place(rv.get("op")) if rv["k"] in ("use", "cast") else (P(rv["place"]) if rv["k"] == "ref" else None)
    return False


def tail_offset_guard(prog, body, bb, t):
    """`s.split_at(n)` where s starts with a one-byte character (ascii_match_tail) and n is
    `s[1..].find(p).map_or(s.len(), |i| i + 1)`: the hit i is a char boundary of s[1..], so i + 1 is one of s; s.len()
    is one too"""
    recv, off = t["args"][0], t["args"][1]
    if not ascii_match_tail(body, recv):
        return None
    o = R.origin(body, off, carriers={})
    if o[0] != "call" or "fn" not in o[2] or not Callee(o[2]["fn"]).path.endswith("Option::<T>::map_or") or len(o[2]["args"]) != 3:
        return None
    opt, dflt, clo = o[2]["args"]
    lk, kind = _len_subject(body, dflt)
    if lk is None or kind != "len" or lk != value_key(body, recv):
        return None
    fo = R.origin(body, opt, carriers={})
    if fo[0] != "call" or "fn" not in fo[2] or Callee(fo[2]["fn"]).path.split("::")[-1] not in ("find", "rfind"):
        return None
    so = R.origin(body, fo[2]["args"][0], carriers={})
    if so[0] != "call" or "fn" not in so[2] or Callee(so[2]["fn"]).decl_path != "std::ops::Index::index":
        return None
    if value_key(body, so[2]["args"][0]) != value_key(body, recv):
        return None
    ro = R.origin(body, so[2]["args"][1], carriers={})
    if not (ro[0] == "rv" and str(ro[1].get("adt", "")).endswith("RangeFrom") and const_int(ro[1]["ops"][0]) == 1):
        return None
    if closure_adds(prog, body, clo) != 1:
        return None
    return "offset is `s[1..].find(..).map_or(s.len(), |i| i + 1)` on a tail that starts with a one-byte character: a char boundary of s"


def closure_adds(prog, body, clo_op):
    """k when the closure operand is `|i| i + k` (k a positive constant), else None"""
    cid = R.closure_id_of_operand(body, clo_op)
    cb = prog.bodies.get(cid) if cid is not None else None
    if cb is None or cb.argc != 2:
        return None
    for x, i, s_ in cb.all_stmts():
        rv = s_.get("rv") or {}
        if rv.get("k") == "binop" and str(rv.get("op", "")).startswith("Add"):
            ao = R.origin(cb, rv["a"], carriers={})
            k = const_int(rv["b"])
            if ao[0] == "arg" and ao[1] == 2 and isinstance(k, int) and k >= 1:
                others = [1 for _x, _i, s2 in cb.all_stmts() if (s2.get("rv") or {}).get("k") == "binop" and s2 is not s_]
                if not others:
                    return k
    return None


def str_index_guard(body, bb, t):
    """s[..i] / s[i..] where i is the find()/rfind() hit on the same &str"""
    o1_ = R.origin(body, t["args"][1], carriers={})
    if o1_[0] == "rv" and str(o1_[1].get("adt", "")).endswith("RangeFrom") and const_int(o1_[1]["ops"][0]) == 1 and ascii_match_tail(body, t["args"][0]):
        return "s[1..] on the tail of a split at the hit of an ASCII pattern: the tail starts with that one-byte character"
    recv = t["args"][0]
    o = R.origin(body, t["args"][1], carriers={})
    if not (o[0] == "rv" and o[1].get("k") == "aggr" and o[1].get("adt", "").startswith("std::ops::Range")):
        return None
    name = o[1]["adt"].split("::")[-1]
    if name not in ("RangeTo", "RangeFrom"):
        return None
    k, cb = _search_origin(body, o[1]["ops"][0], ("find", "rfind"))
    if k is None or k != value_key(body, recv):
        return None
    if mutated_between(body, k, cb, bb):
        return None
    return f"slice bound is the find() hit on the same, unmodified &str ({name})"


def position_index_guard(body, bb, t):
    """v[i] / v[..i] / v[i..] / v[i + 1..] on a Vec or slice where i is the hit of position() / rposition() over an
    iterator of the same, unmodified collection: i < len, so each of these is in range"""
    recv, a1 = t["args"][0], t["args"][1]
    rk = value_key(body, recv)
    if rk is None:
        return None

    def hit(op, allow_succ):
        k, cb = _search_origin(body, op, ("position", "rposition"))
        if k is not None:
            return k, cb, ""
        if allow_succ:
            o = R.origin(body, op, carriers={})
            rv = o[1] if o[0] == "rv" else None
            if rv is not None and rv.get("k") in ("binop", "checked_binop") and str(rv.get("op", "")).startswith("Add"):
                for x, y in ((rv["a"], rv["b"]), (rv["b"], rv["a"])):
                    if const_int(y) == 1:
                        k, cb = _search_origin(body, x, ("position", "rposition"))
                        if k is not None:
                            return k, cb, " + 1"
        return None, None, ""

    o = R.origin(body, a1, carriers={})
    form = None
    if o[0] == "rv" and o[1].get("k") == "aggr" and o[1].get("adt", "").startswith("std::ops::Range"):
        name = o[1]["adt"].split("::")[-1]
        if name == "RangeTo":
            k, cb, sfx = hit(o[1]["ops"][0], True)
            form = f"..i{sfx}"
        elif name == "RangeFrom":
            k, cb, sfx = hit(o[1]["ops"][0], True)
            form = f"i{sfx}.."
        else:
            return None
    else:
        k, cb, sfx = hit(a1, False)
        form = "[i]"
    if k is None or k != rk:
        return None
    if mutated_between(body, rk, cb, bb):
        return None
    return f"index {form} where i is the position() hit on the same, unmodified collection (i < len)"


_SHRINKING = ("pop", "clear", "remove", "truncate", "drain", "retain", "retain_mut", "swap_remove", "split_off", "dedup", "dedup_by", "dedup_by_key", "take", "replace", "swap", "set_len", "resize", "resize_with", "append")


def may_be_empty_at(body, site_bb, key, cap=40000):
    """path-sensitive: can `site_bb` be reached with the collection `key` possibly empty?  A path learns "not empty"
    from the false edge of `is_empty()` (or a `len()` comparison the D2 edge reader understands) and from a `push`
    / `insert` / `push_str` into it; it forgets it when the collection is handed out mutably to anything that can
    shrink it.  False = non-empty on every path."""
    def recv_key(t):
        return value_key(body, t["args"][0]) if t.get("args") else None

    seen, work, steps = set(), [(0, True)], 0
    while work:
        b, maybe = work.pop()
        if (b, maybe) in seen:
            continue
        seen.add((b, maybe))
        steps += 1
        if steps > cap:
            return True
        if b == site_bb:
            if maybe:
                return True
            continue
        t = body.term(b)
        nxt = maybe
        if t["k"] in ("call", "tailcall") and "fn" in t and t.get("args"):
            c = Callee(t["fn"])
            last = c.path.split("::")[-1]
            if recv_key(t) == key:
                if last in ("push", "insert", "push_str", "push_back", "push_front"):
                    nxt = False
                elif last in _SHRINKING:
                    nxt = True
            elif any(value_key(body, a) == key for a in t["args"]) and c.local:
                # handed to a function of the crate: by shared reference it cannot change; by `&mut` anything can happen
                for a in t["args"]:
                    pl = op_place(a)
                    if pl is not None and value_key(body, a) == key and str(body.local_ty(pl[0])).startswith("&mut"):
                        nxt = True
        if t["k"] == "switch":
            r_done = False
            for s_ in body.succ[b]:
                r = len_lower_bound_on_edge(body, b, s_)
                if r is not None and r[0] == key:
                    r_done = True
                    work.append((s_, False if r[1] >= 1 else nxt))
                else:
                    work.append((s_, nxt))
            if r_done or True:
                continue
        for s_ in body.succ[b]:
            work.append((s_, nxt))
    return False


def nonempty_guard(body, bb, t, kind):
    """sites that are safe on a non-empty collection: `v.len() - 1`, `v[v.len() - 1]`, and the None arm of
    `v.last()` / `last_mut()` / `first()` / `first_mut()` (unwrap / expect / a panicking match arm)"""
    if kind.startswith("assert:Overflow(Sub)"):
        # len(v) - 1
        if const_int(t.get("b")) != 1:
            return None
        lk, k2 = _len_subject(body, t.get("a"))
        if lk is None or k2 != "len":
            return None
        if may_be_empty_at(body, bb, lk) is False:
            return "`len - 1` of a collection that is not empty on any path to this point (tested with is_empty() / pushed to)"
        return None
    if kind == "index":
        recv, idx = t["args"][0], t["args"][1]
        rk = value_key(body, recv)
        o = R.origin(body, idx, carriers={})
        rv = None
        if o[0] == "rv":
            rv = o[1]
        elif o[0] in ("unknown", "field", "place") or True:
            pl = op_place(idx)
            d = body.single_def(pl[0]) if pl is not None and not pl[1] else None
            for _ in range(4):
                if d and d[1] != R.TERM and d[2]["k"] == "use" and op_place(d[2]["op"]) is not None:
                    p2 = op_place(d[2]["op"])
                    if p2[1] == (".0",):
                        d2 = body.single_def(p2[0])
                        rv = d2[2] if d2 and d2[1] != R.TERM else None
                        break
                    d = body.single_def(p2[0]) if not p2[1] else None
                else:
                    break
        if rk is not None and rv is not None and rv.get("k") == "binop" and str(rv.get("op", "")).startswith("Sub") and const_int(rv.get("b")) == 1:
            lk, k2 = _len_subject(body, rv["a"])
            if lk == rk and k2 == "len" and may_be_empty_at(body, bb, rk) is False:
                return "index `len - 1` of a collection that is not empty on any path to this point"
        return None
    return None


def last_of_nonempty(body, bb, t_or_none, opt_local):
    """the Option in `opt_local` is the result of last() / last_mut() / first() / first_mut() on a collection that is
    not empty on any path to the call: it is Some"""
    d = body.single_def(opt_local)
    for _ in range(4):
        if d and d[1] != R.TERM and d[2]["k"] == "use" and op_place(d[2]["op"]) is not None and not op_place(d[2]["op"])[1]:
            d = body.single_def(op_place(d[2]["op"])[0])
        else:
            break
    if not d or d[1] != R.TERM or "fn" not in d[2]:
        return None
    c = Callee(d[2]["fn"])
    if c.path.split("::")[-1] not in ("last", "last_mut", "first", "first_mut") or not d[2].get("args"):
        return None
    k = value_key(body, d[2]["args"][0])
    if k is None:
        return None
    if may_be_empty_at(body, d[0], k) is False:
        return f"`{c.path.split('::')[-1]}()` of a collection that is not empty on any path to the call (tested with is_empty() / pushed to): Some"
    return None


def insert_slot_guard(body, bb, t):
    """Vec::insert(v, i, x) with i = `position(..).unwrap_or(v.len())` (or the position hit itself) over the same,
    unmodified v: i <= len"""
    recv, idx = t["args"][0], t["args"][1]
    rk = value_key(body, recv)
    if rk is None:
        return None
    k, cb = _search_origin(body, idx, ("position", "rposition"))
    if k is not None and k == rk and not mutated_between(body, rk, cb, bb):
        return "insert at the position() hit on the same, unmodified Vec (i < len)"
    o = R.origin(body, idx, carriers={})
    if o[0] == "call" and "fn" in o[2] and Callee(o[2]["fn"]).path.split("::")[-1] in ("unwrap_or", "unwrap_or_else") and len(o[2]["args"]) == 2:
        k, cb = _search_origin(body, o[2]["args"][0], ("position", "rposition"))
        lk, kind = _len_subject(body, o[2]["args"][1])
        if lk is None:
            cid = R.closure_id_of_operand(body, o[2]["args"][1])
            lk, kind = (rk, "len") if cid is not None and _closure_returns_len_of(body, cid, rk) else (None, None)
        if k is not None and k == rk and lk == rk and kind == "len" and not mutated_between(body, rk, cb, bb):
            return "insert at `position(..).unwrap_or(len)` of the same, unmodified Vec (i <= len)"
    return None


def _closure_returns_len_of(body, cid, rk):
    return False  # `unwrap_or_else(|| v.len())`: not needed so far


def closure_param_index_guard(prog, body, bb, t, kind):
    """`opt.map(|i| v[i])` / `.map(|i| v.remove(i))`: the index is the closure's parameter, the closure is handed to
    Option::map / and_then / map_or / is_some_and on the position() hit over the same collection in the enclosing
    function, and nothing else calls it"""
    if body.kind != "Closure" or body.root is None or body.root not in prog.bodies:
        return None
    idx = t["args"][1]
    o = R.origin(body, idx, carriers={})
    if o[0] != "arg" or o[1] != 2 or body.argc != 2:
        return None
    # the collection inside the closure: a field of a captured reference, or the captured reference itself
    recv = R.origin(body, t["args"][0], carriers={"deref": 0, "deref_mut": 0})
    fld = None
    if recv[0] == "field" and recv[1][1]:
        named = [x for x in recv[1][1] if isinstance(x, str) and x.startswith(".") and not x[1:].isdigit()]
        fld = named[-1] if named else None
    parent = prog.bodies[body.root]
    for (pb, pt, pc) in parent.call_sites(lambda c: c.path.startswith("std::option::Option::<T>::") and c.path.split("::")[-1] in ("map", "and_then", "map_or", "map_or_else", "is_some_and", "inspect")):
        cids = [R.closure_id_of_operand(parent, a) for a in pt["args"][1:]]
        if body.id not in cids:
            continue
        k, cb = _search_origin(parent, pt["args"][0], ("position", "rposition"))
        if k is None or k[0] != "field":
            return None
        kp = k[1]
        named = [x for x in (kp[1] if isinstance(kp, tuple) and len(kp) == 2 else ()) if isinstance(x, str) and x.startswith(".") and not x[1:].isdigit()]
        if fld is not None and named and named[-1] == fld and not mutated_between(parent, k, cb, pb):
            return f"the index is the parameter of a closure applied to the position() hit over `{fld[1:]}` of the same object (i < len)"
        if fld is None and recv[0] == "arg":
            # the collection itself is captured by reference (`|i| attrs.remove(i)` captures `&mut self.attrs`): one of
            # the values the closure is built from is a reference to the searched collection
            ch = parent.chase([a for a in pt["args"][1:] if R.closure_id_of_operand(parent, a) == body.id][0])
            if ch[0] == "rv" and ch[1].get("k") == "aggr":
                caps = [value_key(parent, o_) for o_ in ch[1].get("ops", [])]
                if k in caps and len([c_ for c_ in caps if c_ == k]) == 1 and not mutated_between(parent, k, cb, pb):
                    return "the index is the parameter of a closure applied to the position() hit over the collection the closure captures (i < len)"
    return None


def split_tail_guard(body, bb, t):
    """`rest[1..]` / `rest[0]` where `rest` is the second half of `v.split_at(i)` and i is the position() hit on v:
    i < len(v), so rest holds at least the hit itself"""
    recv, a1 = t["args"][0], t["args"][1]
    o = R.origin(body, a1, carriers={})
    need = None
    if o[0] == "rv" and o[1].get("k") == "aggr" and str(o[1].get("adt", "")).endswith("RangeFrom"):
        need = const_int(o[1]["ops"][0])
    elif o[0] == "const":
        c = const_int(a1)
        need = c + 1 if c is not None else None
    if need is None or need > 1:
        return None
    # the receiver is component .1 of the result of split_at
    pl = op_place(recv)
    for _ in range(6):
        if pl is None:
            return None
        if pl[1] and pl[1][-1] == ".1":
            d = body.single_def(pl[0])
            if d and d[1] == R.TERM and "fn" in d[2] and Callee(d[2]["fn"]).path.endswith("split_at") and "str" not in Callee(d[2]["fn"]).path:
                k, cb = _search_origin(body, d[2]["args"][1], ("position", "rposition"))
                rk = value_key(body, d[2]["args"][0])
                if k is not None and k == rk:
                    return "the slice is the tail of split_at(v, i) with i the position() hit on v: it starts with the hit, so it has at least one element"
            return None
        d = body.single_def(pl[0]) if not pl[1] else None
        if not d or d[1] == R.TERM:
            return None
        rv = d[2]
        pl = op_place(rv.get("op")) if rv["k"] in ("use", "cast") else (P(rv["place"]) if rv["k"] == "ref" else None)
        if pl is not None and pl[1] and pl[1][0] == "*" and len(pl[1]) == 1:
            pl = (pl[0], ())
    return None


def len_fraction_guard(body, bb, t):
    """split_at(v, k) / v[..k] where k is `v.len() / c` (c >= 1) or `v.len() - d` of the same, unmodified collection
    under the usual non-negativity of usize: k <= len"""
    recv, idx = t["args"][0], t["args"][1]
    rk = value_key(body, recv)
    if rk is None:
        return None
    o = R.origin(body, idx, carriers={})
    if o[0] == "rv" and o[1].get("k") in ("binop", "checked_binop") and str(o[1].get("op", "")).startswith("Div"):
        c = const_int(o[1]["b"])
        if c is not None and c >= 1:
            k2, kind = _len_subject(body, o[1]["a"])
            if k2 is not None and k2 == rk and not mutated_between(body, rk, o[2] if len(o) > 2 else bb, bb):
                return f"offset is len / {c} of the same collection (<= len)"
    return None


_ORDER_COMBINATORS = ("std::cmp::Ordering::then", "std::cmp::Ordering::then_with", "std::cmp::Ordering::reverse")


def total_order_comparator(prog, body, t):
    """D8: the documented panic of the slice sorts is a comparison that is not a total order.  A sort by key needs
    `K: Ord`; a sort by comparator is total when the closure's answer is built from `Ord::cmp` calls on non-float
    operands (combined with then / then_with / reverse) and from nothing else."""
    if "fn" not in t:
        return None
    c = Callee(t["fn"])
    last = c.path.split("::")[-1]
    if not c.path.startswith("std::slice::<impl [T]>::"):
        return None
    if last in ("sort_by_key", "sort_unstable_by_key", "sort_by_cached_key", "sort", "sort_unstable"):
        return f"`{last}` compares through `Ord` of the key type: a total order by the trait's contract"
    if last not in ("sort_by", "sort_unstable_by") or len(t.get("args", [])) < 2:
        return None
    cid = R.closure_id_of_operand(body, t["args"][1])
    cb = prog.bodies.get(cid) if cid is not None else None
    if cb is None:
        return None
    n = 0
    for _b, ct in cb.calls():
        if "fn" not in ct:
            return None
        cc = Callee(ct["fn"])
        if cc.decl_path == "std::cmp::Ord::cmp":
            if "f32" in cc.inst or "f64" in cc.inst:
                return None
            n += 1
        elif cc.decl_path in ("std::cmp::PartialOrd::partial_cmp", "std::cmp::PartialOrd::lt", "std::cmp::PartialOrd::le", "std::cmp::PartialOrd::gt", "std::cmp::PartialOrd::ge"):
            return None
        elif cc.local:
            return None
    # the answer is not assembled by hand from comparisons
    for _b, _i, s in cb.all_stmts():
        rv = s.get("rv") or {}
        if rv.get("k") == "binop" and rv.get("op") in ("Lt", "Le", "Gt", "Ge"):
            return None
        if rv.get("k") == "aggr" and "Ordering" in str(rv.get("adt", "")):
            return None
    if n == 0:
        return None
    return f"the comparator of `{last}` answers with `Ord::cmp` of its operands ({n} call(s)) and nothing else: a total order"
