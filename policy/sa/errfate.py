"""A6 error discipline: the fate of every Result produced by a call.

fates:  propagated            consumed by `?`
        returned              moved into the return place (directly or inside the returned value)
        transformed-<fate>    passed through map_err/map/and_then/inspect_err/or_else/... then <fate>
        matched               matched and the Err payload is read
        panics                unwrap/expect (a panic site: A2 decides it)
        dropped:<how>         the error value is discarded (.ok(), unwrap_or*, is_ok, `if let Ok`, let _ ...)
        passed:<callee>       handed to another function by value/reference
"""
import collections

from .prog import P, Callee, op_place
from . import rules as R

Site = collections.namedtuple("Site", "bb line callee fate detail dty")

FOLLOW = {"map_err", "map", "and_then", "inspect_err", "inspect", "or_else", "as_ref", "as_mut", "cloned", "copied", "as_deref", "transpose", "flatten"}
DROP = {
    "ok", "unwrap_or", "unwrap_or_default", "unwrap_or_else", "is_ok", "is_err", "map_or", "map_or_else",
    "is_ok_and", "is_err_and", "iter", "into_iter", "err", "unwrap_unchecked", "or", "and",
}
PANIC = {"unwrap", "expect", "unwrap_err", "expect_err"}

RANK = ["propagated", "returned", "matched-returned", "matched", "panics", "passed", "dropped"]


def _rank(f):
    base = f.split(":")[0].replace("transformed-", "")
    return RANK.index(base) if base in RANK else len(RANK)


def result_fates(prog, body):
    out = []
    for bb, t in body.calls():
        if "fn" not in t:
            continue
        dty = t.get("dty", "")
        if not dty.startswith("std::result::Result<"):
            continue
        c = Callee(t["fn"])
        last = c.path.split("::")[-1]
        if c.path.startswith("std::result::Result") and last in FOLLOW:
            continue  # intermediate value of a chain, accounted to the chain's origin
        if c.local and "svgdx::errors::" in c.path and t.get("args") and "Result<" in str(body.local_ty((op_place(t["args"][0]) or (0,))[0])):
            continue  # the same for an error-module helper applied to a Result
        if c.decl_path in ("std::ops::FromResidual::from_residual",):
            continue
        dest = P(t["dest"])
        if dest[1]:
            out.append(Site(bb, t.get("line"), c, "passed:stored-in-place", "result stored into a projection", dty))
            continue
        if dest[0] == 0:
            out.append(Site(bb, t.get("line"), c, "returned", "call result is the return value", dty))
            continue
        fate, detail = _fate_of_local(prog, body, dest[0], set())
        out.append(Site(bb, t.get("line"), c, fate, detail, dty))
        if not fate.startswith("dropped") and _selects_err_variants(body, dest[0]):
            # `match r { Err(E::A(..)) => .., other => other? }`: some variants of the error take a path of their own
            out.append(Site(bb, t.get("line"), c, "dropped:selected-variants", "the variant of the Err payload is tested: some errors are handled apart from the rest", dty))
    return out


def _fate_of_local(prog, body, local, seen, proj_prefix=()):
    if (local, proj_prefix) in seen:
        return "dropped:cycle", ""
    seen.add((local, proj_prefix))
    fates = []
    n = len(proj_prefix)
    for (b, i, node, how) in R.uses_of(body, local):
        if how == "drop":
            continue
        if i == R.TERM and node["k"] == "call":
            # which argument position(s)?
            hit = False
            for ai, a in enumerate(node["args"]):
                pl = op_place(a)
                if pl is not None and pl[0] == local and tuple(pl[1][:n]) == proj_prefix and len(pl[1]) == n:
                    hit = True
                    fates.append(_fate_of_call_use(prog, body, b, node, ai, seen))
            if not hit:
                # some projection of it is passed (e.g. the Ok payload) - look for Err payload reads below
                pass
            continue
        if i == R.TERM:
            continue
        rv = node.get("rv")
        if rv is None:
            continue
        lhs = P(node["lhs"])
        if how == "operand":
            ops = R.operands_of_rvalue(rv)
            whole = [o for o in ops if op_place(o) is not None and op_place(o)[0] == local and tuple(op_place(o)[1]) == proj_prefix]
            if whole:
                if rv["k"] == "use":
                    if lhs == (0, ()):
                        fates.append(("returned", "moved into the return place"))
                    elif not lhs[1]:
                        fates.append(_fate_of_local(prog, body, lhs[0], seen))
                    else:
                        fates.append(("passed:stored", f"stored into {lhs}"))
                elif rv["k"] == "aggr":
                    if rv["ak"] == "tuple" and not lhs[1]:
                        pos = [k for k, o in enumerate(rv["ops"]) if o in whole][0]
                        if lhs[0] == 0:
                            fates.append(("returned", "returned inside a tuple"))
                        else:
                            fates.append(_fate_of_local(prog, body, lhs[0], seen, (f".{pos}",)))
                    else:
                        if lhs == (0, ()):
                            fates.append(("returned", "returned inside an aggregate"))
                        else:
                            fates.append(("passed:aggregate", f"stored in aggregate {rv.get('adt', rv['ak'])}"))
                elif rv["k"] == "cast":
                    fates.append(("passed:cast", "cast"))
            else:
                # reads a projection: Err payload?
                for o in ops:
                    pl = op_place(o)
                    if pl is not None and pl[0] == local and tuple(pl[1][:n]) == proj_prefix and len(pl[1]) > n and pl[1][n] == "as Err":
                        if rv["k"] == "use" and not lhs[1] and _payload_returned(body, lhs[0]):
                            fates.append(("matched-returned", "Err payload is re-wrapped into the returned Err"))
                        else:
                            fates.append(("matched", "Err payload is read"))
        elif how == "ref":
            rp = P(rv["place"])
            if tuple(rp[1]) == proj_prefix and not lhs[1]:
                fates.append(_fate_of_local(prog, body, lhs[0], seen))
            elif len(rp[1]) > n and tuple(rp[1][:n]) == proj_prefix and rp[1][n] == "as Err":
                fates.append(("matched", "Err payload is borrowed"))
        elif how == "discr":
            rp = P(rv["place"])
            if tuple(rp[1]) == proj_prefix:
                # a match / if-let; payload reads are found by the operand/ref cases
                if _err_arm_supplies_value(body, b, lhs):
                    fates.append(("dropped:match-default", "matched; the Err arm supplies a value in place of the Ok payload"))
                else:
                    fates.append(("dropped:match-without-err-use", "matched but the Err payload is never read"))
    if not fates:
        return "dropped:unused", "value is never consumed"
    # "matched" beats the placeholder produced by its own discriminant read
    fates.sort(key=lambda f: _rank(f[0]))
    return fates[0]


def _fate_of_call_use(prog, body, bb, t, argi, seen):
    if "fn" not in t:
        return ("passed:fnptr", "passed to a function pointer")
    c = Callee(t["fn"])
    last = c.path.split("::")[-1]
    if c.decl_path == "std::ops::Try::branch":
        return ("propagated", "`?`")
    is_res = c.path.startswith("std::result::Result") or "std::result::Result<" in c.self_ty
    if c.local and "svgdx::errors::" in c.path and argi == 0 and t.get("dest"):
        # a helper of the crate's error module applied to the Result (an extension-trait `or_other()`): like map_err
        d = P(t["dest"])
        if d == (0, ()):
            return ("transformed-returned", f".{last}() returned")
        if not d[1]:
            f, det = _fate_of_local(prog, body, d[0], seen)
            return ("transformed-" + f, f".{last}() then {det}")
    if is_res and argi == 0:
        if last in FOLLOW:
            d = P(t["dest"])
            if d == (0, ()):
                return ("transformed-returned", f".{last}() returned")
            if d[1]:
                return ("passed:stored", "stored")
            f, det = _fate_of_local(prog, body, d[0], seen)
            return ("transformed-" + f, f".{last}() then {det}")
        if last in DROP:
            return (f"dropped:{last}", f".{last}() discards the error")
        if last in PANIC:
            return ("panics", f".{last}()")
    if c.decl_path in ("std::convert::Into::into", "std::convert::From::from"):
        d = P(t["dest"])
        if not d[1] and d[0] != 0:
            return _fate_of_local(prog, body, d[0], seen)
        if d == (0, ()):
            return ("returned", "converted and returned")
    if c.decl_path == "std::iter::Iterator::collect" or last in ("collect", "sum", "product"):
        return ("passed:" + last, "collected")
    return (f"passed:{c.path}", f"handed to {c.path}")


def _payload_returned(body, local, depth=5):
    """does the error payload held in `local` flow into `_0 = Result::Err(..)` ?"""
    for (b, i, node, how, _c) in R.forward_value_uses(body, local, depth):
        if i != R.TERM and "rv" in node and node["rv"]["k"] == "aggr" and node["rv"].get("adt") == "std::result::Result" and node["rv"].get("variant") == "Err":
            if P(node["lhs"]) == (0, ()):
                return True
    return False


def _err_arm_supplies_value(body, bb, discr_lhs):
    """`match r { Ok(v) => v, Err(_) => dflt }`: the blocks only the Err side runs and the blocks only the Ok side runs
    assign a common (non-unit, non-flag) local - the error is replaced by a value rather than skipped"""
    # the switch on this discriminant
    sw = None
    for x in [bb] + list(body.succ[bb]):
        t = body.term(x)
        if t["k"] == "switch":
            pl = op_place(t["op"])
            if pl is not None and pl[0] == discr_lhs[0]:
                sw = (x, t)
                break
    if sw is None:
        return False
    x, t = sw
    # Result: discriminant 0 = Ok, 1 = Err
    ok_t = err_t = None
    for v, tg in t.get("vals") or []:
        if v == 0:
            ok_t = tg
        elif v == 1:
            err_t = tg
    other = t.get("otherwise")
    if ok_t is None and err_t is not None:
        ok_t = other
    if err_t is None and ok_t is not None:
        err_t = other
    if ok_t is None or err_t is None or ok_t == err_t:
        return False
    r_ok, r_err = body.reach([ok_t]), body.reach([err_t])
    only_ok, only_err = r_ok - r_err, r_err - r_ok

    def assigned(blocks):
        out = set()
        for q in blocks:
            for st in body.stmts(q):
                if st.get("lhs") and not st["lhs"][1]:
                    out.add(st["lhs"][0])
            tt = body.term(q)
            if tt["k"] == "call" and tt.get("dest") and not tt["dest"][1]:
                out.add(tt["dest"][0])
        return out

    # locals that receive the Ok payload itself (plain moves / copies) on the Ok side
    res_local = None
    for st in body.stmts(bb):
        if st.get("lhs") and st["lhs"][0] == discr_lhs[0] and (st.get("rv") or {}).get("k") == "discr":
            res_local = P(st["rv"]["place"])
    if res_local is None:
        return False
    payload = set()
    changed = True
    while changed:
        changed = False
        for q in only_ok:
            for st in body.stmts(q):
                rv = st.get("rv") or {}
                if not st.get("lhs") or st["lhs"][1] or rv.get("k") != "use":
                    continue
                pl = op_place(rv.get("op"))
                if pl is None:
                    continue
                src_is_payload = (pl[0] == res_local[0] and len(pl[1]) > len(res_local[1]) and "as Ok" in [str(z) for z in pl[1]]) or (pl[0] in payload and not pl[1])
                if src_is_payload and st["lhs"][0] not in payload:
                    payload.add(st["lhs"][0])
                    changed = True
    common = payload & assigned(only_err)
    return bool(common)


def _selects_err_variants(body, local, depth=4):
    """is the discriminant of `(local as Err).0` read (through plain moves of the Result)?"""
    work, seen = [(local, depth)], set()
    while work:
        l, d = work.pop()
        if l in seen or d <= 0:
            continue
        seen.add(l)
        for b, i, st in body.all_stmts():
            rv = st.get("rv") or {}
            if rv.get("k") == "discr":
                pl = P(rv["place"])
                if pl[0] == l and "as Err" in [str(z) for z in pl[1]] and str(pl[1][-1]) != "as Err":
                    return True
            if rv.get("k") == "use" and st.get("lhs") and not st["lhs"][1]:
                src = op_place(rv.get("op"))
                if src is not None and src[0] == l and not src[1]:
                    work.append((st["lhs"][0], d - 1))
    return False
