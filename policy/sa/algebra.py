"""Affine abstract evaluation of whole HIR function bodies, with opaque calls as atoms and
interprocedural inlining of small local helpers.

Values
  form            dict {name|atom|1: Fraction}            (sa.linform)
  ("tup", [v..])  ("struct", {field: v})  ("obj", name)   an opaque object whose fields are variables name.f
  ("some", v) ("none",)                                   Option constructors
  ("match", {variant: v})                                 result of a match over an enum-typed scrutinee
  ("if", then, else)                                      two-armed conditional whose test is not interpreted
  None                                                    not representable

A function summary is {"ret": value, "self": value-after-assignment-to-*self or None}.  Parameters are named
$1, $2 ... (position, without self), fields of self by their bare name, payload bindings of matched variants
$v1, $v2 ...: reference tables never mention a code-internal identifier."""
import re
from fractions import Fraction

from . import hirq
from . import linform as L

ONE = L.ONE
ATOM_METHODS = {
    "abs", "max", "min", "floor", "ceil", "round", "sqrt", "powi", "powf", "hypot", "signum", "sin", "cos", "tan", "asin", "acos", "atan", "to_radians",
    "to_degrees", "atan2", "rem_euclid", "div_euclid", "clamp", "mul_add", "trunc", "fract", "ln", "exp", "log10", "log2", "is_nan",
}
COMMUTATIVE = {"max", "min", "hypot", "and", "or", "xor", "eq", "ne"}
TRANSPARENT = {"clone", "to_owned", "into", "copied", "cloned", "borrow", "as_ref", "as_deref", "as_mut", "deref", "unwrap_or_default", "as_slice", "into_iter", "iter", "as_str", "as_mut_str", "borrow_mut", "deref_mut"}


_MISSING = object()


def _scalar_ty(ty):
    return (ty or "").replace("&", "").replace("mut ", "").strip() in ("f32", "f64", "bool")


def is_form(v):
    return isinstance(v, dict)


def canon(v):
    if v is None:
        return "?"
    if is_form(v):
        return L.show(v)
    if v[0] == "tup":
        return "(" + ", ".join(canon(x) for x in v[1]) + ")"
    if v[0] == "struct":
        return "{" + ", ".join(f"{k}: {canon(x)}" for k, x in sorted(v[1].items()) if k not in ("__default__", "__base__")) + "}"
    if v[0] in ("obj", "variant"):
        return v[1]
    if v[0] == "str":
        return repr(v[1])
    if v[0] == "bool":
        return str(v[1]).lower()
    if v[0] == "fmt":
        return "`" + "".join(x if isinstance(x, str) else "{" + canon(x) + "}" for x in v[1]) + "`"
    if v[0] == "any":
        return "<any>"
    if v[0] == "err":
        return "Err"
    if v[0] == "never":
        return "!"
    if v[0] == "early":
        return "early[" + " | ".join(canon(x) for x in v[1]) + "]"
    if v[0] == "some":
        return "Some(" + canon(v[1]) + ")"
    if v[0] == "none":
        return "None"
    if v[0] == "match":
        return "match{" + ", ".join(f"{k} => {canon(x)}" for k, x in sorted(v[1].items())) + "}"
    if v[0] == "if":
        return f"if ? {{{canon(v[1])}}} else {{{canon(v[2])}}}"
    return "?"


_BOOL_ATOM = re.compile(r"^(eq|ne|lt|le|gt|ge|and|or|not)\(")


def atom(name, args):
    if name == "ite" and len(args) == 3 and is_form(args[0]) and len(args[0]) == 1 and ONE not in args[0] and list(args[0].values())[0] == 1 and _BOOL_ATOM.match(list(args[0])[0]) and args[1] == {ONE: Fraction(1)} and args[2] in ({}, {ONE: Fraction(0)}):
        return args[0]  # `if c { 1. } else { 0. }` is the number a comparison already stands for (c as i32 as f32)
    if name == "ite" and len(args) == 3 and is_form(args[1]) and is_form(args[2]):
        # sign normal form: -ite(c; a; b) and ite(c; -a; -b) are the same value; the first non-zero branch leads with +
        lead = args[1] if args[1] else args[2]
        if lead and lead[sorted(lead, key=str)[0]] < 0:
            pos = atom("ite", [args[0], L._scale(args[1], Fraction(-1)), L._scale(args[2], Fraction(-1))])
            return None if pos is None else L._scale(pos, Fraction(-1))
    strs = [canon(a) for a in args]
    if any(s == "?" for s in strs):
        return None
    if name in COMMUTATIVE:
        strs = sorted(strs)
    return {f"{name}({'; '.join(strs)})": Fraction(1)}


def _mono(k1, k2):
    """product of two monomials (ONE, a symbol/atom, or `f1*f2*...` with sorted factors)"""
    fs = []
    for k in (k1, k2):
        if k == ONE:
            continue
        fs += _factors(k)
    if not fs:
        return ONE
    return "*".join(sorted(fs))


def _factors(k):
    """split a monomial key at top-level `*` (not inside parentheses)"""
    out, depth, cur = [], 0, ""
    for ch in str(k):
        if ch == "(":
            depth += 1
        elif ch == ")":
            depth -= 1
        if ch == "*" and depth == 0:
            out.append(cur)
            cur = ""
        else:
            cur += ch
    out.append(cur)
    return out


def _fmt_norm(parts):
    """merge adjacent literals, drop empty ones, inline string-valued arguments"""
    out = []
    for x in parts:
        if not isinstance(x, str) and x is not None and not is_form(x) and x[0] == "str":
            x = x[1]
        if not isinstance(x, str) and x is not None and not is_form(x) and x[0] == "fmt":
            for y in _fmt_norm(x[1]):
                if isinstance(y, str) and out and isinstance(out[-1], str):
                    out[-1] += y
                else:
                    out.append(y)
            continue
        if isinstance(x, str):
            if not x:
                continue
            if out and isinstance(out[-1], str):
                out[-1] += x
                continue
        out.append(x)
    return out


def mul(a, b):
    """product of two forms, distributed into monomials: the domain is polynomial in its symbols and atoms"""
    out = {}
    for k1, c1 in a.items():
        for k2, c2 in b.items():
            k = _mono(k1, k2)
            out[k] = out.get(k, 0) + c1 * c2
            if out[k] == 0:
                del out[k]
    return out


def equal(a, b):
    if (b is not None and not is_form(b) and b[0] == "any") or (a is not None and not is_form(a) and a[0] == "any"):
        return True
    if a is None or b is None:
        return False
    # a struct written out field by field against an object named as a whole: the object's fields, one by one
    for x, y in ((a, b), (b, a)):
        if not is_form(x) and x[0] == "struct" and not any(str(k).startswith("__") for k in x[1]):
            nm = y[1] if (not is_form(y) and y[0] == "obj") else (list(y)[0] if is_form(y) and len(y) == 1 and ONE not in y and list(y.values())[0] == 1 else None)
            if isinstance(nm, str) and re.fullmatch(r"[$A-Za-z_][\w.$]*", nm):
                return all(equal(v, ("obj", f"{nm}.{k}")) for k, v in x[1].items())
    # an opaque object and the variable of the same name are the same thing
    if not is_form(a) and a[0] == "obj":
        a = {a[1]: Fraction(1)}
    if not is_form(b) and b[0] == "obj":
        b = {b[1]: Fraction(1)}
    if is_form(a) and is_form(b):
        return L.equal(a, b)
    if is_form(a) or is_form(b):
        return False
    if a[0] != b[0]:
        return False
    if a[0] == "tup":
        return len(a[1]) == len(b[1]) and all(equal(x, y) for x, y in zip(a[1], b[1]))
    if a[0] in ("struct", "match"):
        ka, kb = set(a[1]) - {"__default__", "__base__"}, set(b[1]) - {"__default__", "__base__"}
        return ka == kb and all(equal(a[1][k], b[1][k]) for k in ka)
    if a[0] in ("obj", "str", "bool", "variant"):
        return a[1] == b[1]
    if a[0] == "some":
        return equal(a[1], b[1])
    if a[0] == "none":
        return True
    if a[0] == "fmt":
        pa, pb = _fmt_norm(a[1]), _fmt_norm(b[1])
        return len(pa) == len(pb) and all((x == y) if isinstance(x, str) or isinstance(y, str) else equal(x, y) for x, y in zip(pa, pb))
    if a[0] == "if":
        return equal(a[1], b[1]) and equal(a[2], b[2])
    return False


class _Return(Exception):
    def __init__(self, value):
        self.value = value


class _Break(Exception):
    def __init__(self, value=None):
        self.value = value


class _Continue(Exception):
    pass


def _is_err(v):
    return v is not None and not is_form(v) and v[0] == "err"


class Evaluator:
    def __init__(self, prog, inline_prefixes=("svgdx::", "<svgdx::"), max_depth=4, opaque=(), presets=None, type_alias=None, watch=(), name_case=None, transparent=(), iflet=None, absent=(), present=None, script=None, numbered=(), unroll=0, keep_early_none=False, attr_values=None, keyed_watch=False):
        self.prog = prog
        self.keep_early_none = keep_early_none  # an undecided early `return None` is an alternative result, not a guard
        self.script = script or {}  # method -> {"tick": method, "values": [...]}: the value returned depends on how often `tick` was called
        self.numbered = set(numbered)  # opaque functions whose successive calls are distinct values (parsers consuming input)
        self.unroll = unroll  # `loop`s are executed up to this many times (0: a loop's value is unknown)
        self.ticks = {}
        self.counters = {}
        self.opaque = set(opaque)
        self.presets = presets or {}  # type -> value, for enum-typed selector locals (case specialisation)
        self.type_alias = type_alias or {}  # type -> symbolic object name for locals of that type whose value is unknown
        self.watch = set(watch)  # method / function names whose evaluated argument lists are recorded
        self.calls = []
        self.present = set(present) if present is not None else None  # if given: exactly these attributes exist
        self.absent = set(absent)  # attribute names assumed absent (get_attr gives None); all others are assumed present
        self.iflet = iflet  # "then" / "else": branch taken by every `if let` whose scrutinee the domain cannot decide
        self.attr_values = dict(attr_values or {})  # attribute name -> literal value assumed for get / pop
        self.name_case = name_case  # element name assumed for matches over `self.name.as_str()`
        self.transparent = set(transparent)  # local functions that return their (single) argument unchanged for our purposes (fstr)
        self.inline_prefixes = inline_prefixes
        self.max_depth = max_depth
        self.keyed_watch = keyed_watch
        self.incomplete = []  # places the evaluation could not follow (what it collected may be partial)
        self.unfollowed_local = set()  # functions of the crate that ended up as opaque terms because their body could not be summarised
        self.unk_deps = {}  # local left unknown -> the input symbols its defining expressions can depend on (None: anything)
        self.by_path = {}
        for bid, h in prog.hir.items():
            if isinstance(h, dict) and h.get("path") and h.get("body"):
                self.by_path.setdefault(h["path"], h)
        self.notes = []

    # -- entry points -----------------------------------------------------
    def summary(self, path, self_value=None, args=None, depth=0):
        h = self.by_path.get(path)
        if h is None:
            return None
        env = {}
        i = 0
        for p in h.get("params", []):
            name = p.get("name") if p.get("p") == "bind" else None
            if name == "self":
                env["self"] = self_value if self_value is not None else ("obj", "self")
                continue
            i += 1
            val = args[i - 1] if args is not None and i - 1 < len(args) else None
            if val is None and args is None:
                val = self._param_value(f"${i}", p)
            if name:
                env[name] = val
            elif p.get("p") == "tuple":
                self._bind(p, val if val is not None else ("obj", f"${i}"), env)
        st = {"self_after": None, "depth": depth, "early": []}
        self._stack = getattr(self, "_stack", [])
        self._stack.append(path)
        try:
            ret = self.eval(h["body"], env, st)
        except _Return as r:
            ret = r.value
        finally:
            self._stack.pop()
            if st.get("cond_bumps"):
                self.cond_depth -= st["cond_bumps"]
        # early `return None` / `return Ok(None)` exits are guards (value absent), not alternative results
        if not self.keep_early_none:
            st["early"] = [v for v in st["early"] if not (v is not None and not is_form(v) and v[0] == "none")]
        if st["early"]:
            ret = ("early", st["early"] + [ret])
        return {"ret": ret, "self": st["self_after"], "early": st["early"]}

    def _param_value(self, name, pat):
        return ("obj", name)

    # -- evaluation -------------------------------------------------------
    def _note_unknown(self, names, expr, env):
        """a local is left unknown by `expr`: record which input symbols that expression can depend on - the symbols of
        the values of the locals it mentions (closure bodies included); anything, when it mentions an object (through
        which any attribute can be read) or a local that is itself unknown without such a record"""
        deps = set()
        for q in hirq.exprs(expr, "Path"):
            l = (q.get("res") or {}).get("local")
            if l is None or l not in env:
                continue  # bound inside the expression (closure parameter, inner let)
            v = env[l]
            if v is None:
                d = self.unk_deps.get(l)
                if d is None:
                    deps = None
                    break
                deps |= d
                continue
            c = canon(v)
            if "?" in c or (not is_form(v) and v[0] in ("obj", "closure", "struct", "__queue__")):
                if not is_form(v) and v[0] == "obj" and v[1].startswith("@"):
                    deps.add(v[1])
                    continue
                deps = None
                break
            deps |= set(re.findall(r"[@$A-Za-z_][\w.$@]*", c))
        for nm in names:
            if nm in self.unk_deps and (self.unk_deps[nm] is None or deps is None):
                self.unk_deps[nm] = None
            elif nm in self.unk_deps:
                self.unk_deps[nm] = self.unk_deps[nm] | deps
            else:
                self.unk_deps[nm] = None if deps is None else set(deps)

    def _may_reach_watched(self, *paths):
        """can a call of one of the watched names happen inside this (unfollowed) function?  Decided on the MIR call
        graph; True when the function is not found there (nothing is known about it)"""
        names = {w for w in self.watch if w and w != "-"}
        if not names:
            return False  # nothing is collected: what the function returns is an opaque term either way
        cache = self.__dict__.setdefault("_mrw", {})
        key = tuple(paths)
        if key in cache:
            return cache[key]
        bodies = []
        for d in paths:
            for q in (d, re.sub(r"::<[^>]*>$", "", d)):
                bodies += self.prog.by_path.get(q, [])
        if not bodies:
            cache[key] = True
            return True
        from .prog import Callee

        res = False
        for bid in self.prog.reachable_from(bodies):
            bd = self.prog.bodies.get(bid)
            if bd is None:
                continue
            for _bb, t in bd.calls():
                if "fn" in t and Callee(t["fn"]).path.split("::")[-1] in names:
                    res = True
                    break
            if res:
                break
        cache[key] = res
        return res

    def _bind(self, pat, val, env, counter=None):
        p = pat.get("p")
        if p == "bind":
            env[pat["name"]] = val
            if pat.get("sub"):
                self._bind(pat["sub"], val, env, counter)
        elif p == "tuple":
            names = [q.get("name") for q in pat["pats"] if q.get("p") == "bind"]
            if len(names) == len(pat["pats"]) > 1 and len(set(names)) == 1 and val is not None and not is_form(val) and val[0] == "tup" and len(val[1]) == len(names):
                # `(a.x, a.y) = (p, q)` is desugared to `let (lhs, lhs) = (p, q); a.x = lhs; a.y = lhs;` - the same
                # name for different bindings, read once each and in order
                env[names[0]] = ("__queue__", list(val[1]))
                return
            for i, q in enumerate(pat["pats"]):
                sub = None
                if val is not None and not is_form(val) and val[0] == "tup" and i < len(val[1]):
                    sub = val[1][i]
                elif val is not None and not is_form(val) and val[0] == "obj":
                    sub = ("obj", f"{val[1]}.{i}")
                elif is_form(val) and len(val) == 1 and ONE not in val and list(val.values())[0] == 1:
                    sub = ("obj", f"{list(val)[0]}.{i}")  # component of an opaque tuple-valued term
                self._bind(q, sub, env, counter)
        elif p == "ref":
            self._bind(pat["sub"], val, env, counter)
        elif p == "struct" and pat.get("fields") is not None and "pats" not in pat:
            # `let Spec { class, spacing, .. } = *spec;`: each name is that field of the value
            for f in pat["fields"]:
                sub = None
                if val is not None and not is_form(val) and val[0] == "obj":
                    sub = ("obj", f.get("name") if val[1] == "self" else f"{val[1]}.{f.get('name')}")  # as a field read would name it
                elif val is not None and not is_form(val) and val[0] == "struct" and isinstance(val[1], dict):
                    sub = self._field(val, f.get("name"))
                elif is_form(val) and len(val) == 1 and ONE not in val and list(val.values())[0] == 1:
                    sub = ("obj", f"{list(val)[0]}.{f.get('name')}")
                self._bind(f["pat"], sub, env, counter)
        elif p in ("tstruct", "struct"):
            for q in pat.get("pats", []):
                self._bind(q, None, env, counter)

    def _match_pat(self, pat, val, env):
        """does `val` match `pat`?  True / False when decidable (binding the pattern's variables), None otherwise"""
        pat = _positional(pat)
        p = pat.get("p")
        if p == "wild":
            return True
        if val is not None and not is_form(val) and val[0] == "if" and p != "bind":
            # a value that is one of two alternatives (under a condition the domain cannot decide): the pattern matches
            # when it matches both, fails when it fails both
            ea, eb = dict(env), dict(env)
            ra, rb = self._match_pat(pat, val[1], ea), self._match_pat(pat, val[2], eb)
            for k_ in set(ea) | set(eb):
                if k_ not in env or ea.get(k_) is not env.get(k_) or eb.get(k_) is not env.get(k_):
                    va, vb = ea.get(k_), eb.get(k_)
                    env[k_] = va if (va is not None and vb is not None and equal(va, vb)) else None
            if ra is True and rb is True:
                return True
            if ra is False and rb is False:
                return False
            return None
        if p == "bind":
            env[pat["name"]] = val
            return True if not pat.get("sub") else self._match_pat(pat["sub"], val, env)
        if p == "ref":
            return self._match_pat(pat["sub"], val, env)
        if p == "or":
            res = [self._match_pat(q, val, env) for q in pat["pats"]]
            if any(r is True for r in res):
                return True
            return False if all(r is False for r in res) else None
        known = val is not None and not is_form(val)
        if p == "tuple":
            if known and val[0] == "tup" and len(val[1]) == len(pat["pats"]):
                res = [self._match_pat(q, v, env) for q, v in zip(pat["pats"], val[1])]
                if any(r is False for r in res):
                    return False
                return True if all(r is True for r in res) else None
            for q in pat["pats"]:
                self._match_pat(q, None, env)
            return None
        if p in ("tstruct", "path", "struct"):
            name = (pat.get("res") or {}).get("path", "").split("::")[-1]
            subs = pat.get("pats", [])
            if name == "Ok" and len(subs) == 1 and val is not None and not (known and val[0] in ("err", "none", "some")):
                return self._match_pat(subs[0], val, env)  # Ok(x) is x in this domain
            if name in ("Some", "Ok") and len(subs) == 1:
                if known and val[0] == "some":
                    return self._match_pat(subs[0], val[1], env)
                if known and val[0] in ("none", "err"):
                    return False
                if is_form(val) and len(val) == 1 and ONE not in val:
                    self._match_pat(subs[0], ("obj", list(val)[0]), env)  # payload of an opaque Option-valued term
                    return None
                self._match_pat(subs[0], None, env)
                return None
            if name == "None":
                if known and val[0] == "none":
                    return True
                if known and val[0] == "some":
                    return False
                return None
            if "Ctor(Struct" in str((pat.get("res") or {}).get("dk", "")) and p == "tstruct":
                # a tuple struct taken apart (`Size(w, h)`): irrefutable, each name is that positional field
                base = None
                if known and val[0] == "obj":
                    base = val[1]
                elif is_form(val) and len(val) == 1 and ONE not in val and list(val.values())[0] == 1:
                    base = list(val)[0]
                res_ = []
                for i, q in enumerate(subs):
                    if known and val[0] == "struct" and str(i) in val[1]:
                        res_.append(self._match_pat(q, val[1][str(i)], env))
                    elif base is not None:
                        res_.append(self._match_pat(q, ("obj", f"{base}.{i}"), env))
                    else:
                        res_.append(self._match_pat(q, None, env))
                if any(r is False for r in res_):
                    return False
                return True if all(r is True for r in res_) and (base is not None or (known and val[0] == "struct")) else None
            if known and val[0] == "variant":
                if val[1] != name:
                    return False
                i = 0
                for q in subs:
                    i += 1
                    if q.get("p") == "bind":
                        env[q["name"]] = ("obj", f"{val[1]}.{i}")
                return True
            for q in subs:
                self._match_pat(q, None, env)
            return None
        if p == "lit":
            lit = pat.get("lit")
            if known and val[0] == "str" and isinstance(lit, dict) and "str" in lit:
                return val[1] == lit["str"]
            if known and val[0] == "bool" and isinstance(lit, dict) and isinstance(lit.get("bool"), bool):
                return val[1] == lit["bool"]
            return None
        return None

    def _bind_some(self, pat, val, env):
        """bind an `if let` pattern: Some(p) / Ok(p) unwrap a known payload, tuples distribute"""
        p = pat.get("p")
        if p in ("tstruct",) and (pat.get("res") or {}).get("path", "").split("::")[-1] in ("Some", "Ok") and len(pat.get("pats", [])) == 1:
            inner = val[1] if (val is not None and not is_form(val) and val[0] == "some") else (val if (val is not None and (is_form(val) or val[0] != "none")) and False else None)
            self._bind_some(pat["pats"][0], inner, env)
        elif p == "tuple":
            for i, q in enumerate(pat["pats"]):
                sub = val[1][i] if (val is not None and not is_form(val) and val[0] == "tup" and i < len(val[1])) else None
                self._bind_some(q, sub, env)
        else:
            self._bind(pat, val, env)

    def _field(self, base, name):
        if base is None:
            return None
        if is_form(base):
            return None
        if base[0] == "struct":
            if name not in base[1] and "__base__" in base[1]:
                return self._field(base[1]["__base__"], name)
            return base[1].get(name)
        if base[0] == "tup" and name.isdigit() and int(name) < len(base[1]):
            return base[1][int(name)]
        if base[0] == "obj":
            nm = name if base[1] == "self" else f"{base[1]}.{name}"
            return ("objf", nm)
        return None

    def _as_scalar(self, v, ty):
        """an object field of numeric type is a variable"""
        if v is not None and not is_form(v) and v[0] == "objf":
            if _scalar_ty(ty):
                return {v[1]: Fraction(1)}
            return ("obj", v[1])
        return v

    def eval(self, n, env, st):
        if n is None:
            return None
        k = n.get("k")
        if k == "__value__":
            return n["v"]
        if k == "Lit":
            lit = n.get("lit", {})
            if "str" in lit:
                return ("str", lit["str"])
            if "bool" in lit:
                return ("bool", bool(lit["bool"]))
            return L.lin(n)
        if k == "Path":
            res = n.get("res") or {}
            l = res.get("local")
            if l is not None:
                ty = (n.get("ty") or "").replace("&", "").replace("mut ", "").strip()
                if ty in self.presets:
                    return self.presets[ty]
                v = env.get(l)
                if isinstance(v, tuple) and v and v[0] == "__queue__":
                    if not v[1]:
                        return None
                    env[l] = ("__queue__", v[1][1:])
                    return v[1][0]
                if v is None:
                    if _scalar_ty(ty):
                        return {l: Fraction(1)}
                    return ("obj", self.type_alias.get(ty, l))
                if not is_form(v) and v[0] == "obj" and "(" in v[1] and ty in self.type_alias:
                    return ("obj", self.type_alias[ty])  # payload of an opaque call: named by its type's alias
                if not is_form(v) and v[0] == "obj" and _scalar_ty(ty):
                    return {v[1]: Fraction(1)}
                if not is_form(v) and v[0] != "bool" and _scalar_ty(ty):
                    return {l: Fraction(1)}  # a number the domain cannot express: an opaque symbol named after the local
                return v
            path = res.get("path", "")
            if path.split("::")[-1] in ("SQRT_2", "FRAC_1_SQRT_2", "PI") and "consts" in path:
                return {path.split("::")[-1]: Fraction(1)}
            if path.split("::")[-1] == "None" and "Ctor" in str(res.get("dk", "")):
                return ("none",)
            if "Ctor" in str(res.get("dk", "")) or "Variant" in str(res.get("dk", "")):
                return ("variant", path.split("::")[-1])
            if str(res.get("dk", "")).startswith(("Const", "Static", "AssocConst")) and path in self.by_path and st.get("depth", 0) < self.max_depth:
                # a named table: its initialiser is evaluated like an expression written in place
                return self.eval(self.by_path[path]["body"], {}, dict(st, depth=st.get("depth", 0) + 1))
            return None
        if k == "Field":
            fty = (n.get("ty") or "").replace("&", "").replace("mut ", "").strip()
            if fty in self.presets:
                return self.presets[fty]
            base = self.eval(n["x"], env, st)
            if base is not None and not is_form(base) and base[0] == "struct" and n["name"] not in base[1] and "__default__" in base[1]:
                ty = (n.get("ty") or "").strip()
                if ty.startswith("std::option::Option<"):
                    return ("none",)
                if _scalar_ty(ty) and ty != "bool":
                    return {}
                if ty == "bool":
                    return ("bool", False)
                if ty.endswith("String"):
                    return ("str", "")
            if n["name"] == "name" and self.name_case is not None and base is not None and not is_form(base) and base[0] == "obj" and "String" in (n.get("ty") or ""):
                return ("str", self.name_case)
            return self._as_scalar(self._field(base, n["name"]), n.get("ty"))
        if k == "Unary":
            if n["op"] in ("Deref",):
                return self.eval(n["x"], env, st)
            if n["op"] == "Neg":
                a = self.eval(n["x"], env, st)
                return L._scale(a, Fraction(-1)) if is_form(a) else None
            if n["op"] == "Not":
                a = self.eval(n["x"], env, st)
                if a is not None and not is_form(a) and a[0] == "bool":
                    return ("bool", not a[1])
            return None
        if k == "AddrOf":
            return self.eval(n.get("x") or n.get("e"), env, st)
        if k in ("Cast", "DropTemps", "Type") and isinstance(n.get("x"), dict):
            return self.eval(n["x"], env, st)
        if k == "Binary":
            a = self.eval(n["l"], env, st)
            b = self.eval(n["r"], env, st)
            return self._binary(n["op"], a, b)
        if k == "Tup":
            return ("tup", [self.eval(x, env, st) for x in n["items"]])
        if k == "Index":
            base = self.eval(n.get("x") or n.get("base"), env, st)
            idx = n.get("i") or n.get("idx") or n.get("index")
            iv = self.eval(idx, env, st) if isinstance(idx, dict) else None
            ci = L._const(iv) if is_form(iv) else None
            if base is not None and not is_form(base) and ci is not None and ci.denominator == 1:
                if base[0] == "tup" and int(ci) < len(base[1]):
                    return base[1][int(ci)]
                if base[0] == "obj":
                    return ("obj", f"{base[1]}.{int(ci)}")
            return None
        if k == "Array":
            return ("tup", [self.eval(x, env, st) for x in n.get("items", n.get("elems", []))])
        if k == "Closure" and isinstance(n.get("body"), dict):
            return ("closure", n, dict(env))
        if k == "Struct":
            out = {}
            base = self.eval(n["base"], env, st) if isinstance(n.get("base"), dict) else None
            if base is not None and not is_form(base) and base[0] == "struct":
                out.update(base[1])
            elif isinstance(n.get("base"), dict) and n["base"].get("k") in ("Call", "MethodCall") and (hirq.callee_path(n["base"]) if n["base"].get("k") == "Call" else n["base"].get("name", "")).split("::")[-1] == "default":
                out["__default__"] = ("bool", True)
            for f in n["fields"]:
                out[f["name"]] = self.eval(f["v"], env, st)
            return ("struct", out)
        if k in ("Block", "Call") and n.get("exp"):
            f = self._format(n, env, st)
            if f is not None:
                return f
        if k == "Block":
            # lets are scoped to the block, assignments to outer locals persist
            saved = {}
            try:
                for s in n.get("stmts", []):
                    if s.get("k") == "Let" and isinstance(s.get("pat"), dict):
                        for q in hirq.walk(s["pat"]):
                            if isinstance(q, dict) and q.get("p") == "bind" and q["name"] not in saved:
                                saved[q["name"]] = env.get(q["name"], _MISSING)
                    r = self._stmt(s, env, st)
                    if r is not None:
                        return r[1]
                if n.get("expr"):
                    return self.eval(n["expr"], env, st)
                return ("tup", [])
            finally:
                for name, old in saved.items():
                    if old is _MISSING:
                        env.pop(name, None)
                    else:
                        env[name] = old
        if k == "Ret":
            raise _Return(self.eval(n.get("x") or n.get("e"), env, st) if (n.get("x") or n.get("e")) else ("tup", []))
        if k == "If":
            env_t = dict(env)
            undecided_let = False
            decided = []
            for lc in hirq.exprs(n["cond"], "LetCond") if isinstance(n.get("cond"), dict) else []:
                iv = self.eval(lc["init"], env_t, st) if isinstance(lc.get("init"), dict) else None
                probe = dict(env_t)
                m = self._match_pat(lc["pat"], iv, probe)
                decided.append(m)
                env_t.update(probe)
                if m is not True:
                    undecided_let = undecided_let or m is None
            if decided and n["cond"].get("k") == "LetCond":
                if all(m is True for m in decided):
                    r = self.eval(n["then"], env_t, st)
                    for name in list(env):
                        env[name] = env_t.get(name)
                    return r
                if any(m is False for m in decided):
                    return self.eval(n["else"], env, st) if n.get("else") else ("tup", [])
            if undecided_let and self.iflet in ("then", "else"):
                if self.iflet == "then":
                    r = self.eval(n["then"], env_t, st)
                    for name in list(env):
                        env[name] = env_t.get(name)
                    return r
                return self.eval(n["else"], env, st) if n.get("else") else ("tup", [])
            c = self.eval(n["cond"], env, st) if isinstance(n.get("cond"), dict) and n["cond"].get("k") != "LetCond" else None
            if c is not None and not is_form(c) and c[0] == "bool":
                if c[1]:
                    return self.eval(n["then"], env, st)
                return self.eval(n["else"], env, st) if n.get("else") else ("tup", [])
            env_e = dict(env)
            rt = re_ = None
            self.cond_depth = getattr(self, "cond_depth", 0) + 1  # calls recorded from here on happen only on some paths
            try:
                try:
                    t = self.eval(n["then"], env_t, st)
                except _Return as r:
                    rt, t = r, ("never",)
                try:
                    e = self.eval(n["else"], env_e, st) if n.get("else") else ("tup", [])
                except _Return as r:
                    re_, e = r, ("never",)
            finally:
                self.cond_depth -= 1
            if rt is not None and re_ is not None:
                if _is_err(rt.value):
                    raise re_
                if _is_err(re_.value):
                    raise rt
                raise _Return(rt.value if equal(rt.value, re_.value) else self._join(c, rt.value, re_.value))
            if rt is not None or re_ is not None:
                # one branch leaves the function: the code after the `if` runs in the other branch's state
                r = rt or re_
                if not _is_err(r.value):
                    st["early"].append(r.value)
                    # what follows in this function happens only when the undecided test let it: watched calls made from
                    # here on are conditional (until the function returns)
                    self.cond_depth = getattr(self, "cond_depth", 0) + 1
                    st["cond_bumps"] = st.get("cond_bumps", 0) + 1
                live = env_e if rt is not None else env_t
                for name in list(env):
                    env[name] = live.get(name)
                return e if rt is not None else t
            for name in list(env):
                vt, ve = env_t.get(name), env_e.get(name)
                if vt is ve or equal(vt, ve):
                    env[name] = vt
                else:
                    env[name] = self._join(c, vt, ve)
            if equal(t, e):
                return t
            return self._join(c, t, e)
        if k == "Match":
            return self._match(n, env, st)
        if k == "Break":
            raise _Break(self.eval(n["x"], env, st) if isinstance(n.get("x"), dict) else None)
        if k == "Continue":
            raise _Continue()
        if k == "Loop":
            bound = self.unroll
            if n.get("src") == "ForLoop":
                # `for pat in <known list>`: the desugared `match next(&mut iter)` pops the list; run it to the end
                it = self._for_iter_local(n)
                lst = env.get(it) if it else None
                if isinstance(lst, tuple) and lst and lst[0] == "tup" and len(lst[1]) <= 64:
                    bound = max(bound or 0, len(lst[1]) + 1)
                    st.setdefault("for_iters", set()).add(it)
            if bound:
                for _ in range(bound):
                    try:
                        self.eval(n["body"], env, st)
                    except _Break as b:
                        return b.value if b.value is not None else ("tup", [])
                    except _Continue:
                        continue
            # not decided within the bound: whatever the loop assigns is unknown afterwards
            def _collectable(m):
                # with keyed collection only calls whose key is a literal are collected at all - except in the function
                # under study itself, where a computed key is the table-driven form of the same writes
                return not self.keyed_watch or st.get("depth", 0) == 0 or (m.get("args") and hirq.lit_str(m["args"][0]) is not None)

            if st.get("depth", 0) <= 1 and (any(m.get("name") in self.watch and _collectable(m) for m in hirq.exprs(n["body"], "MethodCall")) or any(hirq.callee_path(c).split("::")[-1] in self.watch for c in hirq.exprs(n["body"], "Call")) or not self.watch):
                # (only a loop that can contain the calls being collected makes the collection partial; a value computed
                # by an unfollowed loop is simply unknown)
                self.incomplete.append(f"loop at line {n.get('line')} not followed to its end")
            for a in list(hirq.exprs(n["body"], "Assign")) + list(hirq.exprs(n["body"], "AssignOp")):
                l = a.get("l") or {}
                while l.get("k") in ("Field", "Index", "Unary"):
                    l = l.get("x") or {}
                name = (l.get("res") or {}).get("local") if l.get("k") == "Path" else None
                if name in env:
                    env[name] = None
            return None
        if k in ("Assign", "AssignOp"):
            # an assignment in expression position (match arm, closure body)
            self._stmt(n, env, st)
            return ("tup", [])
        if k == "MethodCall":
            return self._method(n, env, st)
        if k == "Call":
            return self._call(n, env, st)
        return None

    def _binary(self, op, a, b):
        # distribute over case splits
        for x, y, left in ((a, b, True), (b, a, False)):
            if x is not None and not is_form(x) and x[0] == "match" and (is_form(y) or (y is not None and y[0] == "match")):
                if is_form(y):
                    return ("match", {k: (self._binary(op, v, y) if left else self._binary(op, y, v)) for k, v in x[1].items()})
        if a is not None and b is not None and not is_form(a) and not is_form(b):
            if a[0] == "bool" or b[0] == "bool":
                if op in ("And", "BitAnd"):
                    if (a[0] == "bool" and not a[1]) or (b[0] == "bool" and not b[1]):
                        return ("bool", False)
                    if a[0] == "bool" and b[0] == "bool":
                        return ("bool", True)
                if op in ("Or", "BitOr"):
                    if (a[0] == "bool" and a[1]) or (b[0] == "bool" and b[1]):
                        return ("bool", True)
                    if a[0] == "bool" and b[0] == "bool":
                        return ("bool", False)
            if a[0] == b[0] and a[0] in ("str", "bool", "variant") and op in ("Eq", "Ne"):
                return ("bool", (a[1] == b[1]) == (op == "Eq"))
            if op in ("Eq", "Ne") and {a[0], b[0]} <= {"some", "none"}:
                # `self.peek() == Some(token)`: Option equality is equality of presence, then of the payloads
                if a[0] != b[0]:
                    return ("bool", op == "Ne")
                if a[0] == "none":
                    return ("bool", op == "Eq")
                return self._binary(op, a[1], b[1])
        if a is not None and not is_form(a) and a[0] == "bool" and b is None:
            if op in ("And", "BitAnd") and not a[1]:
                return ("bool", False)
            if op in ("Or", "BitOr") and a[1]:
                return ("bool", True)
        if b is not None and not is_form(b) and b[0] == "bool" and a is None:
            if op in ("And", "BitAnd") and not b[1]:
                return ("bool", False)
            if op in ("Or", "BitOr") and b[1]:
                return ("bool", True)
        if op in ("Eq", "Ne") and a is not None and b is not None and not (is_form(a) and is_form(b)):
            return atom(op.lower(), sorted([a, b], key=canon))
        if not (is_form(a) and is_form(b)):
            return None
        if op in ("And", "Or", "BitXor", "BitAnd", "BitOr"):
            return atom({"And": "and", "Or": "or", "BitXor": "xor", "BitAnd": "and", "BitOr": "or"}[op], sorted([a, b], key=canon))
        if op == "Add":
            return L._add(a, b)
        if op == "Sub":
            return L._add(a, b, -1)
        if op == "Mul":
            ca, cb = L._const(a), L._const(b)
            if cb is not None:
                return L._scale(a, cb)
            if ca is not None:
                return L._scale(b, ca)
            return mul(a, b)
        if op == "Div":
            cb = L._const(b)
            if cb is not None and cb != 0:
                return L._scale(a, 1 / cb)
            return atom("div", [a, b])
        if op == "Rem":
            return atom("rem", [a, b])
        if op in ("Lt", "Le", "Gt", "Ge", "Eq", "Ne"):
            if op == "Gt":
                return atom("lt", [b, a])
            if op == "Ge":
                return atom("le", [b, a])
            if op in ("Eq", "Ne"):
                return atom(op.lower(), sorted([a, b], key=canon))
            return atom(op.lower(), [a, b])
        return None

    def _format(self, n, env, st):
        """format!(..) expansion -> ("fmt", [literal | value ...]); None when n is not one"""
        tpl = tup = arr = None
        for m in hirq.walk(n):
            if not isinstance(m, dict):
                continue
            if m.get("k") == "Call" and hirq.callee_path(m).endswith("Arguments::<'a>::new") and m.get("args") and tpl is None:
                for a in hirq.walk(m["args"][0]):
                    if isinstance(a, dict) and a.get("k") == "Lit" and isinstance(a.get("lit"), dict) and "bytes" in a["lit"]:
                        tpl = a["lit"]["bytes"]
            if m.get("k") == "Call" and hirq.callee_path(m).split("::")[-1] in ("from_str", "new_const") and "Arguments" in hirq.callee_path(m) and m.get("args"):
                s0 = hirq.lit_str(m["args"][0]) if m["args"][0].get("k") == "Lit" else None
                if s0 is not None:
                    return ("fmt", [s0])
            if m.get("k") == "Let" and isinstance(m.get("pat"), dict) and m["pat"].get("name") == "args" and isinstance(m.get("init"), dict):
                if m["init"].get("k") == "Tup" and tup is None:
                    tup = m["init"]["items"]
                elif m["init"].get("k") == "Array" and arr is None:
                    arr = m["init"].get("items", [])
        if tpl is None:
            return None
        vals = []
        if arr is not None:
            for it in arr:
                src = None
                for f in hirq.walk(it):
                    if isinstance(f, dict) and f.get("k") == "Field" and str(f.get("name", "")).isdigit() and tup is not None:
                        idx = int(f["name"])
                        if idx < len(tup):
                            src = tup[idx]
                vals.append(self.eval(src, env, st) if src is not None else None)
        parts = []
        for kind, v in hirq.decode_template(tpl):
            if kind == "lit":
                parts.append(v)
            else:
                parts.append(vals[v] if v is not None and v < len(vals) else None)
        if all(isinstance(x, str) or (isinstance(x, tuple) and x and x[0] == "str") for x in parts):
            return ("str", "".join(x if isinstance(x, str) else x[1] for x in parts))  # nothing left to fill in
        return ("fmt", parts)

    def _join(self, c, t, e):
        if is_form(c) and is_form(t) and is_form(e):
            return atom("ite", [c, t, e])
        if t is not None and e is not None and not is_form(t) and not is_form(e) and t[0] == "struct" and e[0] == "struct":
            out = {}
            for k in set(t[1]) | set(e[1]):
                a, b = t[1].get(k), e[1].get(k)
                out[k] = a if (a is b or equal(a, b)) else (self._join(c, a, b) if (a is not None or b is not None) else None)
            return ("struct", out)
        if t is None and e is None:
            return None
        return ("if", t, e)

    def _stmt(self, s, env, st):
        k = s.get("k")
        if k == "Let":
            v = self.eval(s["init"], env, st) if isinstance(s.get("init"), dict) else None
            if isinstance(s.get("els"), dict):
                # let PAT = init else { diverge }: a definite mismatch runs the else block; otherwise the pattern holds
                m = self._match_pat(s["pat"], v, env)
                if m is False:
                    self.eval(s["els"], env, st)
                elif m is None and self.iflet == "else":
                    # the case reads undecided `if let` tests as failing: a let-else is one (its else block runs)
                    self.eval(s["els"], env, st)
                elif m is None and self.iflet == "then":
                    pass  # ... or as holding: the pattern's bindings stand
                elif m is None:
                    # not known whether the pattern holds: what the else block returns is a possible result of the function
                    # as well (`let Some(pos) = .. else { return false }; ..; true` is not simply `true`)
                    try:
                        self.eval(s["els"], dict(env), st)
                    except _Return as r_:
                        st["early"].append(r_.value)
                    except Exception:
                        pass
                return None
            if v is None and isinstance(s.get("init"), dict):
                self._note_unknown([q["name"] for q in hirq.walk(s["pat"]) if isinstance(q, dict) and q.get("p") == "bind"], s["init"], env)
            self._bind(s["pat"], v, env)
            return None
        if k == "Assign":
            l = s["l"]
            v = self.eval(s["r"], env, st)
            if v is None and l.get("k") == "Path" and (l.get("res") or {}).get("local"):
                self._note_unknown([l["res"]["local"]], s["r"], env)
            if l.get("k") == "Unary" and l.get("op") == "Deref" and (l["x"].get("res") or {}).get("local") == "self":
                st["self_after"] = v
                env["self"] = v
            elif l.get("k") == "Path" and (l.get("res") or {}).get("local"):
                env[l["res"]["local"]] = v
            elif l.get("k") == "Field":
                base = l["x"]
                bl = (base.get("res") or {}).get("local") if base.get("k") == "Path" else None
                if bl and bl in env and env[bl] is not None and not is_form(env[bl]) and env[bl][0] == "obj":
                    env[bl] = ("struct", {"__base__": env[bl]})  # field-wise update of an otherwise opaque object
                if bl and bl in env and env[bl] is not None and not is_form(env[bl]) and env[bl][0] == "struct":
                    nv = dict(env[bl][1])
                    nv[l["name"]] = v
                    env[bl] = ("struct", nv)
                    if bl == "self":
                        st["self_after"] = env[bl]
            return None
        if k == "AssignOp":
            l = s["l"]
            if l.get("k") == "Path" and (l.get("res") or {}).get("local"):
                cur = self.eval(l, env, st)
                r = self.eval(s["r"], env, st)
                op = (s.get("op") or "").replace("Assign", "")
                env[l["res"]["local"]] = self._binary(op, cur, r) if op in ("Add", "Sub", "Mul", "Div") else None
            elif l.get("k") == "Field":
                cur = self.eval(l, env, st)
                r = self.eval(s["r"], env, st)
                op = (s.get("op") or "").replace("Assign", "")
                v = self._binary(op, cur, r) if op in ("Add", "Sub", "Mul", "Div") else None
                self._stmt({"k": "Assign", "l": l, "r": {"k": "__value__", "v": v}}, env, st)
            return None
        if k == "Ret":
            raise _Return(self.eval(s.get("x") or s.get("e"), env, st) if (s.get("x") or s.get("e")) else ("tup", []))
        # expression statements: evaluated for their effect on *self
        self.eval(s, env, st)
        return None

    def _match(self, n, env, st):
        arms = {}
        if str(n.get("src", "")).startswith("TryDesugar") and n["scrut"].get("k") == "Call" and n["scrut"]["args"]:
            v = self.eval(n["scrut"]["args"][0], env, st)
            if v is not None and not is_form(v) and v[0] == "some" and str(n["scrut"]["args"][0].get("ty", "")).startswith("std::option::Option"):
                return v[1]  # `?` on an Option; on a Result the Ok payload is the value itself in this domain
            if v is not None and not is_form(v) and v[0] == "none" and str(n["scrut"]["args"][0].get("ty", "")).startswith("std::option::Option"):
                raise _Return(("none",))  # `?` on a known None leaves the function
            return v
        if self.name_case is not None and _is_name_scrut(n["scrut"]):
            chosen = None
            for arm in n["arms"]:
                lits = hirq.pat_strs(arm["pat"])
                if self.name_case in lits and not arm.get("guard"):
                    chosen = arm
                    break
                if chosen is None and hirq.WILD in lits and not arm.get("guard"):
                    chosen = arm
            if chosen is not None:
                return self.eval(chosen["body"], env, st)
        sc = self.eval(n["scrut"], env, st)
        if sc is not None and not is_form(sc) and sc[0] == "if" and len(sc) == 3 and self.iflet in ("then", "else"):
            # the scrutinee is itself the two-way outcome of an `if let` the case could not decide (a helper that returns
            # `Some(..)` when both ends are elements and `None` otherwise): the case says which way to read such tests
            alt_ = sc[1] if self.iflet == "then" else sc[2]
            if alt_ is not None:
                sc = alt_
        wrapped = any(a.get("p") in ("tstruct",) and (a.get("res") or {}).get("path", "").split("::")[-1] in ("Ok", "Err", "Some") for arm in n["arms"] for a in _alts(arm["pat"]))
        wrapped_ok = any(a.get("p") in ("tstruct",) and (a.get("res") or {}).get("path", "").split("::")[-1] == "Ok" for arm in n["arms"] for a in _alts(arm["pat"]))
        if sc is not None and ((not is_form(sc) and (sc[0] in ("tup", "some", "none", "str", "err") or (sc[0] == "variant" and wrapped))) or (wrapped_ok and (is_form(sc) or sc[0] == "obj"))):
            # structural matching: the first arm that definitely matches, provided all earlier ones definitely do not
            for arm in n["arms"]:
                probe = dict(env)
                m = self._match_pat(arm["pat"], sc, probe)
                if m is True and arm.get("guard"):
                    # `Some(v) if cond(v) => ..`: a guard the domain can decide selects or skips the arm
                    g = self.eval(arm["guard"], dict(env, **{k2: v2 for k2, v2 in probe.items()}), st)
                    if g is not None and not is_form(g) and g[0] == "bool":
                        if not g[1]:
                            continue
                        arm = dict(arm, guard=None)
                if m is True and not arm.get("guard"):
                    # pattern bindings are scoped to the arm; assignments to outer locals persist
                    bound = {k2: env.get(k2, _MISSING) for k2 in probe if k2 not in env or probe[k2] is not env[k2]}
                    env.update(probe)
                    try:
                        return self.eval(arm["body"], env, st)
                    finally:
                        for k2, old in bound.items():
                            if old is _MISSING:
                                env.pop(k2, None)
                            else:
                                env[k2] = old
                if m is not False:
                    break
        if self.name_case is not None and n["scrut"].get("k") == "Tup":
            # (param, self.name.as_str()) style scrutinee: components that are known strings select literally
            comps = []
            for it in n["scrut"]["items"]:
                if _is_name_scrut(it):
                    comps.append(("str", self.name_case))
                else:
                    comps.append(self.eval(it, env, st))
            if all(c is not None and not is_form(c) and c[0] == "str" for c in comps):
                for arm in n["arms"]:
                    for alt in _alts(arm["pat"]):
                        if arm.get("guard"):
                            continue
                        if alt.get("p") == "wild":
                            return self.eval(arm["body"], env, st)
                        if alt.get("p") == "tuple" and len(alt["pats"]) == len(comps):
                            ok = True
                            for q, c in zip(alt["pats"], comps):
                                lits = hirq.pat_strs(q)
                                if not (c[1] in lits or hirq.WILD in lits):
                                    ok = False
                            if ok:
                                return self.eval(arm["body"], env, st)
                return None
        if sc is not None and not is_form(sc) and sc[0] == "variant":
            # a known variant selects its arm (case specialisation): first arm whose pattern admits it and whose
            # guard does not evaluate to false
            for arm in n["arms"]:
                for alt in _alts(arm["pat"]):
                    p = alt.get("p")
                    hit = False
                    if p in ("path", "tstruct", "struct") and (alt.get("res") or {}).get("path", "").split("::")[-1] == sc[1]:
                        hit = True
                        i = 0
                        for q in alt.get("pats", []):
                            i += 1
                            if q.get("p") == "bind":
                                env[q["name"]] = ("obj", f"{sc[1]}.{i}")
                    elif p == "wild":
                        hit = True
                    elif p == "bind":
                        hit = True
                        env[alt["name"]] = sc
                    if not hit:
                        continue
                    if arm.get("guard"):
                        g = self.eval(arm["guard"], env, st)
                        if g is not None and not is_form(g) and g[0] == "bool":
                            if not g[1]:
                                continue
                        else:
                            return None  # guard not decidable: the case split is not exact
                    return self.eval(arm["body"], env, st)
            return None
        for arm in n["arms"]:
            for alt in _alts(arm["pat"]):
                e2 = dict(env)
                name = None
                if alt.get("p") in ("path", "tstruct", "struct"):
                    name = (alt.get("res") or {}).get("path", "").split("::")[-1] or None
                    i = 0
                    pre = f"{sc[1]}." if (sc is not None and not is_form(sc) and sc[0] == "obj" and sc[1] != "self") else "$v"
                    for q in alt.get("pats", []):
                        i += 1
                        if q.get("p") == "bind":
                            e2[q["name"]] = ("obj", f"{pre}{i}")
                elif alt.get("p") == "wild":
                    name = "_"
                elif alt.get("p") in ("lit", "range"):
                    name = _pat_name(alt)
                elif alt.get("p") == "bind":
                    name = "_"
                    e2[alt["name"]] = sc
                elif alt.get("p") == "slice" and "mid" not in alt and not alt.get("after"):
                    # `match v[..] { [a] => .., [a, b] => .. }`: a case split on the length, items named v.0, v.1 ...
                    name = str(len(alt.get("before", [])))
                    base = sc[1] if (sc is not None and not is_form(sc) and sc[0] == "obj") else next(((x.get("res") or {}).get("local") for x in hirq.walk(n["scrut"]) if isinstance(x, dict) and x.get("k") == "Path" and (x.get("res") or {}).get("local")), None)
                    if base is None:
                        return None
                    for j, q in enumerate(alt.get("before", [])):
                        while q.get("p") == "ref":
                            q = q["sub"]
                        if q.get("p") == "bind":
                            e2[q["name"]] = ("obj", f"{base}.{j}")
                        elif q.get("p") != "wild":
                            return None
                elif alt.get("p") == "tuple":
                    name = "(" + ",".join(_pat_name(q) for q in alt["pats"]) + ")"
                    i = 0
                    for j, q in enumerate(alt["pats"]):
                        for qq in hirq.walk(q):
                            if isinstance(qq, dict) and qq.get("p") == "bind":
                                i += 1
                                e2[qq["name"]] = ("obj", f"$v{i}")
                if name is None:
                    return None
                if arm.get("guard"):
                    g = self.eval(arm["guard"], e2, st)
                    if g is not None and not is_form(g) and g[0] == "bool" and not g[1]:
                        continue  # a guard that is false whatever the scrutinee holds: the arm is never taken
                    name += " if ?"
                if name not in arms:
                    try:
                        arms[name] = self.eval(arm["body"], e2, st)
                    except _Return as r:
                        if not _is_err(r.value):
                            arms[name] = r.value
        return ("match", arms)

    def _method(self, n, env, st):
        name = n["name"]
        recv = self.eval(n["recv"], env, st)
        args = [self.eval(a, env, st) for a in n["args"]]
        rty = (n.get("recv_ty") or "").lstrip("&").replace("mut ", "")
        if recv is None and rty in self.type_alias:
            recv = ("obj", self.type_alias[rty])
        if name == "insert" and "set_attr" in self.watch and "AttrMap" in rty and n["recv"].get("k") == "Field" and n["recv"].get("name") == "attrs" and len(args) == 2:
            # `self.attrs.insert(key, value)` is what set_attr() is: a helper that writes the attribute map itself
            # (`set_num_attr`) sets the attribute
            self.calls.append(dict(name="set_attr", recv=self.eval(n["recv"]["x"], env, st), args=args, line=n.get("line"), cond=getattr(self, "cond_depth", 0) > 0))
            return ("tup", [])
        if name in self.watch:
            self.calls.append(dict(name=name, recv=recv, args=args, line=n.get("line"), cond=getattr(self, "cond_depth", 0) > 0))
            if (n.get("ty") or "") == "()":
                return ("tup", [])  # the call is what was asked for; what a unit-returning callee does inside is not followed
        if any(sc.get("tick") == name for sc in self.script.values()):
            self.ticks[name] = self.ticks.get(name, 0) + 1
        if name in self.script:
            sc = self.script[name]
            i = self.ticks.get(sc.get("tick"), 0)
            vals = sc["values"]
            return vals[i] if i < len(vals) else vals[-1]
        if name in self.numbered:
            self.counters[name] = self.counters.get(name, 0) + 1
            return atom(f"{name}{self.counters[name]}", [])
        if name in ("get", "get_attr", "pop", "pop_attr") and len(args) == 1 and args[0] is not None and not is_form(args[0]) and args[0][0] == "str" and ("AttrMap" in rty or "SvgElement" in rty or "HashMap<std::string::String, std::string::String" in rty):
            # reading an attribute: the value is the symbol @name (the attribute is assumed present unless listed absent)
            if args[0][1] in self.absent or (self.present is not None and args[0][1] not in self.present):
                return ("none",)
            if args[0][1] in self.attr_values:
                return ("some", ("str", self.attr_values[args[0][1]]))
            return ("some", ("obj", "@" + args[0][1].replace("-", "_")))
        if name == "contains_key" and len(args) == 1 and args[0] is not None and not is_form(args[0]) and args[0][0] == "str" and ("AttrMap" in rty or "HashMap<std::string::String, std::string::String" in rty):
            return ("bool", not (args[0][1] in self.absent or (self.present is not None and args[0][1] not in self.present)))
        if name == "has_attr" and len(args) == 1 and args[0] is not None and not is_form(args[0]) and args[0][0] == "str" and "SvgElement" in rty:
            return ("bool", not (args[0][1] in self.absent or (self.present is not None and args[0][1] not in self.present)))
        if name == "unwrap_or_default" and recv is not None and not is_form(recv) and recv[0] in ("some", "none") and rty.startswith("std::option::Option"):
            if recv[0] == "some":
                return recv[1]
            if rty in ("std::option::Option<f32>", "std::option::Option<f64>"):
                return {}
            return None
        if name in TRANSPARENT or name in self.transparent:
            return recv
        if name in ("to_string", "to_owned", "as_str") and recv is not None and not is_form(recv) and recv[0] in ("str", "fmt"):
            return recv
        if name in ("unwrap_or", "unwrap_or_else", "unwrap", "expect", "unwrap_or_default") and recv is not None and not is_form(recv) and recv[0] == "some":
            return recv[1]
        if name == "unwrap_or" and recv is not None and not is_form(recv) and recv[0] == "none" and len(args) == 1:
            return args[0]
        if name in ("unwrap_or", "unwrap_or_else", "unwrap", "expect", "unwrap_or_default") and recv is not None and rty.startswith("std::result::Result") and not (not is_form(recv) and recv[0] in ("err", "none", "some")):
            return recv  # a Result is represented by its Ok payload
        if name == "then_some" and rty == "bool" and len(args) == 1:
            if recv is not None and not is_form(recv) and recv[0] == "bool":
                return ("some", args[0]) if recv[1] else ("none",)
            return ("if", ("some", args[0]), ("none",))  # `cond.then_some(v)` is `if cond { Some(v) } else { None }`
        if name == "rev" and recv is not None and not is_form(recv) and recv[0] == "tup" and "Iterator" not in rty and not rty.startswith("("):
            return ("tup", list(reversed(recv[1])))
        if name == "rev" and recv is not None and not is_form(recv) and recv[0] == "tup" and ("Iter" in rty or "iter" in rty):
            return ("tup", list(reversed(recv[1])))
        if name == "fold" and recv is not None and not is_form(recv) and recv[0] == "tup" and len(n["args"]) == 2 and ("Iter" in rty or "iter" in rty or "Rev<" in rty):
            # over a list whose items are known: the closure applied from the first item to the last
            cl = args[1] if isinstance(args[1], tuple) and args[1] and args[1][0] == "closure" else n["args"][1]
            acc = args[0]
            for item in recv[1]:
                acc = self._apply(cl, [acc, item], env, st)
                if acc is None:
                    return None
            return acc
        if name in ("any", "all") and recv is not None and not is_form(recv) and recv[0] == "tup" and len(n["args"]) == 1:
            # over a list whose items are known: decided when every item's answer is (or one answer settles it)
            cl = args[0] if isinstance(args[0], tuple) and args[0] and args[0][0] == "closure" else n["args"][0]
            unknown = False
            for item in recv[1]:
                r = self._apply(cl, [item], env, st)
                if r is None or is_form(r) or r[0] != "bool":
                    unknown = True
                    continue
                if r[1] == (name == "any"):
                    return ("bool", name == "any")
            if not unknown:
                return ("bool", name == "all")
        if name in ("find_map", "find") and recv is not None and not is_form(recv) and recv[0] == "tup" and len(n["args"]) == 1:
            # over a list whose items are known: the first item for which the closure yields Some / true
            cl = args[0] if isinstance(args[0], tuple) and args[0] and args[0][0] == "closure" else n["args"][0]
            for item in recv[1]:
                r = self._apply(cl, [item], env, st)
                if r is None or is_form(r):
                    return None
                if name == "find_map":
                    if r[0] == "some":
                        return r
                    if r[0] != "none":
                        return None
                else:
                    if r[0] != "bool":
                        return None
                    if r[1]:
                        return ("some", item)
            return ("none",)
        if name in ("map", "and_then") and recv is not None and not is_form(recv) and recv[0] in ("some", "none") and len(n["args"]) == 1:
            if recv[0] == "none":
                return ("none",)
            cl = n["args"][0]
            if cl.get("k") == "Closure" and cl.get("params") and isinstance(cl.get("body"), dict):
                e2 = dict(env)
                self._bind(cl["params"][0], recv[1], e2)
                r = self.eval(cl["body"], e2, st)
                if name == "and_then":
                    return r
                return ("some", r)
        if name in ("ok_or", "ok_or_else") and rty.startswith("std::option::Option") and recv is not None:
            # Option -> Result: a Result is represented by its Ok payload
            if not is_form(recv) and recv[0] == "some":
                return recv[1]
            if not is_form(recv) and recv[0] == "none":
                return ("err",)
        if name in ("map_or", "map_or_else") and len(n["args"]) == 2 and rty.startswith("std::option::Option") and recv is not None and not is_form(recv) and recv[0] in ("some", "none"):
            if recv[0] == "none":
                return args[0] if name == "map_or" else (self._apply(args[0] if isinstance(args[0], tuple) and args[0] and args[0][0] == "closure" else n["args"][0], [], env, st))
            cl = args[1] if isinstance(args[1], tuple) and args[1] and args[1][0] == "closure" else n["args"][1]
            return self._apply(cl, [recv[1]], env, st)
        if name == "zip" and len(args) == 1 and rty.startswith("std::option::Option") and recv is not None and not is_form(recv) and recv[0] in ("some", "none"):
            # Option::zip: both present, or nothing
            a0 = args[0]
            if recv[0] == "none" or (a0 is not None and not is_form(a0) and a0[0] == "none"):
                return ("none",)
            if a0 is not None and not is_form(a0) and a0[0] == "some":
                return ("some", ("tup", [recv[1], a0[1]]))
        if name in ("is_some", "is_none") and recv is not None and not is_form(recv) and recv[0] in ("some", "none"):
            return ("bool", (recv[0] == "some") == (name == "is_some"))
        if name in ("map", "and_then") and recv is not None and rty.startswith("std::result::Result") and len(n["args"]) == 1 and n["args"][0].get("k") == "Closure" and not (not is_form(recv) and recv[0] in ("err", "none")):
            # Result<T, E> is represented by its Ok payload: apply the closure to it
            cl = n["args"][0]
            if cl.get("params") and isinstance(cl.get("body"), dict):
                e2 = dict(env)
                self._bind(cl["params"][0], recv, e2)
                return self.eval(cl["body"], e2, st)
        if name == "transpose" and recv is not None and not is_form(recv) and recv[0] in ("some", "none"):
            return recv
        if name == "ok" and recv is not None and (is_form(recv) or recv[0] == "obj"):
            return ("some", recv)
        if name == "or" and recv is not None and not is_form(recv) and recv[0] == "some":
            return recv
        if name == "or" and recv is not None and not is_form(recv) and recv[0] == "none" and len(args) == 1:
            return args[0]
        if rty in ("f32", "f64") and name in ATOM_METHODS:
            if is_form(recv) and all(is_form(a) for a in args):
                return atom(name, [recv] + args)
            return None
        d = n.get("inst") or n.get("def") or ""
        if d not in self.by_path:
            # a generic method (`fn f(&self, ctx: &impl ElementMap)`): the instance names its type arguments, the
            # source-level body is filed under the definition
            for alt_ in (re.sub(r"::<[^>]*>$", "", d), n.get("def") or ""):
                if alt_ in self.by_path:
                    d = alt_
                    break
        if d.startswith(self.inline_prefixes) and st["depth"] < self.max_depth and d in self.by_path and d not in self.opaque and (d not in getattr(self, "_stack", []) or any(a is not None and not is_form(a) and a[0] == "variant" for a in args)):
            sub = self.summary(d, self_value=recv, args=args, depth=st["depth"] + 1)
            if sub is not None and sub["ret"] is not None:
                r = sub["ret"]
                # a call with a known variant argument selects that arm
                if not is_form(r) and r[0] == "match":
                    for a in args:
                        if a is not None and not is_form(a) and a[0] == "variant" and a[1] in r[1]:
                            return r[1][a[1]]
                if sub["self"] is not None and n["recv"].get("k") == "Path" and (n["recv"].get("res") or {}).get("local"):
                    env[n["recv"]["res"]["local"]] = sub["self"]
                    if n["recv"]["res"]["local"] == "self":
                        st["self_after"] = sub["self"]  # `self.grow_edges(..)` inside a `&mut self` method: the caller's receiver changes too
                return r
        if d.startswith(self.inline_prefixes) and d not in self.opaque and self.watch and name not in self.watch and name not in TRANSPARENT and name not in self.transparent and (st["depth"] >= self.max_depth or (d not in self.by_path and re.sub(r"::<[^>]*>$", "", d) not in self.by_path and n.get("def", "") not in self.by_path)) and not _plain_accessor(name) and self._may_reach_watched(d, n.get("def", "")):
            self.incomplete.append(f"call of {d} at line {n.get('line')} not followed (depth / no source-level body)")
        # a collection held in a local is changed in place by a method the domain does not model (retain, remove,
        # truncate, sort ..): from here on the local no longer holds the value it was given
        rn = n.get("recv") or {}
        while isinstance(rn, dict) and rn.get("k") in ("AddrOf", "DropTemps"):
            rn = rn.get("x") or rn.get("e") or {}
        if str(n.get("recv_ty", "")).startswith("&mut") and rn.get("k") == "Path" and (rn.get("res") or {}).get("local") and name not in self.watch and name not in ("next", "next_back", "pop", "pop_front", "pop_back", "recv", "read_line", "nth", "by_ref", "iter_mut", "as_mut", "borrow_mut", "get_mut", "entry", "as_mut_str", "as_mut_slice") and re.search(r"(HashMap|HashSet|BTreeMap|BTreeSet|Vec|VecDeque|String|AttrMap|ClassList)\b", str(n.get("recv_ty", ""))) and not d.startswith(self.inline_prefixes):
            l_ = rn["res"]["local"]
            if env.get(l_) is not None:
                old_ = env[l_]
                self.unk_deps.pop(l_, None)
                self._note_unknown([l_], {"k": "Tup", "items": [rn] + list(n.get("args", []))}, env)
                env[l_] = None
                _ = old_
        # opaque local call: an atom over its operands.  Successive calls of a stateful method on the same receiver
        # (an iterator's next(), pop ...) are different values: they are numbered
        if d.startswith(self.inline_prefixes) and d not in self.opaque and re.sub(r"::<[^>]*>$", "", d) not in self.opaque and n.get("def", "") not in self.opaque:
            self.unfollowed_local.add(name)
        if all(a is not None for a in [recv] + args):
            if name in ("next", "next_back", "pop", "pop_front", "pop_back", "recv", "read_line", "nth"):
                seq = st.setdefault("seq", {})
                k = (name, canon(recv))
                seq[k] = seq.get(k, 0) + 1
                return atom(f"{name}{seq[k]}", [recv] + args)
            return atom(name, [recv] + args)
        return None

    def _apply(self, clos, args, env, st):
        """apply a closure - a Closure node, or a ("closure", node, captured env) value - to evaluated arguments"""
        node, cenv = (clos[1], clos[2]) if isinstance(clos, tuple) and clos and clos[0] == "closure" else (clos, env)
        if not isinstance(node, dict) or node.get("k") != "Closure" or not isinstance(node.get("body"), dict):
            return None
        e2 = dict(env)
        e2.update(cenv)
        for p_, a in zip(node.get("params", []), args):
            self._bind(p_, a, e2)
        try:
            return self.eval(node["body"], e2, st)
        except _Return as r:
            return r.value

    @staticmethod
    def _for_iter_local(loop):
        """the local holding the iterator of a desugared `for` loop (loop { match Iterator::next(&mut iter) {..} })"""
        for m in hirq.exprs(loop["body"], "Match"):
            sc = m.get("scrut") or {}
            if sc.get("k") == "Call" and hirq.callee_path(sc).split("::")[-1] == "next" and len(sc.get("args", [])) == 1:
                a = sc["args"][0]
                while isinstance(a, dict) and a.get("k") in ("AddrOf", "DropTemps"):
                    a = a.get("x") or a.get("e")
                if isinstance(a, dict) and a.get("k") == "Path":
                    return (a.get("res") or {}).get("local")
            break
        return None

    def _call(self, n, env, st):
        f = n["f"]
        res = f.get("res") or {}
        path = res.get("path", "")
        last = path.split("::")[-1]
        if last == "next" and len(n["args"]) == 1 and st.get("for_iters"):
            a = n["args"][0]
            while isinstance(a, dict) and a.get("k") in ("AddrOf", "DropTemps"):
                a = a.get("x") or a.get("e")
            loc = (a.get("res") or {}).get("local") if isinstance(a, dict) and a.get("k") == "Path" else None
            if loc in st["for_iters"]:
                lst = env.get(loc)
                if isinstance(lst, tuple) and lst and lst[0] == "tup":
                    if not lst[1]:
                        return ("none",)
                    env[loc] = ("tup", list(lst[1][1:]))
                    return ("some", lst[1][0])
        args = [self.eval(a, env, st) for a in n["args"]]
        if f.get("k") == "Path" and res.get("local") is not None:
            cv = env.get(res["local"])
            if isinstance(cv, tuple) and cv and cv[0] == "closure":
                return self._apply(cv, args, env, st)
        if last in self.watch:
            self.calls.append(dict(name=last, recv=None, args=args, line=n.get("line"), cond=getattr(self, "cond_depth", 0) > 0))
        if last in self.numbered:
            self.counters[last] = self.counters.get(last, 0) + 1
            return atom(f"{last}{self.counters[last]}", [])
        if last in ("into_iter", "iter") and len(args) == 1 and isinstance(args[0], tuple) and args[0] and args[0][0] == "tup":
            return args[0]  # IntoIterator::into_iter(<known list>) in a desugared `for`
        if last in self.transparent and len(args) == 1:
            a0 = args[0]
            if a0 is not None and not is_form(a0) and a0[0] == "obj" and _scalar_ty(_ok_ty(n.get("ty"))):
                return {a0[1]: Fraction(1)}
            return a0
        if "Ctor" in str(res.get("dk", "")):
            if last == "Some" and len(args) == 1:
                return ("some", args[0])
            if last in ("Ok",) and len(args) == 1:
                return args[0]
            if last == "Err":
                return ("err",)
            return ("struct", {str(i): a for i, a in enumerate(args)})
        target = path
        if res.get("selfty") or path.startswith("Self::"):
            target = None
        cands = [p for p in self.by_path if p == path or (last and p.endswith("::" + last) and res.get("assoc_of") and p.startswith(res["assoc_of"]))]
        if not cands and last:
            # `Self::new(..)` style: the dump records the resolved def path in `path` for most calls
            cands = [p for p in self.by_path if p == path]
        if not cands and res.get("dk") == "AssocFn" and last != "default" and "{" in str(f.get("ty", "")):
            # a trait method called by path (`Shape::from(name)`): the type of the callee names the implementation
            inst = str(f["ty"]).rsplit("{", 1)[1].rstrip("}")
            if inst in self.by_path:
                cands = [inst]
        if cands and st["depth"] < self.max_depth and cands[0].startswith(self.inline_prefixes) and cands[0] not in self.opaque:
            sub = self.summary(cands[0], args=args, depth=st["depth"] + 1)
            if sub is not None:
                return sub["ret"]
        if last in ATOM_METHODS and all(is_form(a) for a in args):
            return atom(last, args)
        if cands and cands[0].startswith(self.inline_prefixes) and cands[0] not in self.opaque:
            self.unfollowed_local.add(last)
        if all(a is not None for a in args) and last:
            return atom(last, args)
        return None


def _ok_ty(ty):
    """T of Result<T, E> / Option<T>, else ty"""
    ty = ty or ""
    for pre in ("std::result::Result<", "std::option::Option<"):
        if ty.startswith(pre):
            inner = ty[len(pre):]
            depth = 0
            for i, ch in enumerate(inner):
                if ch in "<(":
                    depth += 1
                elif ch in ">)":
                    if depth == 0:
                        return inner[:i]
                    depth -= 1
                elif ch == "," and depth == 0:
                    return inner[:i]
    return ty


def _is_name_scrut(n):
    """`self.name.as_str()` / `self.name.as_ref()` / `&*self.name`"""
    while n.get("k") in ("MethodCall", "AddrOf", "Unary"):
        n = n.get("recv") if n.get("k") == "MethodCall" else n.get("x")
        if n is None:
            return False
    return n.get("k") == "Field" and n.get("name") == "name" and n["x"].get("k") == "Path" and (n["x"].get("res") or {}).get("local") is not None


def _plain_accessor(name):
    """methods of the library's own small types that cannot hide a watched call (attribute map / class list reads)"""
    return name in ("get", "get_attr", "has_attr", "contains_key", "has_class", "pop", "pop_attr", "len", "is_empty", "iter", "keys", "values", "to_vec", "insert", "insert_first", "set_attr", "remove_attrs", "add_class", "add_classes", "pop_class", "get_attrs", "get_classes")


def _positional(pat):
    """a struct pattern over positional fields (the compiler's own `Some { 0: p }` in desugared loops) as a tuple-struct pattern"""
    if pat.get("p") == "struct" and "pats" not in pat and pat.get("fields") is not None and all(str(f.get("name", "")).isdigit() for f in pat["fields"]):
        q = dict(pat)
        q["p"] = "tstruct" if pat["fields"] else "path"
        q["pats"] = [f["pat"] for f in sorted(pat["fields"], key=lambda f: int(f["name"]))]
        return q
    return pat


def _alts(pat):
    pat = _positional(pat)
    if pat.get("p") == "or":
        out = []
        for q in pat["pats"]:
            out += _alts(q)
        return out
    return [pat]


def _pat_name(q):
    if q.get("p") in ("path", "tstruct", "struct"):
        return (q.get("res") or {}).get("path", "").split("::")[-1]
    if q.get("p") == "wild":
        return "_"
    if q.get("p") == "bind":
        return "_"
    if q.get("p") == "lit":
        lit = q.get("lit")
        if isinstance(lit, dict):
            for v in lit.values():
                return str(v).lower() if isinstance(v, bool) else str(v)
        return str(lit)
    return "?"


# ---------------------------------------------------------------------------
# reference expressions
# ---------------------------------------------------------------------------
class RefParser:
    """number | name[.name]* | f(a; b) | ( e ) | unary - | + - * /   ->  the same value domain"""

    def __init__(self, text):
        self.s = text
        self.i = 0

    def ws(self):
        while self.i < len(self.s) and self.s[self.i].isspace():
            self.i += 1

    def peek(self):
        self.ws()
        return self.s[self.i] if self.i < len(self.s) else ""

    def parse(self):
        v = self.expr()
        self.ws()
        if self.i != len(self.s):
            raise ValueError(f"trailing input in reference expression {self.s!r} at {self.i}")
        return v

    def expr(self):
        v = self.term()
        while self.peek() in ("+", "-"):
            op = self.s[self.i]
            self.i += 1
            r = self.term()
            v = L._add(v, r, 1 if op == "+" else -1)
        return v

    def term(self):
        v = self.unary()
        while self.peek() in ("*", "/"):
            op = self.s[self.i]
            self.i += 1
            r = self.unary()
            if op == "*":
                ca, cb = L._const(v), L._const(r)
                if cb is not None:
                    v = L._scale(v, cb)
                elif ca is not None:
                    v = L._scale(r, ca)
                else:
                    v = mul(v, r)
            else:
                cb = L._const(r)
                v = L._scale(v, 1 / cb) if cb not in (None, 0) else atom("div", [v, r])
        return v

    def unary(self):
        if self.peek() == "-":
            self.i += 1
            return L._scale(self.unary(), Fraction(-1))
        return self.primary()

    def primary(self):
        c = self.peek()
        if c == "(":
            self.i += 1
            v = self.expr()
            if self.peek() != ")":
                raise ValueError("expected ) in " + self.s)
            self.i += 1
            return v
        j = self.i
        if c.isdigit() or c == ".":
            while j < len(self.s) and (self.s[j].isdigit() or self.s[j] == "."):
                j += 1
            tok = self.s[self.i:j]
            self.i = j
            f = Fraction(tok)
            return {ONE: f} if f != 0 else {}
        while j < len(self.s) and (self.s[j].isalnum() or self.s[j] in "_.$@"):
            j += 1
        name = self.s[self.i:j]
        if not name:
            raise ValueError(f"unexpected {c!r} in reference expression {self.s!r}")
        self.i = j
        if self.peek() == "(":
            self.i += 1
            args = []
            if self.peek() != ")":
                while True:
                    args.append(self.expr())
                    if self.peek() in (";", ","):
                        self.i += 1
                        continue
                    break
            if self.peek() != ")":
                raise ValueError("expected ) in " + self.s)
            self.i += 1
            if self.i < len(self.s) and self.s[self.i] == "." and self.i + 1 < len(self.s) and self.s[self.i + 1].isdigit():
                j = self.i + 1
                while j < len(self.s) and self.s[j].isdigit():
                    j += 1
                comp = self.s[self.i + 1:j]
                self.i = j
                at = atom(name, args)
                return {f"{list(at)[0]}.{comp}": Fraction(1)}
            if name == "mul" and len(args) == 2 and all(is_form(a) for a in args):
                ca, cb = L._const(args[0]), L._const(args[1])
                if cb is not None:
                    return L._scale(args[0], cb)
                if ca is not None:
                    return L._scale(args[1], ca)
                return mul(args[0], args[1])
            return atom(name, args)
        return {name: Fraction(1)}


def ref(x):
    """reference value from JSON: string -> expression, list -> tuple, dict -> struct / match"""
    if isinstance(x, str):
        if x == "None":
            return ("none",)
        if x == "?":
            return ("any",)
        if x in ("true", "false"):
            return ("bool", x == "true")
        if len(x) >= 2 and x[0] == "'" and x[-1] == "'":
            return ("str", x[1:-1])
        return RefParser(x).parse()
    if isinstance(x, list):
        return ("tup", [ref(y) for y in x])
    if isinstance(x, dict):
        if "$some" in x:
            return ("some", ref(x["$some"]))
        if "$fmt" in x:
            return ("fmt", [y[4:] if isinstance(y, str) and y.startswith("lit:") else ref(y) for y in x["$fmt"]])
        if "$if" in x:
            return ("if", ref(x["$if"][0]), ref(x["$if"][1]))
        if "$match" in x:
            return ("match", {k: ref(v) for k, v in x["$match"].items()})
        return ("struct", {k: ref(v) for k, v in x.items()})
    raise ValueError(x)
