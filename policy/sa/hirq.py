"""Queries over the typed HIR dump (A14 literal vocabularies, A15 dispatch summaries)."""


def children(node):
    if isinstance(node, dict):
        for k, v in node.items():
            if isinstance(v, (dict, list)):
                yield from children_of_value(v)
    elif isinstance(node, list):
        for x in node:
            yield x


def children_of_value(v):
    if isinstance(v, dict):
        yield v
    elif isinstance(v, list):
        for x in v:
            if isinstance(x, (dict, list)):
                yield from children_of_value(x)


def walk(node):
    """pre-order over all dict nodes"""
    stack = [node]
    while stack:
        n = stack.pop()
        if isinstance(n, dict):
            yield n
            for k, v in n.items():
                if isinstance(v, (dict, list)):
                    stack.append(v)
        elif isinstance(n, list):
            for x in reversed(n):
                stack.append(x)


def walk_ordered(node):
    """pre-order over all dict nodes, children in the order they were dumped (source order: a `let` before the
    statements after it, a condition before its branches)"""
    if isinstance(node, dict):
        yield node
        for v in node.values():
            if isinstance(v, (dict, list)):
                yield from walk_ordered(v)
    elif isinstance(node, list):
        for x in node:
            yield from walk_ordered(x)


def exprs(node, kind=None):
    for n in walk(node):
        if "k" in n and (kind is None or n["k"] == kind):
            yield n


def lit_str(n):
    """string value of a Lit expr (through & and method chains like .to_string()/.as_str()/.to_owned()/.into())"""
    while isinstance(n, dict):
        k = n.get("k")
        if k == "Lit":
            return n["lit"].get("str") if isinstance(n.get("lit"), dict) else None
        if k == "AddrOf":
            n = n["x"]
            continue
        if k == "MethodCall" and n["name"] in ("to_string", "to_owned", "into", "as_str", "clone", "as_ref", "as_bytes") and not n["args"]:
            n = n["recv"]
            continue
        if k == "Call" and len(n.get("args", [])) == 1:
            f = n["f"]
            p = (f.get("res") or {}).get("path", "") if f.get("k") == "Path" else ""
            if p.endswith("::from") or p.endswith("::into") or p.endswith("::new"):
                n = n["args"][0]
                continue
            return None
        return None
    return None


WILD = "\0wild"


def pat_strs(pat):
    """all string literals a pattern can match (or-patterns flattened); '_' for wildcard/binding"""
    p = pat.get("p")
    if p == "lit":
        s = pat["lit"].get("str") if isinstance(pat.get("lit"), dict) else None
        return [s] if s is not None else []
    if p == "or":
        out = []
        for x in pat["pats"]:
            out += pat_strs(x)
        return out
    if p in ("wild", "bind"):
        return [WILD]
    if p == "ref":
        return pat_strs(pat["sub"])
    return []


def pat_paths(pat):
    """variant / const paths named by a pattern (or-patterns flattened)"""
    p = pat.get("p")
    if p in ("path", "tstruct", "struct"):
        return [pat["res"].get("path", "?")]
    if p == "or":
        out = []
        for x in pat["pats"]:
            out += pat_paths(x)
        return out
    if p == "ref":
        return pat_paths(pat["sub"])
    if p in ("wild", "bind"):
        return ["_"]
    return []


def field_chain(n):
    """a.b.c expression -> ['a','b','c'] (base local name first) or None"""
    chain = []
    while isinstance(n, dict):
        k = n.get("k")
        if k == "Field":
            chain.append(n["name"])
            n = n["x"]
        elif k == "Path":
            res = n.get("res", {})
            if "local" in res:
                chain.append(res["local"])
                return list(reversed(chain))
            return None
        elif k in ("AddrOf", "Unary"):
            n = n["x"]
        elif k == "MethodCall" and n["name"] in ("clone", "as_ref", "as_mut", "to_owned", "to_string", "as_str", "into") and not n["args"]:
            n = n["recv"]
        elif k == "Cast":
            n = n["x"]
        else:
            return None
    return None


def assigned_fields(node, base_local=None):
    """fields written in `node`:  x.f = ..,  x.f op= ..,  x.f.clone_from(..), x.f.push.. -> list of field chains"""
    out = []
    for n in exprs(node):
        if n["k"] in ("Assign", "AssignOp"):
            fc = field_chain(n["l"])
            if fc and len(fc) >= 2 and (base_local is None or fc[0] == base_local):
                out.append(fc)
        elif n["k"] == "MethodCall" and n["name"] in ("clone_from",):
            fc = field_chain(n["recv"])
            if fc and len(fc) >= 2 and (base_local is None or fc[0] == base_local):
                out.append(fc)
    return out


def str_matches(owner):
    """all `match` expressions whose arms carry string-literal patterns: [(match_node, [(lits, arm)])]"""
    out = []
    for m in exprs(owner.get("body", owner), "Match"):
        if m.get("src") not in ("Normal", None):
            continue
        arms = []
        anylit = False
        for a in m["arms"]:
            ls = pat_strs(a["pat"])
            if any(x != WILD for x in ls):
                anylit = True
            arms.append((ls, a))
        if anylit:
            out.append((m, arms))
    return out


def match_str_arms_assign_fields(owner):
    """{literal: [last field name assigned in that arm]} over every string match in the body"""
    table = {}
    for m, arms in str_matches(owner):
        for ls, a in arms:
            fs = sorted({fc[-1] for fc in assigned_fields(a["body"])})
            for l in ls:
                if l != WILD:
                    table.setdefault(l, [])
                    for f in fs:
                        if f not in table[l]:
                            table[l].append(f)
    return table


def struct_exprs(owner, adt_path):
    for n in exprs(owner.get("body", owner), "Struct"):
        res = n.get("res", {})
        if res.get("path") == adt_path or n.get("ty") == adt_path:
            yield n


def struct_field_inits(owner, adt_path):
    """{field: name of the source field (last element of an a.b.c chain) or None}"""
    out = {}
    for s in struct_exprs(owner, adt_path):
        for f in s["fields"]:
            fc = field_chain(f["v"])
            out[f["name"]] = fc[-1] if fc else None
    return out


def method_calls(node, name=None):
    for n in exprs(node, "MethodCall"):
        if name is None or n["name"] == name or (isinstance(name, (set, tuple, list)) and n["name"] in name):
            yield n


def callee_path(n):
    """resolved path of a Call / MethodCall node"""
    if n["k"] == "MethodCall":
        return n.get("def", "")
    if n["k"] == "Call":
        f = n["f"]
        if f.get("k") == "Path":
            return (f.get("res") or {}).get("path", "")
    return ""


# ---------------------------------------------------------------------------
# format!/write! templates (new fmt::Arguments byte-template lowering)
# ---------------------------------------------------------------------------

def decode_template(bs):
    """byte template -> list of ('lit', str) | ('arg', index or None)"""
    out = []
    i = 0
    nxt = 0
    n = len(bs)
    while i < n:
        b = bs[i]
        i += 1
        if b == 0:
            break
        if b < 0x80:
            out.append(("lit", bytes(bs[i : i + b]).decode("utf-8", "replace")))
            i += b
        elif b == 0x80:
            ln = bs[i] | (bs[i + 1] << 8)
            i += 2
            out.append(("lit", bytes(bs[i : i + ln]).decode("utf-8", "replace")))
            i += ln
        elif b & 0xC0 == 0xC0:
            if b & 0x01:
                i += 4
            if b & 0x02:
                i += 2
            if b & 0x04:
                i += 2
            idx = None
            if b & 0x08:
                idx = bs[i] | (bs[i + 1] << 8)
                i += 2
            if idx is None:
                idx = nxt
            nxt = idx + 1
            out.append(("arg", idx))
        else:
            break
    return out


def _expr_name(n):
    """short rendering of a format argument expression"""
    fc = field_chain(n)
    if fc:
        return ".".join(fc)
    while isinstance(n, dict) and n.get("k") in ("AddrOf", "Unary"):
        n = n["x"]
    if isinstance(n, dict) and n.get("k") == "Call":
        f = callee_path(n).split("::")[-1]
        inner = ",".join(_expr_name(a) for a in n.get("args", []))
        return f"{f}({inner})"
    if isinstance(n, dict) and n.get("k") == "MethodCall":
        return f"{_expr_name(n['recv'])}.{n['name']}()"
    if isinstance(n, dict) and n.get("k") == "Lit":
        return repr(n["lit"])
    return "?"


def render_string_expr(n):
    """Render a string-valued expression: literal, format!(..), &x, x.as_str(), local -> text with {name}
    placeholders; None when it is not recognisable."""
    while isinstance(n, dict) and n.get("k") in ("AddrOf",):
        n = n["x"]
    if not isinstance(n, dict):
        return None
    if n.get("k") == "Lit":
        return n["lit"].get("str") if isinstance(n.get("lit"), dict) else None
    if n.get("k") == "MethodCall" and n["name"] in ("as_str", "to_string", "to_owned", "clone", "into", "as_ref") and not n["args"]:
        return render_string_expr(n["recv"])
    if n.get("k") == "Path":
        r = n.get("res") or {}
        if "local" in r:
            return "{" + r["local"] + "}"
        return None
    if n.get("k") in ("Call", "Block"):
        # format! expansion: find Arguments::new(template, &args)
        tpl = None
        tup = None
        arr = None
        for m in walk(n):
            if m.get("k") == "Call" and callee_path(m).endswith("Arguments::<'a>::new") and m.get("args"):
                for a in walk(m["args"][0]):
                    if a.get("k") == "Lit" and isinstance(a.get("lit"), dict) and "bytes" in a["lit"]:
                        tpl = a["lit"]["bytes"]
            if m.get("k") == "Call" and callee_path(m).split("::")[-1] in ("from_str", "new_const") and "Arguments" in callee_path(m) and m.get("args"):
                s = render_string_expr(m["args"][0])
                if s is not None:
                    return s
            if m.get("k") == "Let" and m.get("pat", {}).get("name") == "args" and isinstance(m.get("init"), dict):
                if m["init"].get("k") == "Tup":
                    tup = m["init"]["items"]
                elif m["init"].get("k") == "Array":
                    arr = m["init"]["items"]
        if tpl is None:
            return None
        parts = decode_template(tpl)
        names = []
        if arr is not None:
            for it in arr:
                # Argument::new_display(args.N)
                src = None
                for f in walk(it):
                    if f.get("k") == "Field" and f["name"].isdigit() and tup is not None:
                        idx = int(f["name"])
                        if idx < len(tup):
                            src = _expr_name(tup[idx])
                names.append(src or "?")
        out = ""
        for kind, v in parts:
            if kind == "lit":
                out += v
            else:
                out += "{" + (names[v] if v is not None and v < len(names) else "?") + "}"
        return out
    return None
