"""Variant-state path feasibility (D9).

A forward analysis over the (spliced) MIR of one function that follows what each path knows about *discriminants*:
which variant an Option / Result / ControlFlow local holds (from the aggregate that built it, through moves and `?`),
which variant an enum behind a shared reference has (from the `match` edges taken so far), which value a boolean
local was last given.  States are kept apart per path (a small disjunction per block, merged exactly where two
states differ in one fact only, widened to their pointwise join beyond a cap), so correlations such as
"`fun` is one of the list functions <=> the helper returned Some" survive the join after a `match`.

What it decides: a block no state reaches is *infeasible* - the `_ => unreachable!()` arm of a dispatcher whose
callers have matched the same variants already, the `Continue` edge of `?` on a path that built `Err(..)`.  With
`avoid` it answers "does every feasible path to b pass through a" (feasible domination).

Soundness: a fact is only kept for places nobody can write behind the analysis' back - locals that are never
mutably borrowed (nor raw-pointer'd), and `*r` for `r: &T` (no `Cell` in T) with one definition.  Anything assigned
from an operation that is not understood drops the facts of its target.  Beyond MAX_STEPS the analysis gives up and
reports every CFG-reachable block as feasible (no infeasibility claim is made).
"""
from .prog import Callee, op_place

MAX_STATES = 24
MAX_STEPS = 40000
_STD3 = ("std::option::Option", "std::result::Result", "std::ops::ControlFlow", "core::option::Option", "core::result::Result", "core::ops::ControlFlow")


def _meet(f, g):
    """both hold; None = infeasible"""
    if f is None:
        return g
    kf, sf = f
    kg, sg = g
    if kf == "in" and kg == "in":
        r = sf & sg
        return ("in", r) if r else None
    if kf == "in":
        r = sf - sg
        return ("in", r) if r else None
    if kg == "in":
        r = sg - sf
        return ("in", r) if r else None
    return ("out", sf | sg)


def _join(f, g):
    """either holds; "top" = no information"""
    if f is None or g is None:
        return "top"
    kf, sf = f
    kg, sg = g
    if kf == "in" and kg == "in":
        return ("in", sf | sg)
    if kf == "out" and kg == "out":
        r = sf & sg
        return ("out", r) if r else "top"
    if kf == "in":
        sf, sg = sg, sf  # sf: the `out` set, sg: the `in` set
    r = sf - sg
    return ("out", r) if r else "top"


def _implies(f, g):
    """f is at least as strong as g"""
    if g is None:
        return True
    if f is None:
        return False
    kf, sf = f
    kg, sg = g
    if kf == "in" and kg == "in":
        return sf <= sg
    if kf == "in" and kg == "out":
        return not (sf & sg)
    if kf == "out" and kg == "out":
        return sg <= sf
    return False


class VState:
    def __init__(self, body, prog=None):
        self.body = body
        self.prog = prog
        self._univ = {}
        self.unsafe = set()
        ndefs = {}
        for b, i, s in body.all_stmts(only_reachable=False):
            rv = s.get("rv") or {}
            if (rv.get("k") == "ref" and rv.get("mut")) or rv.get("k") == "rawptr":
                self.unsafe.add(rv["place"][0])
            if "lhs" in s and not s["lhs"][1]:
                ndefs[s["lhs"][0]] = ndefs.get(s["lhs"][0], 0) + 1
        for b, t in body.calls():
            d = t.get("dest")
            if d and not d[1]:
                ndefs[d[0]] = ndefs.get(d[0], 0) + 1
        self.ndefs = ndefs
        self._single = {}
        self._result = None

    def universe(self, ty):
        """all discriminant values of the enum type `ty` (None when not known): bool, the std two-variant enums, and
        enums of the crate whose variants all have their implicit discriminant 0, 1, 2, .."""
        ty = str(ty or "")
        base = ty.split("<", 1)[0].lstrip("&")
        if base not in self._univ:
            u = None
            if base == "bool" or base in _STD3:
                u = frozenset([0, 1])
            elif self.prog is not None:
                it = self.prog.item(base, "adt")
                if it is not None and it.get("adt_kind") == "Enum":
                    vs = it.get("variants", [])
                    if vs and all(v.get("discr") == f"Relative({i})" for i, v in enumerate(vs)):
                        u = frozenset(range(len(vs)))
            self._univ[base] = u
        return self._univ[base]

    def _norm(self, f, ty):
        """an `out` fact over a type whose variants are all known becomes the `in` fact it amounts to"""
        if f is None or f[0] == "in":
            return f
        u = self.universe(ty)
        if u is None:
            return f
        r = u - f[1]
        return ("in", r) if r else "empty"

    # --- places ------------------------------------------------------------------------------------------------
    def _sdef(self, l):
        if l not in self._single:
            self._single[l] = self.body.single_def(l) if self.ndefs.get(l, 0) == 1 else None
        return self._single[l]

    def canon(self, pl):
        """(local, proj tuple) with `*copy-of-reference` / `*&place` folded back to the place itself; None if the place
        is one no fact may be kept for"""
        if pl is None:
            return None
        l, proj = pl[0], tuple(pl[1])
        for _ in range(10):
            if not proj or proj[0] != "*":
                break
            d = self._sdef(l)
            if d is None or d[1] == "term":
                break
            rv = d[2]
            if rv.get("k") == "use":
                src = op_place(rv.get("op"))
                if src is None:
                    break
                l, proj = src[0], tuple(src[1]) + proj
                continue
            if rv.get("k") == "ref" and not rv.get("mut"):
                l, proj = rv["place"][0], tuple(rv["place"][1]) + proj[1:]
                continue
            break
        if any(isinstance(p, str) and p.startswith("[") for p in proj):
            return None
        if l in self.unsafe:
            return None
        if proj and proj[0] == "*":
            ty = self.body.local_ty(l) or ""
            if not ty.startswith("&") or ty.startswith("&mut") or "Cell" in ty or self.ndefs.get(l, 0) > 1:
                return None
        elif "*" in proj:
            return None
        return (l, proj)

    # --- transfer ----------------------------------------------------------------------------------------------
    @staticmethod
    def _kill(st, l):
        """drop what is known of local l, of everything inside it and of what it points to"""
        for k in [k for k in st if k[0] == l]:
            del st[k]

    def _copy_under(self, st, src, dst):
        """facts of src and of the places inside it, re-rooted at dst"""
        n = len(src[1])
        add = {}
        for (l, p), f in st.items():
            if l == src[0] and p[:n] == src[1]:
                add[(dst[0], dst[1] + p[n:])] = f
        return add

    def _stmt(self, st, s):
        if "lhs" not in s:
            return
        lhs = (s["lhs"][0], tuple(s["lhs"][1]))
        rv = s.get("rv") or {}
        k = rv.get("k")
        add = {}
        if k == "use":
            op = rv.get("op") or {}
            src = self.canon(op_place(op))
            if src is not None:
                add = self._copy_under(st, src, lhs)
            elif isinstance(op.get("k"), dict) and "bool" in op["k"]:
                add = {lhs: ("in", frozenset([1 if op["k"]["bool"] else 0]))}
        elif k == "aggr":
            if rv.get("ak") == "adt" and str(rv.get("adt", "")) in _STD3 and rv.get("vidx") is not None:
                add[lhs] = ("in", frozenset([rv["vidx"]]))
                fn = rv.get("fnames") or []
                for i, o in enumerate(rv.get("ops", [])):
                    src = self.canon(op_place(o))
                    if src is not None and i < len(fn) and rv.get("variant"):
                        add.update(self._copy_under(st, src, (lhs[0], lhs[1] + (f"as {rv['variant']}", "." + str(fn[i])))))
            elif rv.get("ak") == "tuple":
                for i, o in enumerate(rv.get("ops", [])):
                    src = self.canon(op_place(o))
                    if src is not None:
                        add.update(self._copy_under(st, src, (lhs[0], lhs[1] + (f".{i}",))))
        if lhs[1]:
            # a write into a part of a local: forget the part (and the local's own discriminant stays)
            for kk in [kk for kk in st if kk[0] == lhs[0] and kk[1][: len(lhs[1])] == lhs[1]]:
                del st[kk]
        else:
            self._kill(st, lhs[0])
        cl = self.canon([lhs[0], list(lhs[1])])
        if cl is not None and (not lhs[1] or cl == lhs):
            for kk, f in add.items():
                if self.canon([kk[0], list(kk[1])]) is not None:
                    st[kk] = f

    def _switch_subject(self, b, t):
        """the place whose discriminant / value the switch of block b branches on"""
        pl = op_place(t.get("op"))
        if pl is None or pl[1]:
            return None
        tl = pl[0]
        stmts = self.body.stmts(b)
        for i in range(len(stmts) - 1, -1, -1):
            s = stmts[i]
            if "lhs" in s and s["lhs"][0] == tl and not s["lhs"][1]:
                rv = s.get("rv") or {}
                subj = None
                ty = None
                if rv.get("k") == "discr":
                    subj = self.canon(rv["place"])
                    ty = rv.get("ty")
                elif rv.get("k") == "use":
                    subj = self.canon(op_place(rv.get("op")))
                    ty = self.body.local_ty(tl)
                if subj is None:
                    return None
                # nothing after it in the block writes the subject
                for s2 in stmts[i + 1:]:
                    if "lhs" in s2 and s2["lhs"][0] == subj[0]:
                        return None
                return subj, ty
        # defined in an earlier block: a plain local switched on directly (a flag)
        c = self.canon([tl, []])
        if c is not None and (self.body.local_ty(tl) or "") == "bool":
            return c, "bool"
        d = self._sdef(tl)
        if d is not None and d[1] != "term" and d[2].get("k") == "discr":
            subj = self.canon(d[2]["place"])
            if subj is not None and subj[1] and subj[1][0] == "*":
                return subj, d[2].get("ty")  # the discriminant of an enum behind a shared reference does not change
        return None

    def _edges(self, b, st):
        """[(successor, state)] for one state leaving block b"""
        body = self.body
        t = body.term(b)
        k = t["k"]
        if k == "switch":
            sj = self._switch_subject(b, t)
            vals = [(v, tgt) for v, tgt in t["vals"]]
            out = []
            if sj is None:
                return [(x, st) for x in body.succ[b]]
            subj, ty = sj
            cur = st.get(subj)
            by_t = {}
            for v, tgt in vals:
                by_t.setdefault(tgt, set()).add(v)
            for tgt, vs in by_t.items():
                f = _meet(cur, ("in", frozenset(vs)))
                if f is not None:
                    s2 = dict(st)
                    s2[subj] = f
                    out.append((tgt, s2))
            f = _meet(cur, ("out", frozenset(v for v, _ in vals)))
            f = self._norm(f, ty)
            if f is not None and f != "empty" and t.get("otherwise") is not None:
                s2 = dict(st)
                s2[subj] = f
                out.append((t["otherwise"], s2))
            return out
        if k == "call":
            st = dict(st)
            d = t.get("dest")
            add = {}
            if "fn" in t and d and not d[1] and t.get("args"):
                c = Callee(t["fn"])
                if c.decl_path == "std::ops::Try::branch":
                    a = self.canon(op_place(t["args"][0]))
                    ty = c.inst
                    if a is not None:
                        f = st.get(a)
                        is_res = ty.startswith("<std::result::Result<") or ty.startswith("<core::result::Result<")
                        is_opt = ty.startswith("<std::option::Option<") or ty.startswith("<core::option::Option<")
                        if f is not None and f[0] == "in" and (is_res or is_opt):
                            m = {0: 0, 1: 1} if is_res else {1: 0, 0: 1}
                            add[(d[0], ())] = ("in", frozenset(m[v] for v in f[1] if v in m))
                        okv = "as Ok" if is_res else "as Some"
                        if is_res or is_opt:
                            add.update(self._copy_under(st, (a[0], a[1] + (okv, ".0")), (d[0], ("as Continue", ".0"))))
                elif c.decl_path == "std::ops::FromResidual::from_residual":
                    # std: Result's residual is an Err, Option's is None - what comes back is that variant again
                    ty = c.inst
                    if ty.startswith("<std::result::Result<") or ty.startswith("<core::result::Result<"):
                        add[(d[0], ())] = ("in", frozenset([1]))
                    elif ty.startswith("<std::option::Option<") or ty.startswith("<core::option::Option<"):
                        add[(d[0], ())] = ("in", frozenset([0]))
            if d:
                if d[1]:
                    for kk in [kk for kk in st if kk[0] == d[0]]:
                        del st[kk]
                else:
                    self._kill(st, d[0])
                    if self.canon([d[0], []]) is not None:
                        st.update(add)
            outs = []
            if t.get("t") is not None:
                outs.append((t["t"], st))
            for x in body.succ[b]:
                if x != t.get("t"):
                    outs.append((x, st))  # unwind
            return outs
        return [(x, st) for x in body.succ[b]]

    # --- fixpoint ----------------------------------------------------------------------------------------------
    @staticmethod
    def _freeze(st):
        return frozenset(st.items())

    def _add(self, lst, st):
        """add state st to the list of a block; True if the list changed"""
        for e in lst:
            if all(_implies(st.get(k), f) for k, f in e.items()):
                return False  # an existing state covers it
        lst[:] = [e for e in lst if not all(_implies(e.get(k), f) for k, f in st.items())]
        for i, e in enumerate(lst):
            if set(e) == set(st):
                diff = [k for k in e if e[k] != st[k]]
                if len(diff) == 1:
                    j = _join(e[diff[0]], st[diff[0]])
                    m = dict(e)
                    if j == "top":
                        del m[diff[0]]
                    else:
                        m[diff[0]] = j
                    del lst[i]
                    self._add(lst, m)
                    return True
        lst.append(st)
        if len(lst) > MAX_STATES:
            keys = set(lst[0])
            for e in lst[1:]:
                keys &= set(e)
            m = {}
            for k in keys:
                j = lst[0][k]
                for e in lst[1:]:
                    j = _join(j, e[k]) if j != "top" else "top"
                if j != "top":
                    m[k] = j
            lst[:] = [m]
        return True

    def feasible(self, avoid=(), start=None):
        """blocks some state reaches from the entry (or from block `start` knowing nothing), never entering `avoid`"""
        body = self.body
        avoid = set(avoid)
        s0 = 0 if start is None else start
        states = {s0: [{}]}
        work = [s0]
        steps = 0
        while work:
            b = work.pop()
            steps += 1
            if steps > MAX_STEPS:
                return set(body.reach([s0], avoid=avoid)) | {s0} if hasattr(body, "reach") else set(body.reachable)
            for st0 in list(states.get(b, [])):
                st = dict(st0)
                for s in body.stmts(b):
                    self._stmt(st, s)
                for (x, s2) in self._edges(b, st):
                    if x in avoid:
                        continue
                    lst = states.setdefault(x, [])
                    if self._add(lst, s2):
                        if x not in work:
                            work.append(x)
        return set(states)

    def infeasible_blocks(self):
        if self._result is None:
            self._result = set(self.body.reachable) - self.feasible()
        return self._result

    def passes_through(self, gate, target, start=None):
        """every feasible path (from the entry, or from `start`) to `target` enters block `gate` first"""
        if gate == target:
            return True
        return target not in self.feasible(avoid={gate}, start=start)


_CACHE = {}


def of(body, prog=None):
    k = (id(body), id(prog))
    if k not in _CACHE:
        _CACHE[k] = (body, prog, VState(body, prog))
    return _CACHE[k][2]
