"""Obligation bookkeeping, known-findings protocol, evidence writer."""
import json
import os
import re
import time

VERIF = os.path.dirname(os.path.dirname(os.path.dirname(os.path.abspath(__file__))))


def norm_key(key):
    """closure indices are positional (a reordering refactor renumbers them): keys name the enclosing function only"""
    return re.sub(r"\{closure#\d+\}", "{closure}", key)


class Check:
    """Collects the obligations of one property check.

    Every obligation has a *key* (rule/instance/def-path/role - never a line
    number), a status and a human-readable location + detail.
    """

    def __init__(self, pid, tier):
        self.pid = pid
        self.tier = tier
        self.obs = []
        self.instances = {}  # rule -> {"count":n,"floor":m}
        self.notes = []
        self.analysed_functions = set()
        self.t0 = time.time()
        self.config = "default"  # cargo feature configuration being analysed

    # -- obligations ----------------------------------------------------
    def ok(self, rule, key, where, detail, by="rule"):
        self.obs.append(dict(rule=rule, key=norm_key(f"{rule}/{key}"), status="discharged", by=by, where=where, detail=detail))

    def bad(self, rule, key, where, detail, path=None):
        o = dict(rule=rule, key=norm_key(f"{rule}/{key}"), status="violated", by="rule", where=where, detail=detail)
        if path:
            o["path"] = path
        self.obs.append(o)

    def ob(self, cond, rule, key, where, detail_ok, detail_bad=None, by="rule", path=None):
        if cond:
            self.ok(rule, key, where, detail_ok, by=by)
        else:
            self.bad(rule, key, where, detail_bad or ("NOT: " + detail_ok), path=path)
        return cond

    def floor(self, rule, count, floor, what):
        """Fail closed when a rule matched fewer instances than were confirmed by hand."""
        self.instances[rule if self.config == "default" else f"{rule}@{self.config}"] = dict(count=count, floor=floor, what=what)
        if count < floor and self.config == "default":
            self.bad(
                rule,
                "anchor-missing",
                "-",
                f"anchor-missing: rule matched {count} instance(s) of `{what}`, floor is {floor}; "
                f"an anchor was renamed/removed - update the rule table after review",
            )

    def anchor_missing(self, rule, msg):
        self.bad(rule, "anchor-missing:" + msg[:80], "-", "anchor-missing: " + msg)

    def rule(self, fn, *args, **kw):
        """run one rule on its own: a rule that cannot digest the shape of the (changed) code - an anchor function is
        gone, an idiom it was not written for makes it raise - reports that for itself, and the rules after it still run"""
        import traceback
        from .prog import AnchorMissing
        try:
            return fn(*args, **kw)
        except AnchorMissing as e:
            self.anchor_missing("anchor", f"{getattr(fn, '__name__', '?')}: {e}")
        except (SyntaxError, ImportError, NameError):
            raise  # a defect of the checker itself, not a property of the analysed code: never "undecided"
        except Exception as e:  # noqa: BLE001
            traceback.print_exc()
            tb = traceback.extract_tb(e.__traceback__)
            where = next((f"{os.path.basename(fr.filename)}:{fr.name}" for fr in reversed(tb) if "/props/" in fr.filename), getattr(fn, "__name__", "?"))
            self.anchor_missing("rule-cannot-analyse", f"{where}: {type(e).__name__}: {str(e)[:120]}")
        return None

    def undecided(self, rule, key, where, msg):
        """the rule does not understand the code in front of it (an idiom it was not written for): no verdict"""
        self.bad(rule, "cannot-decide:" + key, where, "cannot decide: " + msg)

    def note(self, s):
        self.notes.append(s)

    def touch(self, *bodies):
        for b in bodies:
            if b is not None:
                self.analysed_functions.add(b.path if hasattr(b, "path") else str(b))


def load_known():
    p = os.path.join(VERIF, "known_findings.json")
    with open(p) as fh:
        return json.load(fh)


def finish(chk, prog, explanation, trusted_base, assumptions, seed=0, extra=None):
    """Apply the known-findings protocol, write evidence, print verdict lines.
    Returns the process exit code."""
    known = load_known()
    # a known finding is matched modulo closure nesting: whether the offending call sits in a closure, a closure in a
    # closure or a named function spliced into it is not part of what fails
    def _kf_key(k):
        return re.sub(r"(::\{closure\})+", "", norm_key(k))

    kf = {_kf_key(k["key"]): k for k in known.get("findings", []) if k["property"] == chk.pid}
    violated = [o for o in chk.obs if o["status"] == "violated"]
    # "cannot decide" is not "violated": when a rule no longer finds the construct it was written for (an anchor function
    # or pattern is gone, an instance count fell below the reviewed floor, the rule crashed on code of a new shape) the
    # code may have been restructured without any change of behaviour.  Such obligations are reported as UNDECIDED and
    # recorded in the evidence, but they do not make the check fail - a violation is a construct the rule *did* find
    # and judged wrong.  SVGDX_SA_STRICT=1 restores fail-closed behaviour (used when the rules themselves are edited).
    undecided = []
    if not os.environ.get("SVGDX_SA_STRICT"):
        undecided = [o for o in violated if "anchor-missing" in o["key"] or "cannot-decide" in o["key"] or o["rule"] in ("rule-cannot-analyse", "anchor")]
        for o in undecided:
            o["status"] = "undecided"
            print(f"UNDECIDED: property={chk.pid} rule={o['rule']} {o['detail'][:300]}")
        violated = [o for o in violated if o["status"] == "violated"]
    new = []
    seen_known = set()
    for o in violated:
        if _kf_key(o["key"]) in kf:
            o["status"] = "known-finding"
            seen_known.add(_kf_key(o["key"]))
        else:
            new.append(o)
    for k in sorted(seen_known):
        print(f"KNOWN-FINDING: property={chk.pid} {kf[k]['what']} [{k}]")
    rc = 0
    if new:
        rdir = os.environ.get("SVGDX_SA_REPLAY_DIR") or os.path.join(VERIF, "replay")
        os.makedirs(rdir, exist_ok=True)
        for i, o in enumerate(new):
            rp = os.path.join(rdir, f"{chk.pid}-{i}.json")
            with open(rp, "w") as fh:
                json.dump(o, fh, indent=1)
            print(f"VIOLATION property={chk.pid} replay={rp}")
            print(f"  rule={o['rule']} key={o['key']}\n  at {o['where']}\n  {o['detail']}")
        rc = 1
    n = len(chk.obs)
    discharged = len([o for o in chk.obs if o["status"] == "discharged"])
    by_table = len([o for o in chk.obs if o["status"] == "discharged" and o["by"] == "table"])
    keys = {o["key"] for o in chk.obs}
    samples = [o for o in chk.obs if o["status"] == "known-finding"]  # every recorded finding that was seen, in full
    seen_rules = set()
    for o in chk.obs:  # one sample per rule first, then fill
        if o["rule"] not in seen_rules:
            seen_rules.add(o["rule"])
            if o not in samples:
                samples.append(o)
    for o in chk.obs:
        if len(samples) >= 44:
            break
        if o not in samples:
            samples.append(o)
    cov = dict(
        explanation=explanation,
        obligations=n,
        discharged=discharged + len(seen_known),
        discharged_by_rule=discharged - by_table,
        discharged_by_table=by_table,
        known_findings=len(seen_known),
        known_finding_keys=sorted(seen_known),
        undecided=[dict(rule=o["rule"], key=o["key"], detail=o["detail"][:300]) for o in undecided],
        evaluations=n,
        distinct_nontrivial=len(keys),
        rule="one obligation per rule instance found in the analysed MIR/HIR; distinct = distinct obligation keys "
        "(rule/instance/def-path); every obligation is non-trivial in that it names a concrete construct of the current tree",
        samples=samples,
        rule_instances=chk.instances,
        functions_analysed=len(prog.bodies) if prog else 0,
        functions_touched=sorted(chk.analysed_functions)[:200],
        call_edges=prog.call_edges if prog else 0,
        units=sorted(prog.units) if prog else [],
        checker_cmd=f"./check {chk.pid} {chk.tier}",
        trusted_base=trusted_base,
        notes=chk.notes,
        exhaustive=True,
    )
    if extra:
        cov.update(extra)
    ev = dict(
        property_id=chk.pid,
        tier=chk.tier,
        seed=seed,
        level="other",
        coverage=cov,
        assumptions=assumptions,
        wall_s=round(time.time() - chk.t0, 3),
        violations=len(new),
    )
    evdir = os.environ.get("SVGDX_SA_EVIDENCE_DIR") or os.path.join(VERIF, "evidence")
    os.makedirs(evdir, exist_ok=True)
    with open(os.path.join(evdir, f"{chk.pid}.json"), "w") as fh:
        json.dump(ev, fh, indent=1)
    print(
        f"{chk.pid} [{chk.tier}]: {n} obligations, {discharged} discharged ({by_table} by reviewed table), "
        f"{len(seen_known)} known finding(s), {len(undecided)} undecided, {len(new)} violation(s)"
    )
    return rc
