"""Program model over the driver's facts: bodies, CFG algorithms, call graph."""
import collections
import os
import re
import functools


def P(place):
    """Canonical hashable place: (local, (proj, ...))."""
    return (place[0], tuple(place[1]))


def op_place(op):
    """Place read by an operand (copy/move) or None for constants."""
    if op is None:
        return None
    if "c" in op:
        return P(op["c"])
    if "m" in op:
        return P(op["m"])
    return None


def op_const(op):
    return op.get("k") if op else None


def const_str(op):
    k = op_const(op)
    if k is not None and "str" in k:
        return k["str"]
    return None


def const_int(op):
    k = op_const(op)
    if k is not None and "int" in k:
        return k["int"]
    return None


def const_bool(op):
    k = op_const(op)
    if k is not None and "bool" in k:
        return k["bool"]
    return None


class Callee:
    __slots__ = ("raw",)

    def __init__(self, raw):
        self.raw = raw

    @property
    def resolved(self):
        return "rid" in self.raw

    @property
    def id(self):
        return self.raw.get("rid") or self.raw["id"]

    @property
    def path(self):
        """path of the resolved instance if any, else of the declared callee"""
        return self.raw.get("rpath") or self.raw["path"]

    @property
    def decl_path(self):
        return self.raw["path"]

    @property
    def inst(self):
        return self.raw.get("inst", "")

    @property
    def local(self):
        return self.raw.get("rlocal", self.raw.get("local", False))

    @property
    def trait(self):
        return self.raw.get("trait")

    @property
    def self_ty(self):
        return self.raw.get("self_ty", "")

    @property
    def targs(self):
        return self.raw.get("targs", [])

    @property
    def doc_panics(self):
        return self.raw.get("doc_panics", False)

    @property
    def rkind(self):
        return self.raw.get("rkind", "")


class Body:
    def __init__(self, raw, unit, mir=None, promoted_of=None, pidx=None):
        self.raw = raw
        self.unit = unit
        self.id = raw["id"]
        self.path = raw["path"]
        self.kind = raw["kind"]
        self.file = raw["file"]
        self.line = raw["line"]
        self.end_line = raw.get("end_line", self.line)
        self.root = raw.get("root")  # closures: enclosing fn id
        self.trait_item = raw.get("trait_item")
        self.self_ty = raw.get("self_ty")
        self.vis = raw.get("vis")
        m = mir if mir is not None else raw["mir"]
        self.mir = m
        self.blocks = m["blocks"]
        self.locals = m["locals"]
        self.argc = m["argc"]
        self.n = len(self.blocks)
        self.promoted = []
        if mir is None:
            self.promoted = [Body(raw, unit, mir=pm, promoted_of=self, pidx=i) for i, pm in enumerate(raw.get("promoted", []))]
        self._succ = None
        self._pred = None

    def __repr__(self):
        return f"<Body {self.path}>"

    # --- naming -------------------------------------------------------
    @property
    def short(self):
        return self.path.replace("svgdx::", "")

    def local_name(self, l):
        return self.locals[l].get("name")

    def local_ty(self, l):
        return self.locals[l]["ty"]

    def where(self, bb=None, line=None):
        if line is None and bb is not None:
            line = self.blocks[bb]["t"].get("line")
        return f"{self.file}:{line or self.line}"

    # --- CFG ----------------------------------------------------------
    def term(self, bb):
        return self.blocks[bb]["t"]

    def stmts(self, bb):
        return self.blocks[bb]["s"]

    def is_cleanup(self, bb):
        return self.blocks[bb].get("cleanup", False)

    def succs(self, bb, unwind=False):
        t = self.blocks[bb]["t"]
        k = t["k"]
        out = []
        if k == "goto":
            out = [t["t"]]
        elif k == "switch":
            out = [v[1] for v in t["vals"]] + [t["otherwise"]]
        elif k in ("call", "drop", "assert"):
            if t.get("t") is not None:
                out = [t["t"]]
            if k == "assert" and const_bool(t.get("cond")) is not None and const_bool(t["cond"]) != t.get("expected"):
                out = []  # always-failing assertion (e.g. coroutine resumed after completion): no normal successor
            if unwind and t.get("unwind") is not None:
                out.append(t["unwind"])
        elif k == "yield":
            out = [t["t"]]
        # ret, unreachable, resume, terminate, tailcall: no successors
        seen = []
        for x in out:
            if x not in seen:
                seen.append(x)
        return seen

    @property
    def succ(self):
        if self._succ is None:
            self._succ = [self.succs(b) for b in range(self.n)]
        return self._succ

    @property
    def pred(self):
        if self._pred is None:
            p = [[] for _ in range(self.n)]
            for b in range(self.n):
                for s in self.succ[b]:
                    p[s].append(b)
            self._pred = p
        return self._pred

    @functools.cached_property
    def reachable(self):
        """blocks reachable from entry along normal (non-unwind) edges"""
        return self.reach([0])

    def reach(self, starts, avoid=(), avoid_edges=()):
        """Blocks reachable from `starts` (inclusive) never entering a block in `avoid`
        and never taking an edge in `avoid_edges`."""
        avoid = set(avoid)
        avoid_edges = set(avoid_edges)
        seen = set()
        work = [s for s in starts if s not in avoid]
        while work:
            b = work.pop()
            if b in seen:
                continue
            seen.add(b)
            for s in self.succ[b]:
                if s not in seen and s not in avoid and (b, s) not in avoid_edges:
                    work.append(s)
        return seen

    @functools.cached_property
    def ret_locals(self):
        """locals standing for "the value this function returns": _0, plus the return place of every spliced helper
        whose result the caller hands on unchanged - by `?` (Err part) or by returning it as it is"""
        out = {0}
        rets = self.mir.get("inlined_rets") or []
        if not rets:
            return out

        def moved_to(l):
            seen, work = {l}, [l]
            while work:
                a = work.pop()
                for b in range(self.n):
                    for st in self.blocks[b]["s"]:
                        if "lhs" in st and not st["lhs"][1] and st["rv"].get("k") == "use":
                            pl = op_place(st["rv"]["op"])
                            if pl and pl[0] == a and not pl[1] and st["lhs"][0] not in seen:
                                seen.add(st["lhs"][0])
                                work.append(st["lhs"][0])
            return seen

        def tried(l):
            for b in range(self.n):
                t = self.blocks[b]["t"]
                if t.get("k") == "call" and "fn" in t and Callee(t["fn"]).decl_path == "std::ops::Try::branch":
                    a = op_place(t["args"][0])
                    if a is not None and a[0] == l and not a[1]:
                        return True
            return False

        changed = True
        while changed:
            changed = False
            for r in rets:
                if r["slot"] in out or r["dest"] is None:
                    continue
                m = moved_to(r["dest"])
                if (m & out) or any(tried(x) for x in m):
                    out.add(r["slot"])
                    changed = True
        return out

    def reach_flags(self, starts, avoid=(), cap=20000):
        """like reach(), but follows a `switch` on a bool local only along the edge that agrees with the constant the
        path assigned to it (the `_t = const true; goto join; switch(_t)` shape of `matches!`, `a || b` and let-else);
        falls back to the plain over-approximation when the search budget is exhausted"""
        avoid = set(avoid)
        seen, out = set(), set()
        work = [(s, frozenset()) for s in starts if s not in avoid]
        steps = 0
        while work:
            b, st = work.pop()
            if (b, st) in seen:
                continue
            seen.add((b, st))
            out.add(b)
            steps += 1
            if steps > cap:
                return self.reach(starts, avoid)
            facts = dict(st)
            for stt in self.stmts(b):
                if "lhs" not in stt:
                    continue
                l = stt["lhs"]
                if l[1]:
                    continue
                rv = stt["rv"]
                cb = const_bool(rv["op"]) if rv.get("k") == "use" else None
                src = op_place(rv["op"]) if rv.get("k") == "use" else None
                if cb is not None:
                    facts[l[0]] = bool(cb)
                elif src is not None and not src[1] and src[0] in facts:
                    facts[l[0]] = facts[src[0]]  # the flag handed on (a spliced helper's bool result)
                else:
                    facts.pop(l[0], None)
            t = self.term(b)
            succs = list(self.succ[b])
            if t["k"] == "switch":
                pl = op_place(t["op"])
                if pl is not None and not pl[1] and pl[0] in facts:
                    tgt = t["otherwise"]
                    for v, x in t["vals"]:
                        if bool(v) == facts[pl[0]] and v in (0, 1):
                            tgt = x
                    if facts[pl[0]] and all(v == 0 for v, _ in t["vals"]):
                        tgt = t["otherwise"]
                    succs = [tgt]
            elif t["k"] == "call" and t.get("dest") and not t["dest"][1]:
                facts.pop(t["dest"][0], None)
            nst = frozenset(facts.items())
            for x in succs:
                if x not in avoid:
                    work.append((x, nst))
        return out

    def reach_after(self, bb, avoid=(), avoid_edges=()):
        """Blocks reachable strictly after leaving `bb`."""
        starts = [s for s in self.succ[bb] if (bb, s) not in set(avoid_edges)]
        return self.reach(starts, avoid, avoid_edges)

    @functools.cached_property
    def return_blocks(self):
        return [b for b in range(self.n) if self.blocks[b]["t"]["k"] == "ret" and b in self.reachable]

    @functools.cached_property
    def idom(self):
        return _dominators(self.n, 0, self.succ, self.pred, self.reachable)

    def dominates(self, a, b):
        """a dominates b (a == b counts)"""
        idom = self.idom
        while True:
            if a == b:
                return True
            nb = idom.get(b)
            if nb is None or nb == b:
                return False
            b = nb

    @functools.cached_property
    def back_edges(self):
        out = []
        for b in self.reachable:
            for s in self.succ[b]:
                if s in self.reachable and self.dominates(s, b):
                    out.append((b, s))
        return out

    @functools.cached_property
    def loops(self):
        """natural loops: header -> set of blocks"""
        loops = collections.OrderedDict()
        for (tail, head) in self.back_edges:
            body = loops.setdefault(head, {head})
            work = [tail]
            while work:
                x = work.pop()
                if x in body:
                    continue
                body.add(x)
                work.extend(self.pred[x])
        return loops

    # --- queries ------------------------------------------------------
    def calls(self, only_reachable=True):
        for b in range(self.n):
            if only_reachable and b not in self.reachable:
                continue
            t = self.blocks[b]["t"]
            if t["k"] in ("call", "tailcall"):
                yield b, t

    def call_sites(self, pred):
        """[(bb, term, Callee)] for calls whose callee satisfies pred(Callee)"""
        out = []
        for b, t in self.calls():
            if "fn" in t:
                c = Callee(t["fn"])
                if pred(c):
                    out.append((b, t, c))
        return out

    def all_stmts(self, only_reachable=True):
        for b in range(self.n):
            if only_reachable and b not in self.reachable:
                continue
            for i, s in enumerate(self.blocks[b]["s"]):
                yield b, i, s

    def defs_of(self, local):
        """all assignments whose lhs is exactly the local (no projection): [(bb, idx|'term', rvalue-or-term)]"""
        out = []
        for b, i, s in self.all_stmts():
            if "lhs" in s and s["lhs"][0] == local and not s["lhs"][1]:
                out.append((b, i, s["rv"]))
        for b, t in self.calls():
            d = t.get("dest")
            if d and d[0] == local and not d[1]:
                out.append((b, "term", t))
        return out

    def single_def(self, local):
        d = self.defs_of(local)
        return d[0] if len(d) == 1 else None

    def promoted_value(self, idx):
        """value of promoted constant #idx of this body: ('const', k) | ('array', [k...]) | None"""
        owner = self
        if idx >= len(owner.promoted):
            return None
        pb = owner.promoted[idx]
        # _0 = &_1 ; _1 = const / array aggregate
        d = pb.single_def(0)
        seen = 0
        while d is not None and seen < 6:
            seen += 1
            b, i, rv = d
            if i == "term":
                return None
            if rv["k"] == "ref":
                pl = P(rv["place"])
                if pl[1] and [x for x in pl[1] if x != "*"]:
                    return None
                d = pb.single_def(pl[0])
                continue
            if rv["k"] == "use":
                k = op_const(rv["op"])
                if k is not None:
                    return ("const", k)
                pl = op_place(rv["op"])
                d = pb.single_def(pl[0]) if pl and not pl[1] else None
                continue
            if rv["k"] == "aggr" and rv["ak"] in ("array", "tuple"):
                out = []
                for o in rv["ops"]:
                    k = op_const(o)
                    if k is None:
                        ch = pb.chase(o)
                        k = ch[1] if ch[0] == "const" else None
                    out.append(k)
                return ("array", out)
            return None
        return None

    def resolve_const(self, k):
        """a const operand record -> itself, or the value of the promoted it names"""
        if k is not None and "promoted" in k and "str" not in k:
            owner = self
            pv = owner.promoted_value(k["promoted"])
            if pv and pv[0] == "const":
                return pv[1]
            if pv and pv[0] == "array":
                return dict(k, array=pv[1])
        return k

    def chase(self, op, depth=12):
        """Follow an operand back through single-definition copies/moves/refs/derefs.
        Returns a list describing the chain end: ('const', k) | ('place', place) |
        ('call', bb, term) | ('rv', rvalue) | ('arg', local)."""
        k = op_const(op)
        if k is not None:
            return ("const", self.resolve_const(k))
        pl = op_place(op)
        return self.chase_place(pl, depth)

    def chase_place(self, pl, depth=12):
        while depth > 0:
            depth -= 1
            local, proj = pl
            if 0 < local <= self.argc and not [p for p in proj if p != "*"]:
                return ("arg", local)
            strip = tuple(p for p in proj if p != "*")
            if len(strip) == 1 and re.fullmatch(r"\.\d+", str(strip[0])) and not (0 < local <= self.argc):
                # component of a temporary tuple built in one place (`let (a, b) = (x, y);`): on to what was put in
                td = self.single_def(local)
                if td is not None and td[1] != "term" and td[2]["k"] == "aggr" and td[2].get("ak") == "tuple" and int(strip[0][1:]) < len(td[2]["ops"]):
                    o = td[2]["ops"][int(strip[0][1:])]
                    k = op_const(o)
                    if k is not None:
                        return ("const", self.resolve_const(k))
                    pl = op_place(o)
                    continue
            if strip:
                return ("place", pl)
            d = self.single_def(local)
            if d is None:
                return ("place", pl)
            b, i, rv = d
            if i == "term":
                return ("call", b, rv)
            if rv["k"] == "use":
                k = op_const(rv["op"])
                if k is not None:
                    return ("const", self.resolve_const(k))
                pl = op_place(rv["op"])
                continue
            if rv["k"] == "ref":
                pl = P(rv["place"])
                continue
            if rv["k"] == "cast":
                k = op_const(rv["op"])
                if k is not None:
                    return ("const", self.resolve_const(k))
                pl = op_place(rv["op"])
                continue
            return ("rv", rv, b)
        return ("place", pl)


def _dominators(n, entry, succ, pred, reachable):
    # iterative algorithm on reverse postorder (Cooper/Harvey/Kennedy)
    order = []
    seen = set()
    stack = [(entry, iter(succ[entry]))]
    seen.add(entry)
    while stack:
        node, it = stack[-1]
        adv = False
        for s in it:
            if s not in seen and s in reachable:
                seen.add(s)
                stack.append((s, iter(succ[s])))
                adv = True
                break
        if not adv:
            order.append(node)
            stack.pop()
    rpo = list(reversed(order))
    idx = {b: i for i, b in enumerate(rpo)}
    idom = {entry: entry}
    changed = True
    while changed:
        changed = False
        for b in rpo[1:]:
            new = None
            for p in pred[b]:
                if p in idom:
                    if new is None:
                        new = p
                    else:
                        a, c = p, new
                        while a != c:
                            while idx[a] > idx[c]:
                                a = idom[a]
                            while idx[c] > idx[a]:
                                c = idom[c]
                        new = a
            if new is not None and idom.get(b) != new:
                idom[b] = new
                changed = True
    return idom


def postdominators(body, exits):
    """ipdom over the normal-edge CFG with a virtual exit joining `exits`."""
    n = body.n
    VE = n
    succ = [list(body.pred[b]) for b in range(n)] + [list(exits)]
    pred = [list(body.succ[b]) for b in range(n)] + [[]]
    for e in exits:
        pred[e] = pred[e] + [VE]
    # reachable (backwards) from VE
    reach = set()
    work = [VE]
    while work:
        x = work.pop()
        if x in reach:
            continue
        reach.add(x)
        work.extend(succ[x])
    return _dominators(n + 1, VE, succ, pred, reach)


class Program:
    def __init__(self, units, _normalised=False):
        self._init(units)
        self.renamed = {}
        self.inlined = {}
        if _normalised or os.environ.get("SVGDX_SA_NO_RENAME_NORMALISATION"):
            return
        units = self._normalise_renames(units)
        # New private helpers (functions that did not exist at review time) are spliced into the reviewed functions that
        # call them: see sa/inline.py.  Reported in the evidence.
        try:
            from props import strops
            from . import inline

            known = strops.load_table()[1]
            done = inline.inline_new_helpers(units, known)
        except Exception:  # noqa: BLE001 - best effort; without it rules that depend on the helper's contents fail closed
            done = {}
        if done:
            # the source-level view follows: the (typed HIR) body of a spliced helper is attached to the body of every
            # function it was spliced into, under a key of its own - queries that walk a function's expressions see the
            # helper's expressions too, structural accessors (stmts / expr) and the evaluator are not affected
            by_path = {}
            for u in units.values():
                for h in u.get("hir", []):
                    if isinstance(h, dict) and h.get("path") and isinstance(h.get("body"), dict):
                        by_path.setdefault(h["path"], h)
            for helper, callers in done.items():
                hh = by_path.get(helper)
                if hh is None:
                    continue
                for cp in callers:
                    ch = by_path.get(cp)
                    if ch is not None and ch is not hh and not any(x is hh["body"] for x in ch["body"].get("spliced", [])):
                        ch["body"].setdefault("spliced", []).append(hh["body"])
            self._init(units)
            self.inlined = done

    def hir_expand(self, node, depth=3):
        """the expression `node` together with the (source-level) bodies of the spliced helpers it calls, as one list
        that hirq.walk / hirq.exprs can be run over: what an arm `X => helper(..)` does is what the helper does"""
        from . import hirq

        if not self.inlined:
            return [node]
        by_path = getattr(self, "_hir_by_path", None)
        if by_path is None:
            by_path = self._hir_by_path = {h["path"]: h for h in self.hir.values() if isinstance(h, dict) and h.get("path") and isinstance(h.get("body"), dict)}
        out, seen, work = [node], set(), [(node, 0)]
        while work:
            n, d = work.pop()
            if d >= depth:
                continue
            for c in list(hirq.exprs(n, "Call")) + list(hirq.exprs(n, "MethodCall")):
                cp = hirq.callee_path(c)
                if cp in self.inlined and cp in by_path and cp not in seen:
                    seen.add(cp)
                    body = {k: v for k, v in by_path[cp]["body"].items() if k != "spliced"}
                    out.append(body)
                    work.append((body, d + 1))
        return out

    def const_strings(self, path):
        """the string literals of the named constant / static `path` (`const T: &[&str] = &["a", "b"]`), in source
        order; None when there is no such item or it holds no string"""
        from sa import hirq
        for h in self.hir.values():
            if isinstance(h, dict) and h.get("kind") in ("Const", "Static", "AssocConst") and h.get("path") == path and isinstance(h.get("body"), dict):
                vals = [hirq.lit_str(x) for x in hirq.exprs(h["body"], "Lit")]
                vals = [v for v in vals if isinstance(v, str)]
                return vals or None
        return None

    def hir_items(self):
        """(body, hir) for every function with a source-level view; a helper that was spliced into its callers is
        attributed to the first of them (its own body no longer exists)"""
        owner = {}
        for u in self.units.values():
            owner.update(u.get("inlined_hir") or {})
        for bid, h in self.hir.items():
            b = self.bodies.get(bid) or self.bodies.get(owner.get(bid))
            if b is not None:
                yield b, h

    def owners_of(self, path):
        """For a library function that did not exist when the rules were reviewed (and that could not be spliced into
        its callers - it is passed as a function value, recursive, too large): the reviewed functions it is reachable
        from through such new functions only.  Reviewed tables keyed by function extend to what their function hands
        work to.  Empty for a reviewed function (it stands for itself)."""
        strip = lambda p: re.sub(r"(::\{closure#\d+\})+", "", p)  # noqa: E731
        if not hasattr(self, "_known_fns"):
            try:
                from props import strops

                self._known_fns = set(strops.load_table()[1])
            except Exception:  # noqa: BLE001
                self._known_fns = None
        if self._known_fns is None:
            return set()
        p0 = strip(path)
        if p0 in self._known_fns or not p0.startswith(("svgdx::", "<svgdx::")):
            return set()
        by_path = {}
        for b in self.bodies.values():
            by_path.setdefault(strip(b.path), []).append(b)
        out, seen, work = set(), {p0}, [p0]
        while work:
            q = work.pop()
            for b in by_path.get(q, ()):
                for cid in self.redges.get(b.id, ()):
                    cp = strip(self.bodies[cid].path)
                    if cp in seen:
                        continue
                    seen.add(cp)
                    if cp in self._known_fns:
                        out.add(cp)
                    else:
                        work.append(cp)
        return out

    def _normalise_renames(self, units):
        # Functions that are recognisably *renamings* of reviewed functions (same module / impl, same callers, the old
        # name gone) are given their reviewed names back, so that rule anchors, tables and known-finding keys - all of
        # which name functions - keep meaning the same code.  The mapping is reported in the evidence.
        import json as _json
        import re as _re

        try:
            from props import strops

            # a reviewed type that gained a lifetime parameter (`LoopElement(SvgElement)` -> `LoopElement<'a>(&'a
            # SvgElement)`) is spelled `LoopElement<'_>` in impl paths: the reviewed spelling is restored
            known_fns = strops.load_table()[1]
            text0 = _json.dumps(units)
            gained = set()
            for m_ in set(_re.findall(r"((?:[a-z_0-9]+::)+[A-Z][A-Za-z0-9_]*)<'[a-z_]+>", text0)):
                if not any((m_ + "<'") in f_ for f_ in known_fns) and any(m_ in f_ for f_ in known_fns):
                    gained.add(m_)
            if gained:
                for m_ in sorted(gained, key=len, reverse=True):
                    text0 = _re.sub(_re.escape(m_) + r"<'[a-z_]+>", m_, text0)
                units = _json.loads(text0)
                self._init(units)
            tren = strops.adt_renames(self)
        except Exception:  # noqa: BLE001 - normalisation is best effort; without it anchors fail closed
            tren = {}
        if tren:
            # renamed types first: their paths are prefixes of their methods' paths
            text = _json.dumps(units)
            for new, old in sorted(tren.items(), key=lambda kv: -len(kv[0])):
                text = _re.sub(_re.escape(_json.dumps(new)[1:-1]) + r"(?![A-Za-z0-9_])", _json.dumps(old)[1:-1].replace("\\", "\\\\"), text)
                nl, ol = new.rsplit("::", 1)[-1], old.rsplit("::", 1)[-1]
                text = text.replace(f'"name": "{nl}"', f'"name": "{ol}"')
            units = _json.loads(text)
            self._init(units)
        try:
            fren = strops.field_renames(self)
        except Exception:  # noqa: BLE001
            fren = {}
        if fren:
            # struct fields renamed in place: projections (".name"), field expressions and declarations get the reviewed name
            text = _json.dumps(units)
            for new, old in fren.items():
                text = text.replace(f'".{new}"', f'".{old}"').replace(f'"name": "{new}"', f'"name": "{old}"')
            units = _json.loads(text)
            self._init(units)
            tren = dict(tren, **{"field " + k: "field " + v for k, v in fren.items()})
        try:
            ren = strops.renames(self)
        except Exception:  # noqa: BLE001
            ren = {}
        self.renamed = dict(tren, **ren)
        if not ren:
            return units

        text = _json.dumps(units)
        for new, old in sorted(ren.items(), key=lambda kv: -len(kv[0])):
            nl, ol = new.rsplit("::", 1)[-1], old.rsplit("::", 1)[-1]
            if nl == ol or new.rsplit("::", 1)[0] != old.rsplit("::", 1)[0]:
                # moved under the same name, or a method that became a free function (or the reverse): the whole path changes
                text = _re.sub(_re.escape(_json.dumps(new)[1:-1]) + r"(?![A-Za-z0-9_])", _json.dumps(old)[1:-1].replace("\\", "\\\\"), text)
                continue
            text = _re.sub(r"::" + _re.escape(nl) + r"(?![A-Za-z0-9_])", "::" + ol, text)
            text = text.replace(f'"name": "{nl}"', f'"name": "{ol}"')
        units = _json.loads(text)
        self._init(units)
        self.renamed = dict(tren, **ren)
        return units

    def _init(self, units):
        self.units = units
        self.bodies = {}
        self.by_path = collections.defaultdict(list)
        self.hir = {}
        self.items = []
        for uname, u in units.items():
            for raw in u["bodies"]:
                b = Body(raw, uname)
                self.bodies[b.id] = b
                self.by_path[b.path].append(b)
            for h in u["hir"]:
                self.hir[h["id"]] = h
            for it in u["items"]:
                it = dict(it)
                it["unit"] = uname
                self.items.append(it)
        self.features = units.get("svgdx-lib", {}).get("features", [])
        self._impls_of = collections.defaultdict(list)
        for b in self.bodies.values():
            if b.trait_item:
                self._impls_of[b.trait_item].append(b)
        self._build_callgraph()

    # --- lookup -------------------------------------------------------
    def body(self, path):
        """exactly one body with this pretty path (fail closed otherwise)"""
        bs = self.by_path.get(path, [])
        if len(bs) != 1:
            raise AnchorMissing(f"expected exactly one function `{path}`, found {len(bs)}")
        return bs[0]

    def maybe_body(self, path):
        bs = self.by_path.get(path, [])
        return bs[0] if len(bs) == 1 else None

    def bodies_matching(self, pred):
        return [b for b in self.bodies.values() if pred(b)]

    def closures_of(self, body):
        return [b for b in self.bodies.values() if b.root == body.id]

    def item(self, path, kind=None):
        for it in self.items:
            if it["path"] == path and (kind is None or it["item"] == kind):
                return it
        return None

    def adt(self, path):
        it = self.item(path, "adt")
        if it is None:
            raise AnchorMissing(f"type `{path}` not found")
        return it

    # --- types of places ---------------------------------------------------
    @staticmethod
    def strip_ref(ty):
        ty = ty.strip()
        if ty.startswith("&"):
            ty = ty[1:].lstrip()
            if ty.startswith("'"):
                ty = ty.split(" ", 1)[1] if " " in ty else ty
            if ty.startswith("mut "):
                ty = ty[4:]
            return ty.strip()
        for box in ("std::boxed::Box<", "std::rc::Rc<", "std::sync::Arc<"):
            if ty.startswith(box) and ty.endswith(">"):
                return ty[len(box):-1]
        return ty

    def field_owner(self, body, place):
        """ADT path owning the last `.field` projection of the place, or None when unknown."""
        local, proj = place
        if not proj or not proj[-1].startswith("."):
            return None
        ty = body.local_ty(local)
        for p in proj[:-1]:
            ty = self._step_ty(ty, p)
            if ty is None:
                return None
        base = self.strip_ref(ty).split("<")[0]
        it = self.item(base, "adt")
        if it is None:
            return None
        return base

    def _step_ty(self, ty, p):
        if p == "*":
            return self.strip_ref(ty)
        if p.startswith("."):
            base = self.strip_ref(ty).split("<")[0]
            it = self.item(base, "adt")
            if it is None or len(it["variants"]) != 1:
                return None
            for f in it["variants"][0]["fields"]:
                if f["name"] == p[1:]:
                    return f["ty"]
            return None
        return None

    def impls_of(self, trait_item_path):
        return self._impls_of.get(trait_item_path, [])

    def hir_of(self, body):
        """HIR owner record for a fn/method body (closures live inside their root)."""
        return self.hir.get(body.id)

    # --- call graph -----------------------------------------------------
    def targets_of_callee(self, c):
        """local bodies a call to Callee c may enter"""
        if c.resolved:
            b = self.bodies.get(c.id)
            return [b] if b is not None else []
        # unresolved trait method: class-hierarchy edges to every local impl (+ the trait's default body)
        if c.trait:
            out = list(self._impls_of.get(c.decl_path, []))
            d = self.bodies.get(c.raw["id"])
            if d is not None:
                out.append(d)
            return out
        b = self.bodies.get(c.raw["id"])
        return [b] if b is not None else []

    def _fn_consts_in(self, body):
        out = []

        def visit_op(op):
            k = op_const(op)
            if k is not None:
                if "fn" in k:
                    out.append(("fn", Callee(k["fn"])))
                elif "closure" in k:
                    out.append(("closure", k["closure"]))
                elif "named" in k:
                    out.append(("const", k["named"]))

        for bd in [body] + body.promoted:
            for b in range(bd.n):
                for s in bd.blocks[b]["s"]:
                    rv = s.get("rv")
                    if not rv:
                        continue
                    for key in ("op", "a", "b"):
                        if key in rv and isinstance(rv[key], dict):
                            visit_op(rv[key])
                    for o in rv.get("ops", []):
                        visit_op(o)
                    if rv.get("k") == "aggr" and "closure" in rv:
                        out.append(("closure", rv["closure"]))
                t = bd.blocks[b]["t"]
                for a in t.get("args", []):
                    visit_op(a)
                if t["k"] == "drop" and t.get("drop_local"):
                    out.append(("dropfn", t["drop_fn"]))
        return out

    # traits whose local impls an *external generic* callee may call back into, by callee name
    CALLBACK_TRAITS = {
        "parse": {"std::str::FromStr"},
        "from_residual": {"std::convert::From"},
        "into": {"std::convert::From"},
        "try_into": {"std::convert::TryFrom"},
        "to_string": {"std::fmt::Display"},
        "new_display": {"std::fmt::Display"},
        "new_debug": {"std::fmt::Debug"},
        "collect": {"std::iter::FromIterator", "std::iter::Extend"},
        "from_iter": {"std::iter::FromIterator"},
        "extend": {"std::iter::Extend", "std::clone::Clone"},
        "clone": {"std::clone::Clone"},
        "cloned": {"std::clone::Clone"},
        "to_vec": {"std::clone::Clone"},
        "to_owned": {"std::clone::Clone"},
        "clone_from": {"std::clone::Clone"},
        "default": {"std::default::Default"},
        "unwrap_or_default": {"std::default::Default"},
        "eq": {"std::cmp::PartialEq"},
        "ne": {"std::cmp::PartialEq"},
        "contains": {"std::cmp::PartialEq"},
        "cmp": {"std::cmp::Ord", "std::cmp::PartialOrd"},
        "partial_cmp": {"std::cmp::PartialOrd"},
        "sort": {"std::cmp::Ord", "std::cmp::PartialOrd"},
        "hash": {"std::hash::Hash"},
        "sum": {"std::iter::Sum"},
        "max": {"std::cmp::Ord", "std::cmp::PartialOrd"},
        "min": {"std::cmp::Ord", "std::cmp::PartialOrd"},
        "sort_unstable": {"std::cmp::Ord", "std::cmp::PartialOrd"},
        "binary_search": {"std::cmp::Ord", "std::cmp::PartialOrd"},
        "dedup": {"std::cmp::PartialEq"},
        "position": {"std::cmp::PartialEq"},
        "resize": {"std::clone::Clone"},
        "insert": {"std::hash::Hash", "std::cmp::PartialEq", "std::cmp::Ord", "std::cmp::PartialOrd"},
        "get": {"std::hash::Hash", "std::cmp::PartialEq", "std::cmp::Ord", "std::cmp::PartialOrd"},
        "remove": {"std::hash::Hash", "std::cmp::PartialEq", "std::cmp::Ord", "std::cmp::PartialOrd"},
        "contains_key": {"std::hash::Hash", "std::cmp::PartialEq", "std::cmp::Ord", "std::cmp::PartialOrd"},
        "entry": {"std::hash::Hash", "std::cmp::PartialEq", "std::cmp::Ord", "std::cmp::PartialOrd"},
        "fmt": {"std::fmt::Display", "std::fmt::Debug"},
        "write_fmt": {"std::fmt::Display", "std::fmt::Debug"},
        "try_from": {"std::convert::TryFrom"},
        "from": {"std::convert::From"},
        "from_str": {"std::str::FromStr"},
        "or_default": {"std::default::Default"},
        "take": {"std::default::Default"},
        "assert_failed": {"std::fmt::Debug"},
        "next": set(), "iter": set(), "into_iter": set(), "branch": set(),
    }
    STD_TRAIT_PREFIX = ("std::", "core::", "alloc::")

    def _callback_targets(self, c):
        """local std-trait impl methods an external generic callee may invoke for the local types it is
        instantiated with (e.g. str::parse::<T> -> <T as FromStr>::from_str)."""
        inst = c.inst
        if "svgdx" not in inst:
            return []
        last = c.path.split("::")[-1]
        traits = self.CALLBACK_TRAITS.get(last)
        if traits is None:
            return []
        out = []
        for b in self._std_impl_methods:
            st = (b.self_ty or "").lstrip("&")
            if not st or st not in inst:
                continue
            tr = b.trait_item.rsplit("::", 1)[0]
            if traits is not None:
                if tr not in traits:
                    continue
            if tr == "std::convert::From" or tr == "std::convert::TryFrom":
                # <T as From<X>>::from : X must be mentioned too
                tref = self._trait_ref_of.get(b.id, "")
                x = tref.split(" as ", 1)[1] if " as " in tref else ""
                x = x[x.find("<") + 1 : x.rfind(">") - 0] if "<" in x else ""
                x = x.rstrip(">") if x.count("<") < x.count(">") else x
                if x and x not in inst:
                    continue
            out.append(b)
        return out

    def _build_callgraph(self):
        self._trait_ref_of = {}
        for it in self.items:
            if it["item"] == "impl" and "trait_ref" in it:
                for m in it["methods"]:
                    self._trait_ref_of[m["id"]] = it["trait_ref"]
        self._const_id = {it["path"]: it["id"] for it in self.items if it["item"] == "const"}
        self._std_impl_methods = [b for b in self.bodies.values() if b.trait_item and b.trait_item.startswith(self.STD_TRAIT_PREFIX) and b.self_ty and "svgdx" in b.self_ty]
        self.edges = collections.defaultdict(set)  # id -> set(id)
        self.ext_calls = collections.defaultdict(list)  # id -> [(bb, Callee)] non-local callees
        self.call_edges = 0
        for b in self.bodies.values():
            for bb, t in b.calls(only_reachable=True):
                if "fn" not in t:
                    continue
                c = Callee(t["fn"])
                tg = self.targets_of_callee(c)
                if tg:
                    for x in tg:
                        self.edges[b.id].add(x.id)
                        self.call_edges += 1
                else:
                    self.ext_calls[b.id].append((bb, c))
                    for x in self._callback_targets(c):
                        self.edges[b.id].add(x.id)
                        self.call_edges += 1
            for kind, x in self._fn_consts_in(b):
                if kind == "fn":
                    for y in self.targets_of_callee(x):
                        self.edges[b.id].add(y.id)
                elif kind in ("closure", "dropfn"):
                    if x in self.bodies:
                        self.edges[b.id].add(x)
                elif kind == "const":
                    # closures living in the initialiser of a named const (fn-pointer constants)
                    cid = self._const_id.get(x)
                    if cid:
                        for cb in self.bodies.values():
                            if cb.root == cid:
                                self.edges[b.id].add(cb.id)
        self.redges = collections.defaultdict(set)
        for a, bs in self.edges.items():
            for b in bs:
                self.redges[b].add(a)

    def reachable_from(self, roots):
        seen = set()
        work = [r.id if isinstance(r, Body) else r for r in roots]
        while work:
            x = work.pop()
            if x in seen:
                continue
            seen.add(x)
            work.extend(self.edges.get(x, ()))
        return seen

    def callers_of(self, body):
        return [self.bodies[x] for x in self.redges.get(body.id, ())]

    def sccs(self, nodes=None):
        """Tarjan SCCs of the local call graph (restricted to `nodes`)."""
        nodes = set(nodes) if nodes is not None else set(self.bodies)
        index = {}
        low = {}
        onstack = set()
        stack = []
        out = []
        counter = [0]
        for root in sorted(nodes):
            if root in index:
                continue
            work = [(root, iter(sorted(x for x in self.edges.get(root, ()) if x in nodes)))]
            index[root] = low[root] = counter[0]
            counter[0] += 1
            stack.append(root)
            onstack.add(root)
            while work:
                v, it = work[-1]
                adv = False
                for w in it:
                    if w not in index:
                        index[w] = low[w] = counter[0]
                        counter[0] += 1
                        stack.append(w)
                        onstack.add(w)
                        work.append((w, iter(sorted(x for x in self.edges.get(w, ()) if x in nodes))))
                        adv = True
                        break
                    elif w in onstack:
                        low[v] = min(low[v], index[w])
                if adv:
                    continue
                work.pop()
                if work:
                    u = work[-1][0]
                    low[u] = min(low[u], low[v])
                if low[v] == index[v]:
                    comp = []
                    while True:
                        w = stack.pop()
                        onstack.discard(w)
                        comp.append(w)
                        if w == v:
                            break
                    out.append(comp)
        return out


class AnchorMissing(Exception):
    pass
