"""Reusable rule templates over Body CFGs (the A-catalogue of DESIGN.md section 3)."""
import re

from .prog import P, Callee, op_place, op_const, const_str, const_int, const_bool

TERM = "term"


def pos_of(body, site):
    bb, idx = site
    return len(body.blocks[bb]["s"]) if idx == TERM else idx


# ---------------------------------------------------------------------------
# site finders
# ---------------------------------------------------------------------------

def calls_to(body, pred):
    """[(bb, term, Callee)]; pred over Callee (resolved path preferred)."""
    return body.call_sites(pred)


def path_is(*names):
    names = set(names)
    return lambda c: c.path in names or c.decl_path in names


def path_endswith(*suffixes):
    return lambda c: any(c.path.endswith(s) or c.decl_path.endswith(s) for s in suffixes)


def field_assigns(body, field_suffix):
    """assignments whose lhs place ends with the given projection suffix, e.g. ('.in_specs',)"""
    out = []
    suf = tuple(field_suffix)
    for b, i, s in body.all_stmts():
        if "lhs" in s:
            proj = tuple(s["lhs"][1])
            if proj[-len(suf):] == suf:
                out.append((b, i, s))
    return out


def place_reads(body, field_suffix):
    """statements / terminators that read a place whose projection ends with suffix"""
    suf = tuple(field_suffix)
    out = []

    def hit(op):
        pl = op_place(op)
        return pl is not None and tuple(pl[1])[-len(suf):] == suf

    for b, i, s in body.all_stmts():
        rv = s.get("rv")
        if not rv:
            continue
        ops = [rv.get(k) for k in ("op", "a", "b") if isinstance(rv.get(k), dict)] + list(rv.get("ops", []))
        if any(hit(o) for o in ops):
            out.append((b, i, s))
        elif rv.get("k") in ("ref", "discr") and tuple(rv["place"][1])[-len(suf):] == suf:
            out.append((b, i, s))
    for b in sorted(body.reachable):
        t = body.term(b)
        ops = list(t.get("args", []))
        if t["k"] == "switch":
            ops.append(t["op"])
        if any(hit(o) for o in ops):
            out.append((b, TERM, t))
    return out


# ---------------------------------------------------------------------------
# A5 typestate pairing
# ---------------------------------------------------------------------------

def try_break_edges(body, result_local):
    """For `r?` on local r: the (switch_bb, break_target_bb) edges, i.e. the Err continuation."""
    out = []
    for b, t in body.calls():
        if "fn" not in t:
            continue
        c = Callee(t["fn"])
        if c.decl_path != "std::ops::Try::branch":
            continue
        a = op_place(t["args"][0])
        if a is None or a[0] != result_local or a[1]:
            continue
        cf = t["dest"][0]
        nb = t.get("t")
        if nb is None:
            continue
        # follow gotos to the switch on discr(cf)
        sw = find_switch_on_discr(body, nb, cf)
        if sw is None:
            continue
        sbb, st = sw
        for v, tgt in st["vals"]:
            if v == 1:  # ControlFlow::Break
                out.append((sbb, tgt))
    return out


def find_switch_on_discr(body, start_bb, local, maxhop=4):
    """starting at start_bb, find the switch whose operand is discr(local)."""
    b = start_bb
    for _ in range(maxhop):
        t = body.term(b)
        if t["k"] == "switch":
            pl = op_place(t["op"])
            if pl is not None:
                for s in body.stmts(b):
                    if "lhs" in s and P(s["lhs"]) == pl and s["rv"]["k"] == "discr" and s["rv"]["place"][0] == local:
                        return b, t
            return None
        if t["k"] == "goto":
            b = t["t"]
            continue
        return None
    return None


def closure_id_of_operand(body, op):
    ch = body.chase(op)
    if ch[0] == "const" and "closure" in ch[1]:
        return ch[1]["closure"]
    if ch[0] == "rv" and ch[1].get("k") == "aggr" and "closure" in ch[1]:
        return ch[1]["closure"]
    # operand typed as closure: look at the local's type string
    pl = op_place(op)
    if pl is not None:
        ty = body.local_ty(pl[0])
        if "{closure" in ty:
            return None
    return None


def err_closure_close_edges(prog, body, is_close_callee):
    """Edges closed through the idiom  `expr.inspect_err(|_| close())?` (also map_err / or_else):
    the closure runs exactly when the value is Err, so the Break successor of the `?` that
    consumes the call's result is closed."""
    edges = []
    detail = []
    for b, t, c in calls_to(body, lambda c: c.path.startswith("std::result::Result") and c.path.split("::")[-1] in ("inspect_err", "map_err", "or_else")):
        if len(t["args"]) < 2:
            continue
        cid = closure_id_of_operand(body, t["args"][1])
        if cid is None or cid not in prog.bodies:
            continue
        cb = prog.bodies[cid]
        if not calls_to(cb, is_close_callee):
            continue
        r = t["dest"][0]
        for e in try_break_edges(body, r):
            edges.append(e)
            detail.append((b, t.get("line"), c.path.split("::")[-1]))
    return edges, detail


def _result_root(body, op):
    """the local a Result value lives in, followed back through moves / copies / references"""
    pl = op_place(op)
    for _ in range(6):
        if pl is None or [p for p in pl[1] if p != "*"]:
            return None
        d = body.single_def(pl[0])
        if d is None or d[1] == TERM:
            return pl[0]
        rv = d[2]
        if rv["k"] in ("use", "cast"):
            nxt = op_place(rv["op"])
        elif rv["k"] == "ref":
            nxt = P(rv["place"])
        else:
            return pl[0]
        if nxt is None:
            return pl[0]
        pl = nxt
    return pl[0] if pl else None


def _variant_tests(body):
    """{switch block: (result local, {successor: 'Ok' | 'Err'})} for `if r.is_err()` / `is_ok()` tests and for the
    Continue / Break test of `r?` - the places where a path learns, or must respect, which variant a Result holds"""
    out = {}
    for b, t in body.calls():
        if "fn" not in t or not t.get("args") or not t.get("dest") or t["dest"][1] or t.get("t") is None:
            continue
        c = Callee(t["fn"])
        last = c.path.split("::")[-1]
        if last in ("is_err", "is_ok") and "Result" in c.path:
            r = _result_root(body, t["args"][0])
            if r is None:
                continue
            x = t["t"]
            for _ in range(4):
                st = body.term(x)
                if st["k"] == "switch":
                    o = origin(body, st["op"], carriers={})
                    neg = o[0] == "rv" and o[1].get("k") == "unop" and o[1].get("op") == "Not"
                    if neg:
                        o = origin(body, o[1]["a"], carriers={})
                    if o[0] == "call" and o[1] == b:
                        tt, ft = switch_targets_bool(st)
                        yes, no = ("Err", "Ok") if last == "is_err" else ("Ok", "Err")
                        if neg:
                            yes, no = no, yes
                        out[x] = (r, {tt: yes, ft: no})
                    break
                if st["k"] == "goto":
                    x = st["t"]
                else:
                    break
        elif c.decl_path == "std::ops::Try::branch":
            r = _result_root(body, t["args"][0])
            sw = find_switch_on_discr(body, t["t"], t["dest"][0]) if r is not None else None
            if sw:
                m = {tgt: ("Ok" if v == 0 else "Err") for v, tgt in sw[1]["vals"]}
                if sw[1]["otherwise"] not in m and len(m) == 1:
                    m[sw[1]["otherwise"]] = "Err" if "Ok" in m.values() else "Ok"
                out[sw[0]] = (r, m)
    return out


def escapes(body, open_site, close_sites, closed_edges=(), exits=None):
    """Paths from just after `open_site` to a return that avoid every close site.
    Returns a list of block paths (each a list of bbs ending at a `ret`).  A path that tested a Result with
    is_err() / is_ok() keeps to the matching edge when the same Result is propagated with `?` later on."""
    vt = _variant_tests(body)
    if len({r for (r, _m) in vt.values()}) < len(vt):
        # some Result is tested twice: search over (block, what the path knows) states
        closes = {}
        for (bb, idx) in close_sites:
            closes.setdefault(bb, []).append(pos_of(body, (bb, idx)))
        closed = set(closed_edges)
        bb0, _ = open_site
        p0 = pos_of(body, open_site)
        if any(p > p0 for p in closes.get(bb0, [])):
            return []
        out, parent, work = [], {}, []

        def step(b, facts):
            res = []
            for s2 in body.succ[b]:
                if (b, s2) in closed:
                    continue
                f2 = facts
                if b in vt:
                    r, m = vt[b]
                    v = m.get(s2)
                    known = dict(facts).get(r)
                    if v is not None and known is not None and known != v:
                        continue  # infeasible: the path already knows the other variant
                    if v is not None and known is None:
                        f2 = frozenset(dict(facts, **{r: v}).items()) if False else frozenset(list(facts) + [(r, v)])
                res.append((s2, f2))
            return res

        for st0 in step(bb0, frozenset()):
            if st0 not in parent:
                parent[st0] = None
                work.append(st0)
        steps = 0
        while work and steps < 60000:
            steps += 1
            cur = work.pop()
            b, facts = cur
            if b in closes:
                continue
            t = body.term(b)
            if t["k"] == "ret" or (exits and b in exits):
                path, x = [b], cur
                while parent.get(x) is not None and len(path) < 400:
                    x = parent[x]
                    path.append(x[0])
                path.append(bb0)
                out.append(list(reversed(path)))
                continue
            for nxt in step(b, facts):
                if nxt not in parent:
                    parent[nxt] = cur
                    work.append(nxt)
        return out
    closes = {}
    for (bb, idx) in close_sites:
        closes.setdefault(bb, []).append(pos_of(body, (bb, idx)))
    closed_edges = set(closed_edges)
    bb0, _ = open_site
    p0 = pos_of(body, open_site)
    if any(p > p0 for p in closes.get(bb0, [])):
        return []
    out = []
    parent = {}
    work = []
    for s in body.succ[bb0]:
        if (bb0, s) not in closed_edges and s not in parent:
            parent[s] = bb0
            work.append(s)
    while work:
        b = work.pop()
        if b in closes:
            continue
        t = body.term(b)
        if t["k"] == "ret" or (exits and b in exits):
            path = [b]
            x = b
            while x != bb0 and x in parent:
                x = parent[x]
                path.append(x)
                if len(path) > 400:
                    break
            out.append(list(reversed(path)))
            continue
        for s in body.succ[b]:
            if s not in parent and (b, s) not in closed_edges:
                parent[s] = b
                work.append(s)
    return out


def path_lines(body, path):
    ls = []
    for b in path:
        ln = body.term(b).get("line")
        if ln and (not ls or ls[-1] != ln):
            ls.append(ln)
    return ls


# ---------------------------------------------------------------------------
# misc helpers
# ---------------------------------------------------------------------------

def switch_targets_bool(t):
    """for a switch on a bool: (true_target, false_target)"""
    false_t = None
    for v, tgt in t["vals"]:
        if v == 0:
            false_t = tgt
    return t["otherwise"], false_t


def assigns_result_variant(body, blocks, variant):
    """does any block in `blocks` assign Result::<variant> to _0 ?"""
    for b in blocks:
        for s in body.stmts(b):
            if "lhs" in s and (s["lhs"][0] == 0 or (variant == "Err" and s["lhs"][0] in body.ret_locals)) and not s["lhs"][1]:
                rv = s["rv"]
                if rv["k"] == "aggr" and rv.get("adt") == "std::result::Result" and rv.get("variant") == variant:
                    return True
    return False


def constructs_variant(body, blocks, adt, variant):
    for b in blocks:
        for s in body.stmts(b):
            rv = s.get("rv")
            if rv and rv["k"] == "aggr" and rv.get("adt") == adt and rv.get("variant") == variant:
                return True
    return False


def enum_variant_index(prog, adt_path, variant):
    it = prog.adt(adt_path)
    for i, v in enumerate(it["variants"]):
        if v["name"] == variant:
            return i
    return None


def defining_binop(body, op, want_block=None):
    """If operand's value is a BinaryOp result (through copies), return (bb, idx, rvalue)."""
    ch = body.chase(op)
    if ch[0] == "rv" and ch[1]["k"] == "binop":
        return ch[1], ch[2]
    return None, None


# ---------------------------------------------------------------------------
# def/use helpers
# ---------------------------------------------------------------------------

def operands_of_rvalue(rv):
    ops = [rv.get(k) for k in ("op", "a", "b") if isinstance(rv.get(k), dict)]
    ops += list(rv.get("ops", []))
    return ops


def uses_of(body, local):
    """[(bb, idx|TERM, node, how)] where the local is read (any projection).
    how: 'operand' | 'ref' | 'discr' | 'arg' | 'switch' | 'drop' | 'assert' | 'lhs-base'"""
    out = []
    for b, i, s in body.all_stmts():
        rv = s.get("rv")
        if not rv:
            continue
        for o in operands_of_rvalue(rv):
            pl = op_place(o)
            if pl is not None and pl[0] == local:
                out.append((b, i, s, "operand"))
                break
        else:
            if rv.get("k") in ("ref", "discr", "rawptr") and rv["place"][0] == local:
                out.append((b, i, s, rv["k"]))
        if "lhs" in s and s["lhs"][0] == local and s["lhs"][1]:
            out.append((b, i, s, "lhs-base"))
    for b in sorted(body.reachable):
        t = body.term(b)
        for a in t.get("args", []):
            pl = op_place(a)
            if pl is not None and pl[0] == local:
                out.append((b, TERM, t, "arg"))
                break
        if t["k"] == "switch":
            pl = op_place(t["op"])
            if pl is not None and pl[0] == local:
                out.append((b, TERM, t, "switch"))
        if t["k"] == "drop" and t["place"][0] == local:
            out.append((b, TERM, t, "drop"))
        if t["k"] == "assert":
            pl = op_place(t["cond"])
            if pl is not None and pl[0] == local:
                out.append((b, TERM, t, "assert"))
    return out


def forward_value_uses(body, local, depth=6):
    """Follow a temp forward through plain copies/moves/casts; yield the final consumers
    [(bb, idx, node, how, via_cast)]."""
    out = []
    work = [(local, False, depth)]
    seen = set()
    while work:
        l, cast, d = work.pop()
        if l in seen or d <= 0:
            continue
        seen.add(l)
        for (b, i, node, how) in uses_of(body, l):
            if how == "operand" and i != TERM:
                rv = node["rv"]
                if rv["k"] in ("use", "cast") and not node["lhs"][1]:
                    work.append((node["lhs"][0], cast or rv["k"] == "cast", d - 1))
                    continue
                if rv["k"] == "aggr" and rv.get("ak") == "tuple" and not node["lhs"][1]:
                    # `let (a, b) = (x, y);`: the value travels through component k of a temporary tuple
                    ks = [k for k, o in enumerate(rv["ops"]) if (op_place(o) or (None,))[0] == l and not (op_place(o) or (0, ()))[1]]
                    tl = node["lhs"][0]
                    moved = False
                    for k in ks:
                        for b2, i2, s2 in body.all_stmts():
                            rv2 = s2.get("rv") or {}
                            if "lhs" in s2 and not s2["lhs"][1] and rv2.get("k") in ("use", "cast"):
                                pl2 = op_place(rv2.get("op"))
                                if pl2 is not None and pl2[0] == tl and tuple(pl2[1]) == (f".{k}",):
                                    work.append((s2["lhs"][0], cast or rv2["k"] == "cast", d - 1))
                                    moved = True
                    if moved:
                        continue
            out.append((b, i, node, how, cast))
    return out


CMP_OPS = {"Gt", "Ge", "Lt", "Le", "Eq", "Ne"}
MIRROR = {"Gt": "Lt", "Lt": "Gt", "Ge": "Le", "Le": "Ge", "Eq": "Eq", "Ne": "Ne"}


def increments_of(body, place):
    """sites `place = place + const 1` (through the checked-add lowering). place: canonical P."""
    out = []
    for b, i, s in body.all_stmts():
        if "lhs" not in s or P(s["lhs"]) != place:
            continue
        rv = s["rv"]
        src = None
        if rv["k"] == "use":
            pl = op_place(rv["op"])
            if pl is not None and pl[1] == (".0",):
                d = body.single_def(pl[0])
                if d and d[1] != TERM and d[2]["k"] == "binop":
                    src = d[2]
        elif rv["k"] == "binop":
            src = rv
        if src and src["op"] in ("Add", "AddWithOverflow", "AddUnchecked"):
            a, c = src["a"], src["b"]
            if op_place(a) == place and const_int(c) == 1:
                out.append((b, i, s))
            elif op_place(c) == place and const_int(a) == 1:
                out.append((b, i, s))
    return out


def loop_containing(body, bb):
    """innermost natural loop (header, blocks) containing bb, or None"""
    best = None
    for h, blocks in body.loops.items():
        if bb in blocks and (best is None or len(blocks) < len(best[1])):
            best = (h, blocks)
    return best


# ---------------------------------------------------------------------------
# D1: discriminant-consistent (path-sensitive) reachability
# ---------------------------------------------------------------------------

def _variant_count(prog, ty):
    if ty.startswith("std::result::Result<") or ty.startswith("std::option::Option<") or ty.startswith("std::ops::ControlFlow<"):
        return 2
    if prog is not None:
        base = ty.split("<")[0]
        it = prog.item(base, "adt")
        if it is not None:
            return len(it["variants"])
    return None


def switch_discr_place(body, bb):
    """if block bb ends in `switch discr(place)`, return (place, ty) else None"""
    t = body.term(bb)
    if t["k"] != "switch":
        return None
    pl = op_place(t["op"])
    if pl is None:
        return None
    for s in reversed(body.stmts(bb)):
        if "lhs" in s and P(s["lhs"]) == pl:
            if s["rv"]["k"] == "discr":
                return P(s["rv"]["place"]), s["rv"]["ty"]
            return None
    return None


def _kills(body, bb):
    """locals whose discriminant facts die in this block (assigned, mutably borrowed, call dest)"""
    out = set()
    for s in body.stmts(bb):
        if "lhs" in s:
            out.add(s["lhs"][0])
            rv = s["rv"]
            if rv["k"] == "ref" and rv.get("mut"):
                out.add(rv["place"][0])
            if rv["k"] == "rawptr":
                out.add(rv["place"][0])
    t = body.term(bb)
    if t["k"] == "call" and t.get("dest"):
        out.add(t["dest"][0])
    if t["k"] == "drop":
        out.add(t["place"][0])
    return out


def reach_disc(body, starts, avoid=(), avoid_edges=(), prog=None, cap=48, init=None):
    """Blocks reachable from `starts` along paths that are consistent w.r.t. the discriminants
    tested on the way (a place found to be variant A cannot later be variant B unless it was
    written in between).  Over-approximates feasible paths (facts are dropped when in doubt)."""
    avoid = set(avoid)
    avoid_edges = set(avoid_edges)
    seen = {}  # bb -> set of states
    out = set()
    init = frozenset(init or ())
    work = [(s, init) for s in starts if s not in avoid]
    while work:
        b, st = work.pop()
        states = seen.setdefault(b, set())
        if st in states:
            continue
        if len(states) >= cap:
            if frozenset() in states:
                continue
            st = frozenset()
        states.add(st)
        out.add(b)
        kills = _kills(body, b)
        facts = {p: a for (p, a) in st if p[0] not in kills}
        sd = switch_discr_place(body, b)
        t = body.term(b)
        if sd is not None and sd[0][0] not in _stmt_kills_after_discr(body, b, sd[0]):
            from . import discharge as _D
            place, ty = sd
            place = _D._norm(body, place)
            n = _variant_count(prog, ty)
            listed = [v for v, _ in t["vals"]]
            for v, tgt in t["vals"] + [[None, t["otherwise"]]]:
                if tgt in avoid or (b, tgt) in avoid_edges:
                    continue
                if v is None:
                    allowed = (frozenset(range(n)) - frozenset(listed)) if n is not None else None
                else:
                    allowed = frozenset([v])
                cur = facts.get(place)
                if allowed is not None and cur is not None:
                    allowed = allowed & cur
                elif allowed is None:
                    allowed = cur
                if allowed is not None and len(allowed) == 0:
                    continue  # infeasible edge
                nf = dict(facts)
                if allowed is not None:
                    nf[place] = allowed
                work.append((tgt, frozenset(nf.items())))
        else:
            for s in body.succ[b]:
                if s in avoid or (b, s) in avoid_edges:
                    continue
                work.append((s, frozenset(facts.items())))
    return out


def _stmt_kills_after_discr(body, bb, place):
    return set()


# ---------------------------------------------------------------------------
# A10 who-may-write
# ---------------------------------------------------------------------------

def _field_pos(prog, body, place, field, owner):
    """index of `.field` in the projection list if the owning ADT matches (or is unknown)"""
    local, proj = place
    for i, p in enumerate(proj):
        if p == "." + field:
            o = prog.field_owner(body, (local, proj[: i + 1]))
            if o is None or owner is None or o == owner:
                return i
    return None


def field_writers(prog, field, owner=None):
    """{body.path: [(bb, idx, kind)]}: assignments into / mutable borrows of `<owner>.field`"""
    out = {}
    for body in prog.bodies.values():
        sites = []
        for b, i, s in body.all_stmts():
            if "lhs" not in s:
                continue
            lhs = P(s["lhs"])
            if _field_pos(prog, body, lhs, field, owner) is not None:
                sites.append((b, i, "assign"))
            rv = s["rv"]
            if rv["k"] in ("ref", "rawptr") and (rv.get("mut") or rv["k"] == "rawptr"):
                if _field_pos(prog, body, P(rv["place"]), field, owner) is not None:
                    sites.append((b, i, "mut-borrow"))
        for b, t in body.calls():
            d = t.get("dest")
            if d and _field_pos(prog, body, P(d), field, owner) is not None:
                sites.append((b, TERM, "call-dest"))
        if sites:
            out[body.path] = sites
    return out


def field_readers(prog, field, owner=None):
    """{body.path: n} bodies that mention `<owner>.field` in any place (read or write)"""
    out = {}
    for body in prog.bodies.values():
        n = 0
        for b, i, s in body.all_stmts():
            rv = s.get("rv")
            if not rv:
                continue
            places = [op_place(o) for o in operands_of_rvalue(rv)]
            if rv.get("k") in ("ref", "discr", "rawptr"):
                places.append(P(rv["place"]))
            for pl in places:
                if pl is not None and _field_pos(prog, body, pl, field, owner) is not None:
                    n += 1
        if n:
            out[body.path] = n
    return out


# ---------------------------------------------------------------------------
# value origins (backward slice over single definitions, through calls that "carry" a value)
# ---------------------------------------------------------------------------

CARRIERS = {
    # callee last segment -> argument index whose value is carried to the result
    "clone": 0, "cloned": 0, "copied": 0, "as_ref": 0, "as_mut": 0, "as_str": 0, "as_deref": 0, "deref": 0, "deref_mut": 0,
    "borrow": 0, "to_owned": 0, "to_string": 0, "into": 0, "from": 0, "ok_or_else": 0, "ok_or": 0, "inspect_err": 0, "map_err": 0,
    "unwrap_or_default": 0, "as_slice": 0, "into_iter": 0, "iter": 0, "branch": 0, "unwrap": 0, "expect": 0,
}


def origin(body, op_or_place, depth=16, carriers=CARRIERS):
    """Follow a value backwards to the call / constant / argument / field it comes from.
    Passes through copies, refs, derefs, downcasts (`as Some`/`as Ok`/`as Continue`), tuple
    fields of temporaries and the carrier calls above.
    Returns ('call', bb, term) | ('const', k) | ('arg', local) | ('field', place) | ('unknown', x)"""
    if isinstance(op_or_place, dict):
        k = op_const(op_or_place)
        if k is not None:
            return ("const", body.resolve_const(k))
        pl = op_place(op_or_place)
    else:
        pl = op_or_place
    while depth > 0 and pl is not None:
        depth -= 1
        local, proj = pl
        named = [p for p in proj if p.startswith(".") and not p[1:].isdigit()]
        if named:
            return ("field", pl)
        if any(p in ("as Break", "as Err", "as None") for p in proj):
            return ("unknown", pl)  # the error side of a carrier, not the carried value
        if 0 < local <= body.argc:
            return ("arg", local)
        d = body.single_def(local)
        if d is None:
            # several defs: unknown unless all are the same kind of call
            return ("unknown", pl)
        b, i, rv = d
        if i == TERM:
            t = rv
            if "fn" in t:
                c = Callee(t["fn"])
                last = c.path.split("::")[-1]
                if "map_err" in carriers and c.local and "svgdx::errors::" in c.path and len(t["args"]) >= 1 and last not in carriers:
                    # a helper of the crate's error module applied to a Result (`res.or_other()`): like map_err, the
                    # value it carries is its first operand
                    last = "map_err"
                if last in carriers and len(t["args"]) > carriers[last]:
                    a = t["args"][carriers[last]]
                    k = op_const(a)
                    if k is not None:
                        return ("const", body.resolve_const(k))
                    pl = op_place(a)
                    continue
            return ("call", b, t)
        if rv["k"] in ("use", "cast"):
            k = op_const(rv["op"])
            if k is not None:
                return ("const", body.resolve_const(k))
            pl = op_place(rv["op"])
            continue
        if rv["k"] == "ref":
            pl = P(rv["place"])
            continue
        if rv["k"] == "aggr" and rv["ak"] == "tuple":
            idxs = [p for p in proj if p.startswith(".") and p[1:].isdigit()]
            if idxs:
                n = int(idxs[0][1:])
                if n < len(rv["ops"]):
                    a = rv["ops"][n]
                    k = op_const(a)
                    if k is not None:
                        return ("const", k)
                    pl = op_place(a)
                    continue
                return ("unknown", pl)
            return ("rv", rv, b)
        return ("rv", rv, b)
    return ("unknown", pl)


def origin_local(body, op_or_place, depth=16):
    """the named user local (or argument) a reference/clone ultimately points to, if any"""
    if isinstance(op_or_place, dict):
        pl = op_place(op_or_place)
    else:
        pl = op_or_place
    while depth > 0 and pl is not None:
        depth -= 1
        local, proj = pl
        if body.local_name(local) and not [p for p in proj if p != "*"]:
            return local
        if [p for p in proj if p != "*"]:
            return None
        d = body.single_def(local)
        if d is None or d[1] == TERM:
            if d and "fn" in d[2]:
                c = Callee(d[2]["fn"])
                if c.path.split("::")[-1] in ("deref", "deref_mut", "as_ref", "as_mut", "borrow", "borrow_mut", "as_slice", "as_mut_slice", "as_str") and d[2]["args"]:
                    pl = op_place(d[2]["args"][0])
                    continue
            return None
        rv = d[2]
        if rv["k"] in ("use", "cast"):
            pl = op_place(rv["op"])
        elif rv["k"] == "ref":
            pl = P(rv["place"])
        else:
            return None
    return None


def call_origin_path(body, op):
    o = origin(body, op)
    if o[0] == "call" and "fn" in o[2]:
        return Callee(o[2]["fn"]).path, o
    return None, o


def control_dependent_only_via(body, target_bb, edge, prog=None, path_sensitive=False):
    """True iff every (discriminant-consistent, when path_sensitive) path from entry to target_bb
    takes `edge` (a, b)."""
    if path_sensitive:
        r = reach_disc(body, [0], avoid_edges=[edge], prog=prog)
    else:
        r = body.reach([0], avoid_edges=[edge])
    return target_bb not in r


def reach_boolconst(body, starts):
    """reachability that follows only the matching edge of a `switch` on a bool local whose last assignment
    on the path was a constant (the lowering of `matches!(..)` and of `a || b` into a temp)."""
    seen = set()
    out = set()
    work = [(s, frozenset()) for s in starts]
    while work:
        b, st = work.pop()
        if (b, st) in seen:
            continue
        seen.add((b, st))
        out.add(b)
        facts = dict(st)
        for s in body.stmts(b):
            if "lhs" in s and not s["lhs"][1]:
                l = s["lhs"][0]
                v = const_bool(s["rv"].get("op")) if s["rv"]["k"] == "use" else None
                if v is not None:
                    facts[l] = v
                else:
                    facts.pop(l, None)
        t = body.term(b)
        if t["k"] == "call" and t.get("dest") and not t["dest"][1]:
            facts.pop(t["dest"][0], None)
        if t["k"] == "switch":
            pl = op_place(t["op"])
            if pl is not None and not pl[1] and pl[0] in facts:
                tt, ft = switch_targets_bool(t)
                work.append((tt if facts[pl[0]] else ft, frozenset(facts.items())))
                continue
        for s_ in body.succ[b]:
            work.append((s_, frozenset(facts.items())))
    return out


# ---------------------------------------------------------------------------
# may-reachability under an assumption (necessary-condition rules)
# ---------------------------------------------------------------------------
def may_reach(body, targets, decide, start=0, avoid=(), cap=40000):
    """Is some block of `targets` reachable from `start` when `decide(bb, term)` restricts the successors of the
    switches it understands (it returns the list of allowed successor blocks, or None for 'all')?  Everything the
    decider does not understand stays non-deterministic, so the answer over-approximates: False is a proof that the
    targets cannot be reached under the assumption.  Bool locals that a path sets to a constant (`a && (b || c)`
    stored in a flag, `matches!`) are followed to the switch that tests them."""
    targets = set(targets)
    avoid = set(avoid)
    seen = set()
    work = [(start, frozenset())]
    steps = 0
    while work:
        b, st = work.pop()
        if b in avoid or (b, st) in seen:
            continue
        seen.add((b, st))
        steps += 1
        if steps > cap:
            return True
        if b in targets:
            return True
        facts = dict(st)
        for stt in body.stmts(b):
            if "lhs" not in stt or stt["lhs"][1]:
                continue
            l = stt["lhs"][0]
            rv = stt["rv"]
            cb = const_bool(rv["op"]) if rv.get("k") == "use" else None
            src = op_place(rv["op"]) if rv.get("k") == "use" else None
            if cb is not None:
                facts[l] = bool(cb)
            elif src is not None and not src[1] and src[0] in facts:
                facts[l] = facts[src[0]]
            else:
                facts.pop(l, None)
        t = body.term(b)
        allowed = decide(b, t) if t["k"] == "switch" else None
        if t["k"] == "switch" and allowed is None:
            pl = op_place(t["op"])
            if pl is not None and not pl[1] and pl[0] in facts:
                tt, ft = switch_targets_bool(t)
                allowed = [tt] if facts[pl[0]] else [ft]
        elif t["k"] == "call" and t.get("dest") and not t["dest"][1]:
            cv = getattr(decide, "call_value", None)
            v = cv(b, t) if cv is not None else None
            if v is None:
                facts.pop(t["dest"][0], None)
            else:
                facts[t["dest"][0]] = bool(v)  # a test whose outcome the assumption fixes, stored before it is branched on
        nst = frozenset(facts.items())
        for s in body.succs(b):
            if allowed is None or s in allowed:
                work.append((s, nst))
    return False


def option_assumption(body, assume):
    """decider for may_reach: `assume` maps the block of a call that produces an Option to the variant index it is
    assumed to have (0 = None, 1 = Some).  Understands `switch discr(p)` and `switch is_some(&p)/is_none(&p)` where p
    is a copy / reference / tuple field of that call's result."""

    def src(pl_or_op):
        o = origin(body, pl_or_op, carriers={})
        if o[0] == "call" and o[1] in assume:
            return assume[o[1]]
        return None

    def decide(bb, t):
        sd = switch_discr_place(body, bb)
        if sd is not None:
            v = src(sd[0])
            if v is None:
                return None
            listed = dict((val, tgt) for val, tgt in t["vals"])
            return [listed[v]] if v in listed else [t["otherwise"]]
        o = origin(body, t["op"], carriers={})
        neg = False
        if o[0] == "rv" and o[1].get("k") == "unop" and o[1].get("op") == "Not":
            neg = True
            o = origin(body, o[1]["a"], carriers={})
        if o[0] == "call" and "fn" in o[2]:
            last = Callee(o[2]["fn"]).path
            if last in ("std::option::Option::<T>::is_some", "std::option::Option::<T>::is_none") and o[2]["args"]:
                v = src(o[2]["args"][0])
                if v is None:
                    return None
                truth = (v == 1) == last.endswith("is_some")
                if neg:
                    truth = not truth
                tt, ft = switch_targets_bool(t)
                return [tt] if truth else [ft]
        return None

    def call_value(bb, t):
        if "fn" not in t or not t.get("args"):
            return None
        last = Callee(t["fn"]).path
        if last in ("std::option::Option::<T>::is_some", "std::option::Option::<T>::is_none"):
            v = src(t["args"][0])
            if v is not None:
                return (v == 1) == last.endswith("is_some")
        return None

    decide.call_value = call_value
    return decide


def equality_assumption(body, is_subject):
    """decider for may_reach: every comparison `a OP b` for which is_subject(a_operand, b_operand) holds is evaluated
    at a == b (Ge/Le/Eq true; Gt/Lt/Ne false)."""

    def decide(bb, t):
        o = origin(body, t["op"], carriers={})
        neg = False
        if o[0] == "rv" and o[1].get("k") == "unop" and o[1].get("op") == "Not":
            neg = True
            o = origin(body, o[1]["a"], carriers={})
        if o[0] == "rv" and o[1].get("k") == "binop" and o[1].get("op") in ("Ge", "Le", "Eq", "Gt", "Lt", "Ne"):
            if not is_subject(o[1]["a"], o[1]["b"]):
                return None
            truth = o[1]["op"] in ("Ge", "Le", "Eq")
            if neg:
                truth = not truth
            tt, ft = switch_targets_bool(t)
            return [tt] if truth else [ft]
        return None

    return decide


# ---------------------------------------------------------------------------
# `Err(e)?` / `None?`: the Continue edge of the desugared branch is infeasible
# ---------------------------------------------------------------------------
def try_known_edges(body):
    """{switch block: allowed successor} for switches on the result of Try::branch(x) where x is, at that point, a
    freshly constructed Err/None (only Break is feasible) or Ok/Some (only Continue)"""
    out = {}
    for (bb, t, c) in body.call_sites(lambda c: c.decl_path.endswith("Try::branch")):
        if not t["args"] or not t.get("dest"):
            continue
        o = origin(body, t["args"][0], carriers={})
        variant = None
        if o[0] == "rv" and o[1].get("k") == "aggr" and o[1].get("adt") in ("std::result::Result", "std::option::Option"):
            variant = o[1].get("variant")
        if variant is None:
            continue
        sw = find_switch_on_discr(body, t["t"], t["dest"][0])
        if not sw:
            continue
        sb, st = sw
        m = {v: tgt for v, tgt in st["vals"]}
        want = 1 if variant in ("Err", "None") else 0
        if want in m:
            out[sb] = m[want]
    return out


def reach_try_aware(body, starts):
    known = try_known_edges(body)
    seen = set()
    work = list(starts)
    while work:
        b = work.pop()
        if b in seen:
            continue
        seen.add(b)
        if b in known:
            work.append(known[b])
            continue
        work.extend(body.succs(b))
    return seen


def returns_err(body, blocks):
    """does the region assign an Err to the return place: `_0 = Err(..)` or `_0 = from_residual(..)` (the `?` exit)"""
    if assigns_result_variant(body, blocks, "Err"):
        return True
    for b in blocks:
        t = body.term(b)
        if t["k"] == "call" and "fn" in t and Callee(t["fn"]).decl_path.endswith("FromResidual::from_residual") and t.get("dest") and t["dest"][0] in body.ret_locals:
            return True
    return False


# ---------------------------------------------------------------------------
# wrapper summaries: a local function all of whose paths perform an operation *is* that operation
# ---------------------------------------------------------------------------
def wrappers_of(prog, targets, forbid=()):
    """paths of local functions F such that every entry->return path of F calls one of `targets` (or an already
    found wrapper) and F calls none of `forbid` (the opposite operation).  Fix-point over wrappers of wrappers."""
    found = set()
    targets = set(targets)
    forbid = set(forbid)
    changed = True
    while changed:
        changed = False
        for b in prog.bodies.values():
            if b.path in found or b.path in targets or b.root:
                continue
            if not b.path.startswith("svgdx"):
                continue
            hits = {bb for (bb, t, c) in b.call_sites(lambda c: c.path in targets or c.path in found)}
            if not hits:
                continue
            if b.call_sites(lambda c: c.path in forbid):
                continue
            rets = set(b.return_blocks)
            if b.reach([0], avoid=hits) & rets:
                continue  # some path returns without performing the operation
            found.add(b.path)
            changed = True
    return found


def call_result_assumption(body, assume):
    """decider for may_reach: `assume` maps a predicate over Callee to the bool its result is assumed to have, for
    every call of that callee in the body: {lambda c: c.path.endswith("is_graphics_element"): True}"""
    fixed = {}
    for pred, val in assume:
        for (bb, t, c) in body.call_sites(pred):
            fixed[bb] = val

    def decide(bb, t):
        o = origin(body, t["op"], carriers={})
        neg = False
        if o[0] == "rv" and o[1].get("k") == "unop" and o[1].get("op") == "Not":
            neg = True
            o = origin(body, o[1]["a"], carriers={})
        if o[0] == "call" and o[1] in fixed:
            truth = fixed[o[1]] != neg
            tt, ft = switch_targets_bool(t)
            return [tt] if truth else [ft]
        return None

    decide.call_value = lambda bb, t: fixed.get(bb)
    return decide


def discr_switches_of(body, local):
    """every `switch` on the discriminant of the value held in `local` - tested directly, through a reference
    (`if let Some(x) = &v`), or after the whole value was moved / copied into another local: [(bb, terminator)]"""
    aliases, work = {local}, [local]
    while work:
        a = work.pop()
        for (b, i, node, how) in uses_of(body, a):
            if i != TERM and "rv" in node and not node["lhs"][1]:
                rv = node["rv"]
                src = op_place(rv.get("op")) if rv["k"] == "use" else (P(rv["place"]) if rv["k"] == "ref" else None)
                if src is not None and src[0] == a and not [p for p in src[1] if p != "*"] and node["lhs"][0] not in aliases:
                    aliases.add(node["lhs"][0])
                    work.append(node["lhs"][0])
            elif i == TERM and node.get("k") == "call" and "fn" in node and node.get("args") and node.get("dest") and not node["dest"][1]:
                # an Option / Result handed through a variant-preserving adapter (`opt.cloned()`, `.as_ref()`, `.copied()`)
                c_ = Callee(node["fn"])
                a0_ = op_place(node["args"][0])
                if a0_ is not None and a0_[0] == a and c_.path.split("::")[-1] in ("cloned", "copied", "clone", "as_ref", "as_mut", "as_deref", "as_deref_mut") and ("Option" in c_.path or "Result" in c_.path or "Option" in (c_.self_ty or "") or "Clone" in c_.decl_path) and node["dest"][0] not in aliases:
                    aliases.add(node["dest"][0])
                    work.append(node["dest"][0])
    out = []
    for b in body.reachable:
        t = body.term(b)
        if t["k"] != "switch":
            continue
        pl = op_place(t["op"])
        if pl is None:
            continue
        for s in body.stmts(b):
            if "lhs" in s and P(s["lhs"]) == pl and s["rv"]["k"] == "discr":
                dp = s["rv"]["place"]
                if dp[0] in aliases and not [p for p in dp[1] if p != "*"]:
                    out.append((b, t))
    return out


def const_flow(body, place, depth=6):
    """the constants that can reach `place` - a bool or field-less enum flag (a local, or a component of a tuple of
    flags) all of whose definitions are constants, possibly through copies: [(value, defining block)] with value a
    bool or a variant name; None when some definition is not a constant (the place is not a flag)"""
    if depth == 0:
        return None
    l, proj = place[0], [p for p in place[1] if p != "*"]
    if len(proj) > 1 or (proj and not re.fullmatch(r"\.\d+", str(proj[0]))):
        return None
    defs = body.defs_of(l)
    if not defs:
        return None
    out = []
    for d in defs:
        if d[1] == TERM:
            return None
        rv = d[2]
        if proj:
            n = int(str(proj[0])[1:])
            if rv["k"] != "aggr" or rv.get("ak") != "tuple" or n >= len(rv["ops"]):
                return None
            o = rv["ops"][n]
        elif rv["k"] == "use":
            o = rv["op"]
        elif rv["k"] == "aggr" and rv.get("ak") == "adt" and not rv.get("ops") and rv.get("variant"):
            out.append((rv["variant"], d[0]))
            continue
        else:
            return None
        k = op_const(o)
        if k is not None:
            if "bool" not in k:
                return None
            out.append((bool(k["bool"]), d[0]))
            continue
        pl = op_place(o)
        if pl is None:
            return None
        sub = const_flow(body, pl, depth - 1)
        if sub is None:
            return None
        out += sub
    return out


def _promoted_variant(body, k):
    """variant name of a promoted constant `&Enum::Variant`"""
    if not isinstance(k, dict) or "promoted" not in k:
        return None
    try:
        pb = body.promoted[k["promoted"]]
    except (IndexError, TypeError):
        return None
    for x in range(pb.n):
        for st in pb.blocks[x]["s"]:
            rv = st.get("rv") or {}
            if rv.get("k") == "aggr" and rv.get("ak") == "adt" and not rv.get("ops") and rv.get("variant"):
                return rv["variant"]
    return None


def flag_test(body, sb):
    """if the switch ending block `sb` tests a constant flag (const_flow): {"flow": [(value, def block)],
    "edge_values": {target block: set of flag values with which that edge is taken}}; None otherwise.
    Understands `if flag`, `if !flag`, `flag == Enum::V` / `!=` (derived PartialEq on a field-less enum) and
    `match flag { .. }`."""
    t = body.term(sb)
    if t["k"] != "switch":
        return None
    o = origin(body, t["op"], carriers={})
    neg = False
    if o[0] == "rv" and o[1].get("k") == "unop" and o[1].get("op") == "Not":
        neg = True
        o = origin(body, o[1]["a"], carriers={})
    tt, ft = switch_targets_bool(t)
    if o[0] == "call" and "fn" in o[2] and Callee(o[2]["fn"]).decl_path in ("std::cmp::PartialEq::eq", "std::cmp::PartialEq::ne") and len(o[2]["args"]) == 2 and tt is not None and ft is not None:
        sides = []
        for a in o[2]["args"]:
            oa = origin(body, a, carriers={})
            if oa[0] == "const":
                sides.append(("const", _promoted_variant(body, oa[1])))
            else:
                ch = body.chase(a)
                pl = ch[1] if ch[0] == "place" else (oa[1] if oa[0] in ("unknown", "field") and isinstance(oa[1], tuple) else None)
                fl = const_flow(body, pl) if pl is not None else None
                sides.append(("flag", fl))
        consts = [v for kk, v in sides if kk == "const" and v is not None]
        flags = [v for kk, v in sides if kk == "flag" and v is not None]
        if len(consts) == 1 and len(flags) == 1:
            allv = {v for v, _b in flags[0]}
            eq = Callee(o[2]["fn"]).decl_path.endswith("::eq") != neg
            hit = {consts[0]} & allv
            return {"flow": flags[0], "edge_values": {tt: (hit if eq else allv - hit), ft: (allv - hit if eq else hit)}}
        return None
    sd = switch_discr_place(body, sb)
    if sd is not None:
        fl = const_flow(body, sd[0])
        if fl is None or any(isinstance(v, bool) for v, _b in fl):
            return None
        return None  # a `match` on the flag: edges by variant index are not needed by the rules so far
    ch = body.chase(t["op"]) if not neg else ("?",)
    pl = op_place(t["op"]) if not neg else None
    if neg:
        pl = op_place(o[1].get("a")) if False else None
    src = None
    if o[0] in ("unknown", "field", "arg") or o[0] == "rv":
        pass
    # a bool flag: the switch operand is (a copy of) a place all of whose definitions are constants
    p0 = op_place(t["op"])
    cand = []
    if p0 is not None:
        cand.append(p0)
        c2 = body.chase(t["op"])
        if c2[0] == "place":
            cand.append(c2[1])
    for c in cand:
        fl = const_flow(body, c)
        if fl is not None and all(isinstance(v, bool) for v, _b in fl) and tt is not None and ft is not None:
            return {"flow": fl, "edge_values": {tt: {True}, ft: {False}}}
    return None


def self_path(body, op_or_place, depth=8):
    """field path below `self` (argument 1) of the place an operand reads / a place names, following copies and
    references - also through the receiver of a spliced method (`&mut self.nesting` handed on, then `.0`): a tuple of
    ".field" projections, or None when the value does not live in self"""
    pl = op_place(op_or_place) if isinstance(op_or_place, dict) else op_or_place
    if pl is None:
        return None
    proj = tuple(str(p_) for p_ in pl[1] if str(p_).startswith("."))
    base = pl[0]
    for _ in range(depth):
        if base == 1:
            return proj
        d = body.single_def(base)
        if d is None or d[1] == TERM:
            return None
        rv = d[2]
        src = P(rv["place"]) if rv.get("k") == "ref" else (op_place(rv.get("op")) if rv.get("k") in ("use", "cast") else None)
        if src is None:
            return None
        proj = tuple(str(p_) for p_ in src[1] if str(p_).startswith(".")) + proj
        base = src[0]
    return None



def _bool_subject(body, b):
    """(root local, negated) of the bool a switch tests, when it is a value assigned exactly once (followed back
    through copies and `!`): its value is the same at every test.  None otherwise"""
    t = body.term(b)
    if t["k"] != "switch" or switch_discr_place(body, b) is not None:
        return None
    pl = op_place(t["op"])
    neg = False
    for _ in range(8):
        if pl is None or pl[1]:
            return None
        if body.local_ty(pl[0]) != "bool":
            return None
        ds = body.defs_of(pl[0])
        if len(ds) > 1 and all(d_[1] != TERM and d_[2].get("k") == "use" and isinstance((op_const(d_[2].get("op")) or {}).get("bool", (op_const(d_[2].get("op")) or {}).get("int")), (bool, int)) for d_ in ds):
            return pl[0], neg  # a flag: every assignment is a constant, the path knows which one it passed last
        if len(ds) != 1:
            return None
        d = ds[0]
        if d[1] == TERM:
            return pl[0], neg
        rv = d[2]
        if rv["k"] == "use" and op_place(rv["op"]) is not None:
            pl = op_place(rv["op"])
            continue
        if rv["k"] == "unop" and rv.get("op") == "Not" and op_place(rv.get("a")) is not None:
            neg = not neg
            pl = op_place(rv["a"])
            continue
        return pl[0], neg
    return None


def feasible_reach(body, starts, goals, avoid=(), cap=60000):
    """is some block of `goals` reachable from `starts` without entering `avoid`, on a path that answers every test of
    the same once-assigned bool the same way?  (`let a = f(); let b = g(); if !(a || b) { return } if a {..} if b {..}`:
    no path skips both arms)"""
    goals, avoid = set(goals), set(avoid)
    seen, work, steps = set(), [(s_, frozenset()) for s_ in starts], 0
    while work:
        b, facts = work.pop()
        if (b, facts) in seen or b in avoid:
            continue
        seen.add((b, facts))
        steps += 1
        if steps > cap:
            return True
        if b in goals:
            return True
        # a once-assigned value defined here is a new value (loops); a flag assigned a constant here has that value
        fd = dict(facts)
        for k in list(fd):
            if any(d[0] == b for d in body.defs_of(k)):
                del fd[k]
        for s_ in body.stmts(b):
            if "lhs" in s_ and not s_["lhs"][1] and s_["rv"].get("k") == "use" and body.local_ty(s_["lhs"][0]) == "bool":
                kc = op_const(s_["rv"].get("op"))
                if kc is not None and len(body.defs_of(s_["lhs"][0])) > 1:
                    v_ = kc.get("bool", kc.get("int"))
                    if isinstance(v_, (bool, int)):
                        fd[s_["lhs"][0]] = bool(v_)
        facts = frozenset(fd.items())
        bs = _bool_subject(body, b)
        if bs is not None:
            r, neg = bs
            tt, ft = switch_targets_bool(body.term(b))
            known = dict(facts).get(r)
            for tgt, val in ((tt, True), (ft, False)):
                v = (not val) if neg else val
                if known is not None and known != v:
                    continue
                work.append((tgt, facts if known is not None else frozenset(list(facts) + [(r, v)])))
            continue
        for s_ in body.succ[b]:
            work.append((s_, facts))
    return False



def result_components(body, op):
    """the parts of a generated result - a pair (events, box) or a struct that carries the two - as operands, by type:
    {"events": [..OutputList operands..], "bbox": [..Option<BoundingBox> operands..]}; None when the value is not built
    by an aggregate the function itself constructs"""
    pl = op_place(op)
    d = body.single_def(pl[0]) if pl is not None and not pl[1] else None
    for _ in range(3):
        if d and d[1] != TERM and d[2]["k"] == "use" and op_place(d[2]["op"]) is not None and not op_place(d[2]["op"])[1]:
            d = body.single_def(op_place(d[2]["op"])[0])
        else:
            break
    if not d or d[1] == TERM or d[2]["k"] != "aggr":
        return None
    out = {"events": [], "bbox": []}
    for o in d[2].get("ops", []):
        opl = op_place(o)
        ty = str(body.local_ty(opl[0])) if opl is not None and not opl[1] else str((o.get("k") or {}).get("ty", "")) if isinstance(o, dict) else ""
        if "Option<svgdx::position::BoundingBox>" in ty:
            out["bbox"].append(o)
        elif ty.strip() == "svgdx::events::OutputList":
            out["events"].append(o)
    return out if (out["events"] or out["bbox"]) else None
