"""Run the rustc_private driver over a checkout of svgdx and load the fact files.

Nothing here executes svgdx: `cargo +nightly check` only type-checks; the driver
(RUSTC_WORKSPACE_WRAPPER) dumps MIR / typed HIR / item tables as JSON.

Freshness: facts are cached by a SHA-256 over the analysed tree's sources
(src/**, Cargo.toml, Cargo.lock), the feature configuration and the driver
binary.  Every check recomputes the hash from the working tree, so an edited
/repo is always re-analysed.  A nonce handed to the driver is checked in the
fact file so a replayed cargo cache can never be mistaken for an analysis.
"""
import fcntl
import hashlib
import json
import os
import shutil
import subprocess
import time

VERIF = os.path.dirname(os.path.dirname(os.path.dirname(os.path.abspath(__file__))))
CACHE = os.path.join(VERIF, ".cache")
DRIVER = os.path.join(VERIF, "driver", "target", "debug", "svgdx-sa")
TARGET = os.path.join(CACHE, "target")

CONFIGS = {
    # name -> cargo feature arguments
    "default": [],
    "nodefault": ["--no-default-features"],
    "cli": ["--no-default-features", "--features", "cli"],
    "server": ["--no-default-features", "--features", "server"],
}


def _sysroot():
    return subprocess.check_output(["rustc", "+nightly", "--print", "sysroot"], text=True).strip()


def tree_hash(repo, config="default"):
    h = hashlib.sha256()
    h.update(config.encode())
    files = []
    for root, dirs, fs in os.walk(os.path.join(repo, "src")):
        dirs.sort()
        for f in sorted(fs):
            files.append(os.path.join(root, f))
    for f in ("Cargo.toml", "Cargo.lock"):
        files.append(os.path.join(repo, f))
    for f in files:
        h.update(os.path.relpath(f, repo).encode())
        try:
            with open(f, "rb") as fh:
                h.update(fh.read())
        except OSError:
            h.update(b"<missing>")
    with open(DRIVER, "rb") as fh:
        h.update(hashlib.sha256(fh.read()).digest())
    return h.hexdigest()[:24]


def ensure_driver():
    if not os.path.exists(DRIVER):
        subprocess.check_call(
            ["cargo", "build", "--offline"],
            cwd=os.path.join(VERIF, "driver"),
            env=dict(os.environ, CARGO_NET_OFFLINE="true"),
        )


def run_driver(repo, config="default", target=None):
    """Analyse `repo` and return the directory holding facts-*.json."""
    ensure_driver()
    os.makedirs(CACHE, exist_ok=True)
    key = tree_hash(repo, config)
    out = os.path.join(CACHE, "facts", key)
    done = os.path.join(out, "DONE")
    if os.path.exists(done):
        try:
            os.utime(out, None)  # most recently used: never the first candidate of a concurrent prune
        except OSError:
            pass
        return out
    lock = open(os.path.join(CACHE, "driver.lock"), "w")
    fcntl.flock(lock, fcntl.LOCK_EX)
    try:
        if os.path.exists(done):
            return out
        if os.path.exists(out):
            shutil.rmtree(out)
        os.makedirs(out)
        target = target or TARGET
        # force cargo to re-invoke the wrapper for the workspace member
        fp = os.path.join(target, "debug", ".fingerprint")
        if os.path.isdir(fp):
            for d in os.listdir(fp):
                if d.startswith("svgdx-"):
                    shutil.rmtree(os.path.join(fp, d), ignore_errors=True)
        nonce = hashlib.sha256(f"{time.time()}{os.getpid()}".encode()).hexdigest()[:16]
        env = dict(os.environ)
        env.update(
            LD_LIBRARY_PATH=_sysroot() + "/lib",
            RUSTFLAGS="-Zmir-opt-level=0 -Awarnings",
            RUSTC_WORKSPACE_WRAPPER=DRIVER,
            CARGO_TARGET_DIR=target,
            CARGO_NET_OFFLINE="true",
            SVGDX_SA_OUT=out,
            SVGDX_SA_NONCE=nonce,
        )
        env.pop("RUSTC_WRAPPER", None)
        cmd = ["cargo", "+nightly", "check", "--offline"] + CONFIGS[config]
        if config == "default":
            cmd += ["--lib", "--bins"]
        else:
            cmd += ["--lib"]
        p = subprocess.run(cmd, cwd=repo, env=env, capture_output=True, text=True)
        if p.returncode != 0:
            shutil.rmtree(out, ignore_errors=True)
            raise RuntimeError("analysis build failed (the tree does not type-check?):\n" + p.stderr[-4000:])
        libf = os.path.join(out, "facts-svgdx-lib.json")
        if not os.path.exists(libf):
            shutil.rmtree(out, ignore_errors=True)
            raise RuntimeError("driver wrote no fact file (cargo replayed a cached unit?)\n" + p.stderr[-2000:])
        with open(libf) as fh:
            head = fh.read(400)
        if nonce not in head:
            shutil.rmtree(out, ignore_errors=True)
            raise RuntimeError("fact file carries a stale nonce")
        with open(done, "w") as fh:
            fh.write(nonce)
        _prune_cache(keep=out)
        return out
    finally:
        fcntl.flock(lock, fcntl.LOCK_UN)
        lock.close()


def _prune_cache(keep, max_entries=40, min_age_s=1800):
    """drop the least recently used fact directories beyond `max_entries`; never one used in the last half hour
    (another check may be reading it right now)"""
    base = os.path.join(CACHE, "facts")
    now = time.time()
    ents = [os.path.join(base, d) for d in os.listdir(base)]
    ents = [e for e in ents if e != keep]
    ents.sort(key=lambda e: os.path.getmtime(e))
    while len(ents) >= max_entries and now - os.path.getmtime(ents[0]) > min_age_s:
        shutil.rmtree(ents.pop(0), ignore_errors=True)


def load(repo="/repo", config="default"):
    for attempt in (0, 1):
        d = run_driver(repo, config)
        units = {}
        try:
            for f in sorted(os.listdir(d)):
                if f.startswith("facts-") and f.endswith(".json"):
                    with open(os.path.join(d, f)) as fh:
                        units[f[len("facts-"):-len(".json")]] = json.load(fh)
            if "svgdx-lib" in units:
                return units
        except (FileNotFoundError, json.JSONDecodeError):
            pass
        # the directory vanished or is incomplete (removed by a concurrent run): rebuild once
        shutil.rmtree(d, ignore_errors=True)
    raise RuntimeError("fact files unavailable after a rebuild")
