"""Linear-form abstract evaluation of HIR expression trees (Karr-style domain, exact rationals).

lin(expr) maps an arithmetic expression to {variable: coefficient, 1: constant} when it is an affine
combination of locals / fields, and to None otherwise (calls, min/max, products of variables ...).
Used to check algebraic identities of constraint tables without evaluating anything."""
from fractions import Fraction

from . import hirq

ONE = 1


def _add(a, b, sign=1):
    out = dict(a)
    for k, v in b.items():
        out[k] = out.get(k, 0) + sign * v
        if out[k] == 0:
            del out[k]
    return out


def _scale(a, f):
    return {k: v * f for k, v in a.items() if v * f != 0}


def _const(a):
    """the rational value of a constant form, else None"""
    if not a:
        return Fraction(0)
    if set(a) == {ONE}:
        return a[ONE]
    return None


def lin(n, env=None):
    env = env or {}
    k = n.get("k")
    if k == "Lit":
        lit = n.get("lit", {})
        v = lit.get("float", lit.get("int"))
        if v is None:
            return None
        try:
            return {ONE: Fraction(str(v).rstrip("."))} if Fraction(str(v).rstrip(".")) != 0 else {}
        except (ValueError, ZeroDivisionError):
            return None
    if k == "Path":
        l = (n.get("res") or {}).get("local")
        if l is None:
            return None
        if l in env:
            return env[l]
        return {l: Fraction(1)}
    if k == "Field":
        fc = hirq.field_chain(n)
        if fc:
            return {".".join(fc): Fraction(1)}
        return None
    if k == "Unary" and n.get("op") == "Neg":
        a = lin(n["x"], env)
        return None if a is None else _scale(a, Fraction(-1))
    if k in ("Paren", "DropTemps", "Type") and isinstance(n.get("x"), dict):
        return lin(n["x"], env)
    if k == "Binary":
        a = lin(n["l"], env)
        b = lin(n["r"], env)
        if a is None or b is None:
            return None
        op = n["op"]
        if op == "Add":
            return _add(a, b)
        if op == "Sub":
            return _add(a, b, -1)
        if op == "Mul":
            ca, cb = _const(a), _const(b)
            if cb is not None:
                return _scale(a, cb)
            if ca is not None:
                return _scale(b, ca)
            return None
        if op == "Div":
            cb = _const(b)
            if cb is None or cb == 0:
                return None
            return _scale(a, 1 / cb)
        return None
    return None


def equal(a, b):
    return a is not None and b is not None and _add(a, b, -1) == {}


def show(a):
    if a is None:
        return "<not an affine form>"
    if not a:
        return "0"
    parts = []
    for k, v in sorted(a.items(), key=lambda kv: str(kv[0])):
        parts.append(f"{v}" if k == ONE else (f"{k}" if v == 1 else f"{v}*{k}"))
    return " + ".join(parts)
