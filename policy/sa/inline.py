"""Virtual inlining of *new* helper functions into the reviewed functions that call them.

Rule anchors, tables and known-finding keys name the library's functions as they were when the rules were reviewed.
The most common behaviour-preserving edit of all - extracting part of a function into a new private helper - moves
calls, panic-capable sites, string operations and error handling out of the function the rules look at.  Instead of
teaching every rule to follow helpers, the program facts are normalised before any rule runs: a function that did not
exist at review time (it is not in the reviewed function list of tables/str_ops.json, and is not recognised as the
renaming of one) is spliced, MIR block by MIR block, into every reviewed function that calls it directly; helper-only
bodies then disappear.  What the rules see is the function as it would look had the helper never been extracted.

Limits (in which case the helper is left alone and rules that depend on its contents fail closed as before):
recursive helpers, helpers reached only through trait dispatch or function pointers, helpers with more than
MAX_BLOCKS blocks, nesting deeper than MAX_DEPTH.  The typed-HIR facts are not rewritten (the A17 evaluator inlines
library calls on its own).
"""
import copy
import re

MAX_BLOCKS = 400
MAX_DEPTH = 4
_IDX = re.compile(r"^\[_(\d+)\]$")


def _shift_place(pl, off):
    if isinstance(pl, list) and len(pl) == 2 and isinstance(pl[0], int) and isinstance(pl[1], list):
        proj = []
        for p in pl[1]:
            m = _IDX.match(p) if isinstance(p, str) else None
            proj.append(f"[_{int(m.group(1)) + off}]" if m else p)
        return [pl[0] + off, proj]
    return pl


def _shift(node, off, boff, promo_off):
    """renumber locals (+off), blocks (+boff) and promoted indices (+promo_off) in a copied MIR fragment"""
    if isinstance(node, dict):
        out = {}
        for k, v in node.items():
            if k in ("c", "m", "lhs", "place", "dest") and isinstance(v, list) and len(v) == 2 and isinstance(v[0], int) and isinstance(v[1], list):
                out[k] = _shift_place(v, off)
            elif k in ("t", "unwind", "otherwise") and isinstance(v, int) and not isinstance(v, bool):
                out[k] = v + boff
            elif k == "vals" and isinstance(v, list):
                out[k] = [[x[0], x[1] + boff] for x in v]
            elif k == "promoted" and isinstance(v, int) and not isinstance(v, bool):
                out[k] = v + promo_off
            else:
                out[k] = _shift(v, off, boff, promo_off)
        return out
    if isinstance(node, list):
        return [_shift(x, off, boff, promo_off) for x in node]
    return node


def _callee_path(t):
    fn = t.get("fn") if isinstance(t, dict) else None
    if not isinstance(fn, dict):
        return None
    return fn.get("path")


def _inline_call(fraw, bb, hraw):
    """splice helper `hraw` into `fraw` at the call that terminates block bb"""
    fm, hm = fraw["mir"], hraw["mir"]
    t = fm["blocks"][bb]["t"]
    off, boff = len(fm["locals"]), len(fm["blocks"])
    promo_off = len(fraw.get("promoted", []))
    for i, l in enumerate(hm["locals"]):
        l2 = dict(l)
        if i <= hm["argc"]:
            l2["name"] = None  # the helper's parameters are the caller's values
        fm["locals"].append(l2)
    fraw.setdefault("promoted", [])
    fraw["promoted"] += copy.deepcopy(hraw.get("promoted", []))
    line = t.get("line")
    for i, a in enumerate(t.get("args", [])):
        fm["blocks"][bb]["s"].append({"lhs": [off + 1 + i, []], "rv": {"k": "use", "op": a}, "line": line})
    nxt, unw, dest = t.get("t"), t.get("unwind"), t.get("dest")
    # the helper's return place lives on as a local of the caller (Body.ret_locals decides whether what is stored
    # there is handed on to the caller's own caller)
    fm.setdefault("inlined_rets", []).append({"slot": off, "dest": dest[0] if dest and not dest[1] else None, "helper": hraw["path"]})
    for r in hm.get("inlined_rets", []):
        fm["inlined_rets"].append({"slot": r["slot"] + off, "dest": (r["dest"] + off) if r["dest"] is not None else None, "helper": r["helper"]})
    fm["blocks"][bb]["t"] = {"k": "goto", "t": boff, "line": line, "inlined": hraw["path"]}
    for bi, blk in enumerate(hm["blocks"]):
        nb = _shift(copy.deepcopy(blk), off, boff, promo_off)
        nb.setdefault("src", [hraw["path"], bi])  # where this block really lives (one place, however often it is spliced in)
        tk = nb["t"].get("k")
        if tk == "ret":
            if dest is not None:
                nb["s"].append({"lhs": dest, "rv": {"k": "use", "op": {"m": [off, []]}}, "line": nb["t"].get("line")})
            nb["t"] = {"k": "goto", "t": nxt, "line": nb["t"].get("line")} if nxt is not None else {"k": "unreachable", "line": nb["t"].get("line")}
        elif tk == "resume" and unw is not None:
            nb["t"] = {"k": "goto", "t": unw, "line": nb["t"].get("line")}
        fm["blocks"].append(nb)
    if dest is not None and nxt is not None:
        _thread_known_variants(fm, off, boff)


def _op_local(op):
    """local of a whole-place operand ({"c"|"m": [l, []]}), else None"""
    if isinstance(op, dict):
        pl = op.get("m") or op.get("c")
        if isinstance(pl, list) and len(pl) == 2 and isinstance(pl[0], int) and not pl[1]:
            return pl[0]
    return None


def _fn_decl(t):
    fn = t.get("fn") if isinstance(t, dict) else None
    return (fn.get("decl") or fn.get("decl_path") or fn.get("path") or "") if isinstance(fn, dict) else ""


def _thread_known_variants(fm, slot, first_block):
    """Jump threading for the spliced helper's result: where a block stores a freshly built Ok / Err / Some / None in
    the helper's return place `slot`, the straight run of blocks from there to the caller's test of that value (`?`,
    `if let Err(..)`, `match`) is duplicated with the test replaced by the only branch it can take.  Without this the
    merged return block makes "the helper's error exit leaves the caller's loop" invisible to path rules."""
    blocks = fm["blocks"]
    starts = []
    for i in range(first_block, len(blocks)):
        b = blocks[i]
        var = None
        for st in b["s"]:
            if st.get("lhs") == [slot, []]:
                rv = st.get("rv") or {}
                var = rv.get("variant") if rv.get("k") == "aggr" and rv.get("adt") in ("std::result::Result", "std::option::Option") else None
        t = b["t"]
        if t.get("k") == "call" and t.get("dest") == [slot, []]:
            var = None
            if _fn_decl(t).endswith("FromResidual::from_residual"):
                ty = fm["locals"][slot].get("ty", "")
                var = "Err" if "Result<" in ty.split("::")[-1] or ty.startswith("std::result::Result") else ("None" if ty.startswith("std::option::Option") else None)
        if var is not None and t.get("k") in ("goto", "drop", "call") and isinstance(t.get("t"), int):
            starts.append((i, var))
    for (p, var) in starts:
        disc_val = {"Ok": 0, "Err": 1, "None": 0, "Some": 1}.get(var)
        if disc_val is None:
            continue
        tracked, discr, cflow, cf_discr = {slot}, set(), set(), set()
        cf_val = 1 if var in ("Err", "None") else 0
        path, cur, target = [], blocks[p]["t"]["t"], None
        for _ in range(16):
            if cur in path or cur == p:
                break
            path.append(cur)
            b = blocks[cur]
            for st in b["s"]:
                lhs, rv = st.get("lhs"), st.get("rv") or {}
                if not lhs:
                    continue
                if rv.get("k") == "use" and not lhs[1] and _op_local(rv.get("op")) in tracked:
                    tracked.add(lhs[0])
                elif rv.get("k") == "discr" and not lhs[1] and isinstance(rv.get("place"), list) and not rv["place"][1]:
                    if rv["place"][0] in tracked:
                        discr.add(lhs[0])
                    elif rv["place"][0] in cflow:
                        cf_discr.add(lhs[0])
                elif not lhs[1]:
                    for grp in (tracked, discr, cflow, cf_discr):
                        grp.discard(lhs[0])
            t = b["t"]
            k = t.get("k")
            if k == "switch":
                l = _op_local(t.get("op"))
                want = disc_val if l in discr else (cf_val if l in cf_discr else None)
                if want is not None:
                    m = {v: x for v, x in t["vals"]}
                    target = m.get(want, t["otherwise"])
                break
            if k == "goto" and isinstance(t.get("t"), int):
                cur = t["t"]
            elif k == "drop" and isinstance(t.get("t"), int):
                cur = t["t"]
            elif k == "call" and isinstance(t.get("t"), int) and t.get("dest") and not t["dest"][1]:
                if _fn_decl(t).endswith("Try::branch") and t.get("args") and _op_local(t["args"][0]) in tracked:
                    cflow.add(t["dest"][0])
                elif t["dest"][0] in tracked | discr | cflow | cf_discr:
                    break
                cur = t["t"]
            else:
                break
        if target is None:
            continue
        base = len(blocks)
        clone_of = {b: base + i for i, b in enumerate(path)}
        for i, b in enumerate(path):
            nb = copy.deepcopy(blocks[b])
            if i + 1 < len(path):
                nb["t"]["t"] = clone_of[path[i + 1]]
            else:
                nb["t"] = {"k": "goto", "t": target, "line": nb["t"].get("line"), "threaded": var}
            blocks.append(nb)
        blocks[p]["t"]["t"] = clone_of[path[0]]


def inline_new_helpers(units, known, renamed=()):
    """units: the facts as loaded (modified in place); known: reviewed function paths (closures folded);
    returns {helper path: [callers it was inlined into]}"""
    lib = units.get("svgdx-lib")
    if not lib:
        return {}
    strip = lambda p: re.sub(r"(::\{closure#\d+\})+", "", p)  # noqa: E731
    bodies = {b["path"]: b for b in lib["bodies"]}
    new = {p for p, b in bodies.items() if "{closure" not in p and p not in known and p not in renamed and b.get("mir") and len(b["mir"]["blocks"]) <= MAX_BLOCKS and not b.get("trait_item")}
    if not new:
        return {}

    def calls_of(b):
        return [(i, _callee_path(blk["t"])) for i, blk in enumerate(b["mir"]["blocks"]) if blk["t"].get("k") == "call"]

    # recursive helpers (directly or through other new helpers) are left alone
    graph = {p: {c for _, c in calls_of(bodies[p]) if c in new} for p in new}
    for p in list(new):
        seen, work = set(), list(graph[p])
        while work:
            q = work.pop()
            if q == p:
                new.discard(p)
                break
            if q in seen:
                continue
            seen.add(q)
            work += list(graph.get(q, ()))
    done = {}
    for _ in range(MAX_DEPTH):
        progress = False
        for path, b in list(bodies.items()):
            if path in new:
                continue  # helpers are spliced where they are used; nested helpers are handled when their caller's copy is scanned
            for bb, callee in calls_of(b):
                if callee in new and b["mir"]["blocks"][bb]["t"].get("k") == "call":
                    _inline_call(b, bb, bodies[callee])
                    done.setdefault(callee, [])
                    if strip(path) not in done[callee]:
                        done[callee].append(strip(path))
                    progress = True
        if not progress:
            break
    if not done:
        return {}
    # the helpers' own bodies (and their closures, re-rooted to the first caller) no longer stand for themselves
    ids = {bodies[p]["id"]: p for p in done}
    # the source-level (HIR) view of a spliced helper is kept: rules that read literals / expressions attribute it to
    # the first function it was spliced into (Program.hir_items)
    owner = lib.setdefault("inlined_hir", {})
    for hid, hp in ids.items():
        first = next((x for x in lib["bodies"] if strip(x["path"]) == done[hp][0] and "{closure" not in x["path"]), None)
        if first is not None:
            owner[hid] = first["id"]
    keep = []
    for b in lib["bodies"]:
        if b["path"] in done:
            continue
        root = b.get("root")
        if root in ids:
            callers = done[ids[root]]
            first = next((x for x in lib["bodies"] if strip(x["path"]) == callers[0] and "{closure" not in x["path"]), None)
            if first is not None:
                b["root"] = first["id"]
                b["path"] = first["path"] + "::{closure#" + str(900 + len(keep)) + "}"
        keep.append(b)
    lib["bodies"] = keep
    return done
