"""Virtual inlining of *new* helper functions into the reviewed functions that call them.

Rule anchors, tables and known-finding keys name the library's functions as they were when the rules were reviewed.
The most common behaviour-preserving edit of all - extracting part of a function into a new private helper - moves
calls, panic-capable sites, string operations and error handling out of the function the rules look at.  Instead of
teaching every rule to follow helpers, the program facts are normalised before any rule runs: a function that did not
exist at review time (it is not in the reviewed function list of tables/str_ops.json, and is not recognised as the
renaming of one) is spliced, MIR block by MIR block, into every reviewed function that calls it directly; helper-only
bodies then disappear.  What the rules see is the function as it would look had the helper never been extracted.

Limits (in which case the helper is left alone and rules that depend on its contents fail closed as before):
recursive helpers, helpers reached only through trait dispatch or function pointers, helpers with more than
MAX_BLOCKS blocks, nesting deeper than MAX_DEPTH.  The typed-HIR facts are not rewritten (the A17 evaluator inlines
library calls on its own).
"""
import copy
import re

MAX_BLOCKS = 400
MAX_DEPTH = 4
_IDX = re.compile(r"^\[_(\d+)\]$")


def _shift_place(pl, off):
    if isinstance(pl, list) and len(pl) == 2 and isinstance(pl[0], int) and isinstance(pl[1], list):
        proj = []
        for p in pl[1]:
            m = _IDX.match(p) if isinstance(p, str) else None
            proj.append(f"[_{int(m.group(1)) + off}]" if m else p)
        return [pl[0] + off, proj]
    return pl


def _shift(node, off, boff, promo_off):
    """renumber locals (+off), blocks (+boff) and promoted indices (+promo_off) in a copied MIR fragment"""
    if isinstance(node, dict):
        out = {}
        for k, v in node.items():
            if k in ("c", "m", "lhs", "place", "dest") and isinstance(v, list) and len(v) == 2 and isinstance(v[0], int) and isinstance(v[1], list):
                out[k] = _shift_place(v, off)
            elif k in ("t", "unwind", "otherwise") and isinstance(v, int) and not isinstance(v, bool):
                out[k] = v + boff
            elif k == "vals" and isinstance(v, list):
                out[k] = [[x[0], x[1] + boff] for x in v]
            elif k == "promoted" and isinstance(v, int) and not isinstance(v, bool):
                out[k] = v + promo_off
            else:
                out[k] = _shift(v, off, boff, promo_off)
        return out
    if isinstance(node, list):
        return [_shift(x, off, boff, promo_off) for x in node]
    return node


def _callee_path(t):
    fn = t.get("fn") if isinstance(t, dict) else None
    if not isinstance(fn, dict):
        return None
    return fn.get("path")


def _inline_call(fraw, bb, hraw):
    """splice helper `hraw` into `fraw` at the call that terminates block bb"""
    fm, hm = fraw["mir"], hraw["mir"]
    t = fm["blocks"][bb]["t"]
    off, boff = len(fm["locals"]), len(fm["blocks"])
    promo_off = len(fraw.get("promoted", []))
    for i, l in enumerate(hm["locals"]):
        l2 = dict(l)
        if i <= hm["argc"]:
            l2["name"] = None  # the helper's parameters are the caller's values
        fm["locals"].append(l2)
    fraw.setdefault("promoted", [])
    fraw["promoted"] += copy.deepcopy(hraw.get("promoted", []))
    line = t.get("line")
    for i, a in enumerate(t.get("args", [])):
        fm["blocks"][bb]["s"].append({"lhs": [off + 1 + i, []], "rv": {"k": "use", "op": a}, "line": line})
    nxt, unw, dest = t.get("t"), t.get("unwind"), t.get("dest")
    fm["blocks"][bb]["t"] = {"k": "goto", "t": boff, "line": line, "inlined": hraw["path"]}
    for blk in hm["blocks"]:
        nb = _shift(copy.deepcopy(blk), off, boff, promo_off)
        tk = nb["t"].get("k")
        if tk == "ret":
            if dest is not None:
                nb["s"].append({"lhs": dest, "rv": {"k": "use", "op": {"m": [off, []]}}, "line": nb["t"].get("line")})
            nb["t"] = {"k": "goto", "t": nxt, "line": nb["t"].get("line")} if nxt is not None else {"k": "unreachable", "line": nb["t"].get("line")}
        elif tk == "resume" and unw is not None:
            nb["t"] = {"k": "goto", "t": unw, "line": nb["t"].get("line")}
        fm["blocks"].append(nb)


def inline_new_helpers(units, known, renamed=()):
    """units: the facts as loaded (modified in place); known: reviewed function paths (closures folded);
    returns {helper path: [callers it was inlined into]}"""
    lib = units.get("svgdx-lib")
    if not lib:
        return {}
    strip = lambda p: re.sub(r"(::\{closure#\d+\})+", "", p)  # noqa: E731
    bodies = {b["path"]: b for b in lib["bodies"]}
    new = {p for p, b in bodies.items() if "{closure" not in p and p not in known and p not in renamed and b.get("mir") and len(b["mir"]["blocks"]) <= MAX_BLOCKS and not b.get("trait_item")}
    if not new:
        return {}

    def calls_of(b):
        return [(i, _callee_path(blk["t"])) for i, blk in enumerate(b["mir"]["blocks"]) if blk["t"].get("k") == "call"]

    # recursive helpers (directly or through other new helpers) are left alone
    graph = {p: {c for _, c in calls_of(bodies[p]) if c in new} for p in new}
    for p in list(new):
        seen, work = set(), list(graph[p])
        while work:
            q = work.pop()
            if q == p:
                new.discard(p)
                break
            if q in seen:
                continue
            seen.add(q)
            work += list(graph.get(q, ()))
    done = {}
    for _ in range(MAX_DEPTH):
        progress = False
        for path, b in list(bodies.items()):
            if path in new:
                continue  # helpers are spliced where they are used; nested helpers are handled when their caller's copy is scanned
            for bb, callee in calls_of(b):
                if callee in new and b["mir"]["blocks"][bb]["t"].get("k") == "call":
                    _inline_call(b, bb, bodies[callee])
                    done.setdefault(callee, [])
                    if strip(path) not in done[callee]:
                        done[callee].append(strip(path))
                    progress = True
        if not progress:
            break
    if not done:
        return {}
    # the helpers' own bodies (and their closures, re-rooted to the first caller) no longer stand for themselves
    ids = {bodies[p]["id"]: p for p in done}
    keep = []
    for b in lib["bodies"]:
        if b["path"] in done:
            continue
        root = b.get("root")
        if root in ids:
            callers = done[ids[root]]
            first = next((x for x in lib["bodies"] if strip(x["path"]) == callers[0] and "{closure" not in x["path"]), None)
            if first is not None:
                b["root"] = first["id"]
                b["path"] = first["path"] + "::{closure#" + str(900 + len(keep)) + "}"
        keep.append(b)
    lib["bodies"] = keep
    return done
