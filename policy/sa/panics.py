"""A2 panic-site inventory over MIR (sites only; discharge rules live in props/C01.py)."""
import collections

from .prog import P, Callee, op_place, op_const, const_int
from . import rules as R

Site = collections.namedtuple("Site", "body bb kind what line detail term decl")

ASSERT_KINDS = ("BoundsCheck", "Overflow", "OverflowNeg", "DivisionByZero", "RemainderByZero")

# callee (resolved path prefix / exact) -> kind
UNWRAPS = {
    "std::option::Option::<T>::unwrap": "unwrap",
    "std::option::Option::<T>::expect": "expect",
    "std::result::Result::<T, E>::unwrap": "unwrap",
    "std::result::Result::<T, E>::expect": "expect",
    "std::result::Result::<T, E>::unwrap_err": "unwrap",
    "std::result::Result::<T, E>::expect_err": "expect",
}
PANIC_FNS = (
    "core::panicking::", "std::rt::begin_panic", "std::rt::panic_fmt", "core::panicking::panic_fmt", "std::panicking::begin_panic",
    "core::option::expect_failed", "core::result::unwrap_failed", "core::slice::index::", "core::str::slice_error_fail",
    "std::process::abort", "std::process::exit", "core::intrinsics::abort", "core::panicking::assert_failed",
)
INDEX_DECL = ("std::ops::Index::index", "std::ops::IndexMut::index_mut")
EXPLICIT = {
    # external functions that panic on bad arguments (beyond those whose docs carry `# Panics`)
    "core::str::<impl str>::split_at": "split_at",
    "std::str::<impl str>::split_at": "split_at",
    "core::slice::<impl [T]>::split_at": "split_at",
    "std::vec::Vec::<T, A>::remove": "vec-remove",
    "std::vec::Vec::<T, A>::insert": "vec-insert",
    "std::vec::Vec::<T, A>::swap_remove": "vec-remove",
    "std::vec::Vec::<T, A>::drain": "vec-drain",
    "std::vec::Vec::<T, A>::split_off": "vec-split_off",
    "std::string::String::remove": "string-remove",
    "std::string::String::insert": "string-insert",
    "std::string::String::insert_str": "string-insert",
    "std::string::String::drain": "string-drain",
    "std::string::String::replace_range": "string-replace_range",
    "std::string::String::split_off": "string-split_off",
    "std::cell::RefCell::<T>::borrow": "refcell-borrow",
    "std::cell::RefCell::<T>::borrow_mut": "refcell-borrow",
    "core::slice::<impl [T]>::copy_from_slice": "copy_from_slice",
    "core::slice::<impl [T]>::chunks": "chunks",
    "core::slice::<impl [T]>::windows": "windows",
    "core::slice::<impl [T]>::swap": "slice-swap",
    "std::iter::Iterator::step_by": "step_by",
    "core::num::<impl u32>::pow": "int-pow",
    "core::num::<impl usize>::pow": "int-pow",
    "core::num::<impl i32>::pow": "int-pow",
    "core::char::methods::<impl char>::from_digit": "from_digit",
    "core::char::methods::<impl char>::to_digit": "to_digit",
    "std::time::Duration::from_secs_f32": "duration",
    "std::time::Duration::from_secs_f64": "duration",
}


def reachable_bodies(prog, entry_paths):
    roots = []
    for p in entry_paths:
        b = prog.maybe_body(p)
        if b is not None:
            roots.append(b)
    return prog.reachable_from(roots)


def inventory(prog, reach):
    """all panic-capable sites in the reachable bodies (normal, non-cleanup blocks)"""
    sites = []
    for bid in sorted(reach):
        body = prog.bodies[bid]
        for b in sorted(body.reachable):
            if body.is_cleanup(b):
                continue
            t = body.term(b)
            k = t["k"]
            if k == "assert":
                msg = t["msg"]
                if msg.startswith(ASSERT_KINDS):
                    sites.append(Site(body, b, "assert:" + msg, msg, t.get("line"), "", t, ""))
            elif k in ("call", "tailcall") and "fn" in t:
                c = Callee(t["fn"])
                kind = None
                if c.path in UNWRAPS:
                    kind = UNWRAPS[c.path]
                elif c.decl_path in INDEX_DECL:
                    kind = "index"
                elif c.path.startswith(PANIC_FNS):
                    kind = "explicit-panic"
                elif c.path in EXPLICIT:
                    kind = EXPLICIT[c.path]
                elif c.doc_panics and not c.local:
                    kind = "doc-panics"
                if kind:
                    sites.append(Site(body, b, kind, c.path, t.get("line"), c.inst, t, c.decl_path))
            elif k == "call" and "fnptr" in t:
                pass
    return sites
