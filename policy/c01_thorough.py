"""C01 thorough extras: A12 static stack budget and the clippy inventory cross-reference.

Nothing is executed: the stack budget reads the per-function frame sizes that rustc records with
`-Z emit-stack-sizes` (llvm-readobj --stack-sizes) from a codegen build of the current tree and joins
them to the call graph of the analysed MIR."""
import collections
import os
import re
import subprocess

from sa import facts, panics
from sa.prog import Callee

VERIF = os.path.dirname(os.path.dirname(os.path.abspath(__file__)))
GEN = "<svgdx::element::SvgElement as svgdx::transform::EventGen>::generate_events"
PRIMARY = "svgdx::expression::primary"
MAIN_STACK = 8 * 1024 * 1024
WORKER_STACK = 2 * 1024 * 1024


def _sysroot():
    return subprocess.check_output(["rustc", "+nightly", "--print", "sysroot"], text=True).strip()


def build_stack_sizes(repo, profile):
    target = os.path.join(VERIF, ".cache", "target-stack")
    env = dict(os.environ, RUSTFLAGS="-Z emit-stack-sizes", CARGO_TARGET_DIR=target, CARGO_NET_OFFLINE="true")
    cmd = ["cargo", "+nightly", "build", "--offline"] + (["--release"] if profile == "release" else [])
    p = subprocess.run(cmd, cwd=repo, env=env, capture_output=True, text=True)
    if p.returncode != 0:
        raise RuntimeError("stack-size build failed: " + p.stderr[-1500:])
    out = {}
    ro = os.path.join(_sysroot(), "lib", "rustlib", "x86_64-unknown-linux-gnu", "bin", "llvm-readobj")
    for binname in ("svgdx", "svgdx-server"):
        path = os.path.join(target, "release" if profile == "release" else "debug", binname)
        if not os.path.exists(path):
            continue
        txt = subprocess.run([ro, "--stack-sizes", "--demangle", path], capture_output=True, text=True).stdout
        sizes = collections.defaultdict(int)
        for m in re.finditer(r"Functions: \[(.*)\]\n\s+Size: (0x[0-9A-Fa-f]+)", txt):
            name = normalise(m.group(1))
            sizes[name] = max(sizes[name], int(m.group(2), 16))
        out[binname] = sizes
    return out


def normalise(name):
    """demangled symbol -> the `path` spelling used by the fact dump (generic arguments dropped)"""
    # strip trailing generic instantiation ::<...>
    depth = 0
    res = []
    i = 0
    name = name.strip()
    # `<Type>::method` -> `Type::method`
    m = re.match(r"^<([^<>]*(?:<[^<>]*>)?[^<>]*)>::(.*)$", name)
    if m and " as " not in m.group(1):
        name = m.group(1) + "::" + m.group(2)
    # drop `::<..>` segments
    out = ""
    i = 0
    while i < len(name):
        if name.startswith("::<", i):
            depth = 1
            j = i + 3
            while j < len(name) and depth:
                if name[j] == "<":
                    depth += 1
                elif name[j] == ">":
                    depth -= 1
                j += 1
            i = j
            continue
        out += name[i]
        i += 1
    out = out.replace("alloc::", "std::").replace("core::", "std::")
    return out


def frame_of(sizes, body):
    p = body.path.replace("alloc::", "std::").replace("core::", "std::")
    p = re.sub(r"::<'[a-z_]+>", "", p)
    if p in sizes:
        return sizes[p]
    # inherent methods are printed as <Type>::m by the demangler: normalise() already rewrote them
    alt = p.replace("::<impl ", "::<impl ")
    return sizes.get(alt)


def max_cycle(prog, comp, start, weight):
    """max-weight simple cycle through `start` inside the SCC `comp` (DFS over simple paths)"""
    best = [0, None]
    comp = set(comp)

    def dfs(node, acc, seen, path):
        for nxt in prog.edges.get(node, ()):
            if nxt not in comp:
                continue
            if nxt == start:
                if acc > best[0]:
                    best[0] = acc
                    best[1] = list(path)
                continue
            if nxt in seen:
                continue
            dfs(nxt, acc + weight(nxt), seen | {nxt}, path + [nxt])

    dfs(start, weight(start), {start}, [start])
    return best


def max_tail(prog, roots, exclude, weight, memo=None):
    """max-weight acyclic path through local callees below `roots`, not entering `exclude` (SCCs are entered once:
    recursion inside them is accounted for separately)."""
    memo = {} if memo is None else memo
    onstack = set()

    def go(n):
        if n in memo:
            return memo[n]
        if n in onstack:
            return 0
        onstack.add(n)
        best = 0
        for c in prog.edges.get(n, ()):
            if c in exclude:
                continue
            best = max(best, go(c))
        onstack.discard(n)
        memo[n] = weight(n) + best
        return memo[n]

    return max((go(r) for r in roots), default=0)


def server_stack_limit(program):
    """stack of the thread on which the server runs transform_str: an explicit std::thread::Builder::stack_size(N)
    on the builder that spawns the calling closure, else tokio's worker default (2 MiB; thread_stack_size is looked for)"""
    from sa import rules as R
    from sa.prog import const_int
    limits = []
    for b in program.bodies.values():
        if not b.path.startswith("svgdx::server::"):
            continue
        if not b.call_sites(lambda c: c.path == "svgdx::transform_str"):
            continue
        found = None
        # walk up the closure nesting: the spawn may be in any enclosing body
        cur = b
        while found is None and cur is not None:
            par = None
            for cand in program.bodies.values():
                if cand.id != cur.id and cur.path.startswith(cand.path + "::") and (par is None or len(cand.path) > len(par.path)):
                    par = cand
            if par is None:
                break
            for (bb, t, c) in par.call_sites(lambda c: c.path == "std::thread::Builder::spawn"):
                if R.closure_id_of_operand(par, t["args"][1]) != cur.id:
                    continue
                # the builder operand must come from Builder::stack_size(_, const N)
                o = R.origin(par, t["args"][0], carriers={})
                if o[0] == "call" and Callee(o[2]["fn"]).path == "std::thread::Builder::stack_size":
                    ch = par.chase(o[2]["args"][1])
                    n = ch[1].get("int") if ch[0] == "const" and isinstance(ch[1], dict) else None
                    if n is not None:
                        found = (n, f"dedicated thread spawned in {par.short} with Builder::stack_size({n})")
            cur = par
        if found is None:
            ts = []
            for x in program.bodies.values():
                for (bb, t, c) in x.call_sites(lambda c: c.path.endswith("Builder::thread_stack_size")):
                    ch = x.chase(t["args"][1])
                    if ch[0] == "const" and isinstance(ch[1], dict) and ch[1].get("int"):
                        ts.append(ch[1]["int"])
            found = (min(ts), "tokio worker thread (runtime Builder::thread_stack_size)") if ts else (WORKER_STACK, "tokio worker thread (2 MiB default)")
        limits.append(found)
    if not limits:
        return WORKER_STACK, "tokio worker thread (2 MiB default; caller of transform_str not found)"
    return min(limits)


def _walk(o):
    if isinstance(o, dict):
        yield o
        for v in o.values():
            yield from _walk(v)
    elif isinstance(o, list):
        for v in o:
            yield from _walk(v)


def read_limits(program):
    """(default depth_limit, expression nesting limit) read from the analysed program, never assumed"""
    d = program.body("<svgdx::TransformConfig as std::default::Default>::default")
    depth = None
    for bb, i, st in d.all_stmts():
        rv = st.get("rv")
        if rv and rv["k"] == "aggr" and rv.get("adt") == "svgdx::TransformConfig":
            ch = d.chase(rv["ops"][rv["fnames"].index("depth_limit")])
            if ch[0] == "const" and isinstance(ch[1], dict):
                depth = ch[1].get("int")
    expr = None
    pb = program.body(PRIMARY)
    for bb, i, st in pb.all_stmts():
        for k in _walk(st):
            if isinstance(k.get("named"), str) and k["named"].endswith("::MAX_EXPR_DEPTH") and "int" in k:
                expr = k["int"]
    if depth is None or expr is None:
        raise RuntimeError(f"cannot read the limits from the program (depth_limit default={depth}, MAX_EXPR_DEPTH={expr})")
    return depth, expr


def stack_budget(program, chk, repo, extra, profile):
    sizes_by_bin = build_stack_sizes(repo, profile)
    rows = {}
    for binname, sizes in sizes_by_bin.items():
        unknown = []

        def weight(bid):
            b = program.bodies[bid]
            f = frame_of(sizes, b)
            if f is None:
                unknown.append(b.path)
                return 0
            return f

        ring = [c for c in program.sccs() if program.body(GEN).id in c][0]
        g = program.body(GEN).id
        cyc, path = max_cycle(program, ring, g, weight)
        expr = [c for c in program.sccs() if program.body(PRIMARY).id in c][0]
        ecyc, epath = max_cycle(program, expr, program.body(PRIMARY).id, weight)
        depth_limit, expr_limit = read_limits(program)
        # everything the deepest ring frame may call that is outside both recursive SCCs
        excl = set(ring) | set(expr)
        tail = max_tail(program, list(ring), excl, weight)
        etail = max_tail(program, list(expr), excl, weight)
        # longest chain of local frames from the thread's entry down to the ring (exclusive)
        if binname == "svgdx":
            ents = [program.maybe_body("svgdx::main")]
        else:
            ents = [b for b in program.bodies.values() if b.path.startswith("svgdx::server::") and any(True for _ in b.call_sites(lambda c: c.path == "svgdx::transform_str"))]
        prefix = max_tail(program, [e.id for e in ents if e is not None], excl, weight)
        # non-local (std / dependency) frames below the deepest local frame: their call graph is not analysed; allow
        # three times the largest such frame that any analysed body calls directly
        ext = 0
        for bid, lst in program.ext_calls.items():
            for (bb, c) in lst:
                f = sizes.get(normalise(c.path)) or sizes.get(c.path.replace("alloc::", "std::").replace("core::", "std::"))
                if f:
                    ext = max(ext, f)
        ext_slack = 3 * ext
        total = (depth_limit + 1) * cyc + (expr_limit + 1) * ecyc + max(tail, etail) + prefix + ext_slack
        if binname == "svgdx":
            limit, thread = MAIN_STACK, "main thread (8 MiB, the Linux default RLIMIT_STACK; trusted)"
        else:
            limit, thread = server_stack_limit(program)
        rows[binname] = dict(
            profile=profile, depth_limit=depth_limit, expr_limit=expr_limit, per_level_bytes=cyc, level_cycle=[program.bodies[x].short for x in (path or [])], expr_per_level_bytes=ecyc,
            tail_bytes=max(tail, etail), prefix_bytes=prefix, ext_slack_bytes=ext_slack, thread=thread, bound_bytes=total, stack_bytes=limit, frames_known=len(sizes), frames_unknown_local=len(set(unknown)),
        )
        where = "src/transform.rs"
        ok = total <= limit
        msg = (
            f"{binname} [{profile}]: (depth_limit+1) x {cyc} B per nesting level + (MAX_EXPR_DEPTH+1) x {ecyc} B per expression level + {max(tail, etail)} B "
            f"non-recursive tail + {prefix} B entry prefix + {ext_slack} B for non-local leaf frames = {total} B"
        )
        chk.ob(ok, "A12.stack-budget", f"{binname}:{profile}", where, msg + f" <= {limit} B of the {thread}", msg + f" EXCEEDS the {limit} B stack of the {thread}: a document nested to the default depth limit can overflow the stack (process abort) before the limit check rejects it")
    extra.setdefault("stack_budget", {})[profile] = rows


def clippy_cross_reference(program, chk, repo, extra):
    """every site the opt-in clippy panic lints report must be in the A2 inventory (completeness of the inventory)"""
    target = os.path.join(VERIF, ".cache", "target-clippy")
    env = dict(os.environ, CARGO_TARGET_DIR=target, CARGO_NET_OFFLINE="true")
    lints = ["unwrap_used", "expect_used", "indexing_slicing", "string_slice", "panic", "unreachable"]
    cmd = ["cargo", "+nightly", "clippy", "--offline", "--lib", "--message-format=short", "--"] + [x for l in lints for x in ("-W", "clippy::" + l)]
    # force re-lint of the member
    fp = os.path.join(target, "debug", ".fingerprint")
    if os.path.isdir(fp):
        import shutil
        for d in os.listdir(fp):
            if d.startswith("svgdx-"):
                shutil.rmtree(os.path.join(fp, d), ignore_errors=True)
    p = subprocess.run(cmd, cwd=repo, env=env, capture_output=True, text=True)
    sites = set()
    for line in p.stderr.splitlines():
        m = re.match(r"^(src/[\w/]+\.rs):(\d+):\d+: warning: .*", line)
        if m and any(k in line for k in ("unwrap", "expect", "index", "slic", "panic", "unreachable")):
            sites.add((m.group(1), int(m.group(2))))
    reach = panics.reachable_bodies(program, __import__("props.C01", fromlist=["ENTRY"]).ENTRY)
    inv = set()
    for s in panics.inventory(program, set(program.bodies)):
        inv.add((s.body.file, s.line))
    # test modules are not compiled into the analysed units: ignore clippy sites inside #[cfg(test)] regions
    def in_test(file, line):
        try:
            txt = open(os.path.join(repo, file)).read().splitlines()
        except OSError:
            return False
        for i, l in enumerate(txt[:line]):
            if "#[cfg(test)]" in l:
                return True
        return False
    missing = sorted(s for s in sites if s not in inv and not in_test(*s))
    # a multi-line expression is reported by clippy at its first line and by MIR at the call's line: allow +-3 lines
    missing = [s for s in missing if not any((s[0], s[1] + d) in inv for d in range(-3, 8))]
    extra["clippy_cross_reference"] = dict(lints=lints, clippy_sites=len(sites), inventory_sites=len(inv), missing=missing[:20])
    chk.ob(
        not missing and len(sites) >= 50,
        "A2.clippy-cross-reference",
        "inventory-complete",
        "-",
        f"all {len(sites)} sites reported by the opt-in clippy lints ({', '.join(lints)}) outside test modules are in the panic-site inventory ({len(inv)} sites)",
        f"clippy reports panic-capable sites that the inventory does not contain: {missing[:10]} (clippy sites found: {len(sites)})",
    )


def run(program, chk, repo, extra):
    for profile in ("dev", "release"):
        try:
            stack_budget(program, chk, repo, extra, profile)
        except Exception as e:
            chk.bad("A12.stack-budget", f"build:{profile}", "-", f"could not compute the stack budget: {e}")
    try:
        clippy_cross_reference(program, chk, repo, extra)
    except Exception as e:
        chk.bad("A2.clippy-cross-reference", "run", "-", f"clippy cross-reference failed: {e}")
