"""C17 Limits reject exactly when exceeded; depth means nesting, not length.

Decided statically (DESIGN 4/C17):
  1. exact limit predicates (A7): every read of loop_limit / var_limit / depth_limit is a
     comparison `counter > limit` (or an error payload / config plumbing), the counter has the
     stated meaning, and the true edge leaves with the matching error variant;
  2. depth counter pairing (A5): every path from the Ok continuation of inc_depth() to a return
     passes dec_depth();
  3. limit errors are final (A13): in the retry collector no limit error can reach the retry
     queue, and no other site swallows a Result that may carry a limit error (A6);
  4. limits reach the checks: <config> and the CLI copy the three limits 1:1.
"""
from sa import rules as R
from sa.prog import P, Callee, op_place, op_const, const_int, AnchorMissing

EXPLANATION = (
    "Static analysis of MIR: (1) every read of TransformConfig::{loop_limit,var_limit,depth_limit} is classified "
    "(comparison / error payload / plumbing); each comparison must be `counter > limit` with the counter proven to be "
    "'completed passes' (init 0, +1 dominating the test inside the loop), 'length of the value about to be stored' or "
    "'depth after its increment', and its true edge must leave with the matching SvgdxError variant; "
    "(2) typestate pairing inc_depth(Ok)/dec_depth on every exit of SvgElement::generate_events; "
    "(3) in process_tags every path from generate_events() to the retry queue passes a discriminant test excluding the "
    "three limit variants, whose edges return the error; no other call site swallows a Result that may carry a limit error; "
    "(4) ConfigElement / cli::Config::from_args wire the three limit fields from the like-named keys. "
    "Not decided: nothing of substance for this property (numeric parsing of the limit values is std)."
)
TRUSTED = ["u32/usize comparison semantics", "String::len is the byte length of the stored value"]
ASSUMPTIONS = [
    "a limit error constructed anywhere is one of SvgdxError::{LoopLimitError,VarLimitError,DepthLimitExceeded}",
]

LIMITS = {
    "loop_limit": "LoopLimitError",
    "var_limit": "VarLimitError",
    "depth_limit": "DepthLimitExceeded",
}
ERR = "svgdx::errors::SvgdxError"
CFG = "svgdx::TransformConfig"

# functions in which a read of a limit field is configuration plumbing (copying a config around);
# value = reason.  Keyed by function path.
PLUMBING = {
    "<svgdx::transform::ConfigElement as svgdx::transform::EventGen>::generate_events": "<config> element: assigns the parsed attribute into a cloned TransformConfig",
    "svgdx::cli::Config::from_args": "CLI: copies the parsed command-line value into TransformConfig",
    "<svgdx::TransformConfig as std::clone::Clone>::clone": "derived Clone",
    "<svgdx::TransformConfig as std::fmt::Debug>::fmt": "derived Debug (debug comment)",
    "<svgdx::TransformConfig as std::default::Default>::default": "defaults",
}


def depth_counter_field(prog):
    """the projection (field path below `self`) of the nesting counter: the place inc_depth() adds 1 to - whatever it
    is called and however it is wrapped (a plain `current_depth: u32`, a newtype `nesting.0`).  None if not found."""
    b = prog.maybe_body("svgdx::context::TransformerContext::inc_depth")
    if b is None:
        return None
    cands = set()
    for x, i, st in b.all_stmts():
        rv = st.get("rv") or {}
        if rv.get("k") in ("binop", "checked_binop") and str(rv.get("op", "")).startswith("Add"):
            for u, v in ((rv["a"], rv["b"]), (rv["b"], rv["a"])):
                if const_int(v) == 1:
                    pl = op_place(u)
                    if pl is None:
                        continue
                    if not [p_ for p_ in pl[1] if str(p_).startswith(".")]:
                        ch = b.chase(u)
                        pl = ch[1] if ch[0] == "place" else pl
                    proj = tuple(str(p_) for p_ in pl[1] if str(p_).startswith("."))
                    # a place reached through a `&mut self.field` handed to a spliced method: prefix the field path
                    base = pl[0]
                    for _ in range(6):
                        if base == 1:
                            break
                        d = b.single_def(base)
                        if d is None or d[1] == R.TERM:
                            break
                        rv2 = d[2]
                        src = P(rv2["place"]) if rv2.get("k") == "ref" else (op_place(rv2.get("op")) if rv2.get("k") in ("use", "cast") else None)
                        if src is None:
                            break
                        proj = tuple(str(p_) for p_ in src[1] if str(p_).startswith(".")) + proj
                        base = src[0]
                    if proj and base == 1:
                        cands.add(proj)
    return sorted(cands, key=len)[-1] if cands else None


def limit_errors_keep_their_variant(prog, chk):
    """a limit error travels up to process_tags as the variant it was raised as: no library function on the way maps
    the error of a call that may carry one (map_err / or_else with a closure that builds another SvgdxError without
    looking at the variant).  A wrapped limit error is an ordinary failure to process_tags: the element is queued for
    retry and the limit-exhausting work is done again at every level of nesting."""
    makers, carriers = may_carry_limit_error(prog)
    n = 0
    for body in prog.bodies.values():
        if body.unit != "svgdx-lib" or body.path.startswith(("svgdx::server::", "svgdx::cli::", "svgdx::transform_str", "svgdx::transform_file", "svgdx::transform_string")):
            continue
        for (bb, t, c) in body.call_sites(lambda c: True):
            tg = [x.id for x in prog.targets_of_callee(c)]
            if not any(x in carriers for x in tg) or not t.get("dest") or t["dest"][1]:
                continue
            n += 1
            for (ub, ui, node, how, _cast) in R.forward_value_uses(body, t["dest"][0], 8):
                if ui != R.TERM or node.get("k") != "call" or "fn" not in node:
                    continue
                mc = Callee(node["fn"])
                if mc.path.split("::")[-1] not in ("map_err", "or_else") or "Result" not in mc.path or len(node["args"]) < 2:
                    continue
                cid = R.closure_id_of_operand(body, node["args"][1])
                cb = prog.bodies.get(cid) if cid is not None else None
                if cb is None:
                    continue
                builds = sorted({st["rv"].get("variant") for x, i, st in cb.all_stmts() if st.get("rv", {}).get("k") == "aggr" and st["rv"].get("adt") == ERR and st["rv"].get("variant")})
                looks = any(R.switch_discr_place(cb, x) is not None and ERR in str(R.switch_discr_place(cb, x)[1]) for x in cb.reachable)
                if builds and not looks:
                    chk.bad("A13.limit-final", f"{body.short}:{c.path.split('::')[-1]}:re-wrapped", body.where(ub, node.get("line")), f"{body.short} maps the error of {c.path} - which may be a LoopLimitError / VarLimitError / DepthLimitExceeded - into SvgdxError::{'/'.join(builds)} without looking at its variant: process_tags no longer recognises the limit, queues the element for retry and the limit-exhausting body runs again (at every enclosing level)")
    chk.floor("A13.limit-final:carriers", n, 20, "call of a function that may return a limit error")


def run(prog, chk):
    chk.rule(specs_flag_pairing, prog, chk)
    chk.rule(single_dispatch_entry, prog, chk)
    chk.rule(limit_predicates, prog, chk)
    chk.rule(depth_pairing, prog, chk)
    chk.rule(limit_errors_final, prog, chk)
    chk.rule(limit_errors_keep_their_variant, prog, chk)
    chk.rule(limits_wiring, prog, chk)
    chk.rule(scope_var_limit, prog, chk)
    chk.rule(var_limit_follows_every_evaluation, prog, chk)
    chk.rule(depth_test_unconditional, prog, chk)
    from props import C06, C07
    chk.rule(C06.config_single_writer, prog, chk)  # the limits in force are the configuration's: nothing but set_config replaces it (a saved copy restored later undoes a <config>)
    chk.rule(limit_error_rendering_cannot_panic, prog, chk)
    chk.rule(limit_errors_seen_everywhere, prog, chk)
    if "server" in prog.features:
        C07.server_stack(prog, chk)  # the depth limit is sized for the stack the transform runs on, in every front-end


# ---------------------------------------------------------------------------
# 1. predicates
# ---------------------------------------------------------------------------

_PROG = None


def limit_predicates(prog, chk):
    global _PROG
    _PROG = prog
    ncmp = {f: 0 for f in LIMITS}
    for body in prog.bodies.values():
        for field, variant in LIMITS.items():
            reads = [r for r in R.place_reads(body, ("." + field,)) if _owner_ok(prog, body, r, field)]
            if not reads:
                continue
            chk.touch(body)
            for (bb, idx, node) in reads:
                classify_read(prog, chk, body, field, variant, bb, idx, node, ncmp)
    floors = {"loop_limit": 2, "var_limit": 1, "depth_limit": 1}
    for f in LIMITS:
        chk.floor(f"A7.cmp.{f}", ncmp[f], floors[f], f"comparison against {f}")
    # each limit bounds the quantity it is named for: the functions that *compare* against it are the reviewed ones
    # (a well-formed `n > loop_limit -> LoopLimitError` on some other count rejects documents that are within their limits)
    import re as _re

    for f, allowed in LIMIT_SUBJECTS.items():
        users = set()
        for body in prog.bodies.values():
            if body.unit != "svgdx-lib" or body.path in PLUMBING:
                continue
            if any(_owner_ok(prog, body, r, f) for r in R.place_reads(body, ("." + f,))):
                if R.constructs_variant(body, body.reachable, ERR, LIMITS[f]):
                    users.add(_re.sub(r"(::\{closure#\d+\})+", "", body.path))
        extra = sorted(users - set(allowed))
        chk.ob(not extra, "A7.limit-subject", f, "-", f"{f} is compared with {', '.join(allowed[k] for k in sorted(users & set(allowed)))}", f"{f} is also enforced in {[e.replace('svgdx::', '') for e in extra]}: a limit named for one quantity ({'; '.join(allowed.values())}) now bounds another, so a document within its limits can be rejected")


LIMIT_SUBJECTS = {
    "loop_limit": {
        "<svgdx::loop_el::LoopElement as svgdx::transform::EventGen>::generate_events": "the iterations of a <loop>",
        "<svgdx::loop_el::ForElement as svgdx::transform::EventGen>::generate_events": "the items of a <for>",
    },
    "var_limit": {
        "<svgdx::transform::VarElement as svgdx::transform::EventGen>::generate_events": "the length of a <var> value",
        "<svgdx::reuse::ReuseElement as svgdx::transform::EventGen>::generate_events": "the length of an attribute that becomes a variable of a reuse target",
    },
    "depth_limit": {
        "svgdx::context::TransformerContext::inc_depth": "the nesting depth of element processing",
    },
}


def _owner_ok(prog, body, read, field):
    """keep the read unless the field provably belongs to another type (e.g. the clap Arguments struct)"""
    bb, idx, node = read
    places = []
    if idx != R.TERM and "rv" in node:
        rv = node["rv"]
        places += [op_place(o) for o in R.operands_of_rvalue(rv)]
        if rv.get("k") in ("ref", "discr"):
            places.append(P(rv["place"]))
    else:
        places += [op_place(o) for o in node.get("args", [])]
    for pl in places:
        if pl is not None and pl[1] and pl[1][-1] == "." + field:
            owner = prog.field_owner(body, pl)
            if owner is None or owner == CFG:
                return True
    return False


def classify_read(prog, chk, body, field, variant, bb, idx, node, ncmp):
    where = body.where(bb, node.get("line"))
    fkey = f"{body.short}:{field}"
    if body.path in PLUMBING:
        chk.ok("A7.read", fkey + ":plumbing", where, f"config plumbing ({PLUMBING[body.path]})", by="table")
        return
    if idx == R.TERM or "lhs" not in node:
        chk.bad("A7.read", fkey + ":unclassified", where, f"read of {field} in a terminator is not a comparison or payload")
        return
    rv = node["rv"]
    if rv["k"] == "aggr" and rv.get("adt") == ERR:
        chk.ok("A7.read", fkey + ":payload", where, f"{field} used as payload of SvgdxError::{rv['variant']}")
        return
    if rv["k"] == "aggr" and rv.get("adt") == CFG:
        chk.ok("A7.read", fkey + ":plumbing", where, f"{field} copied into a new TransformConfig value (struct update / conversion)")
        return
    if rv["k"] == "binop" and rv["op"] in R.CMP_OPS:
        consumers = [(bb, idx, node, "operand", False)]
    elif rv["k"] in ("use", "cast") and not node["lhs"][1]:
        consumers = R.forward_value_uses(body, node["lhs"][0])
        if rv["k"] == "cast":
            consumers = [(b, i, n, h, True) for (b, i, n, h, c) in consumers]
    else:
        chk.bad("A7.read", fkey + ":unclassified", where, f"read of {field} is neither comparison, payload nor plumbing: {rv['k']}")
        return
    if not consumers:
        chk.bad("A7.read", fkey + ":unused", where, f"{field} read but never used")
        return
    for (b, i, n, how, cast) in consumers:
        w = body.where(b, n.get("line"))
        if i != R.TERM and "rv" in n and n["rv"]["k"] == "aggr" and n["rv"].get("adt") == ERR:
            chk.ok("A7.read", fkey + ":payload", w, f"{field} used as payload of SvgdxError::{n['rv']['variant']}")
        elif i != R.TERM and "rv" in n and n["rv"]["k"] == "aggr" and n["rv"].get("adt") == CFG:
            chk.ok("A7.read", fkey + ":plumbing", w, f"{field} copied into a new TransformConfig value")
        elif i != R.TERM and "rv" in n and n["rv"]["k"] == "binop" and n["rv"]["op"] in R.CMP_OPS:
            ncmp[field] += 1
            lp_c = R.loop_containing(body, b)
            if field == "loop_limit" and lp_c is not None and bb not in lp_c[1] and body.dominates(bb, lp_c[0]):
                # the limit is a setting the loop's own body can change (`<config loop-limit=..>`): the test in pass k
                # is against the limit in force in pass k, not against a copy taken before the first pass
                chk.bad("A7.pred", fkey + ":snapshot", w, f"the pass counter is compared (inside the loop) with a copy of {field} read before the loop started (line {node.get('line')}): a <config> element in the loop's body that lowers the limit is not honoured, the loop runs on to the old limit")
            check_comparison(prog, chk, body, field, variant, b, i, n, node["lhs"][0] if "lhs" in node else None)
        elif how == "ref":
            # a reference to the value is taken (captured by a closure, handed to a helper): where it is compared is not
            # visible from here
            chk.undecided("A7.read", fkey + ":by-reference", w, f"the value of {field} is used through a reference (a closure capture or a helper's parameter); the comparison it feeds is not traced")
        else:
            chk.bad("A7.read", fkey + ":unclassified", w, f"value of {field} flows into something that is neither a comparison nor an error payload ({how})")


def check_comparison(prog, chk, body, field, variant, bb, idx, stmt, limit_tmp):
    rv = stmt["rv"]
    where = body.where(bb, stmt.get("line"))
    key = f"{body.short}:{field}"
    # which side is the limit?
    def derives_from_limit(op):
        pl = op_place(op)
        if pl is None:
            return False
        if pl[1] and pl[1][-1] == "." + field:
            return True
        if pl[1]:
            return False
        ch = body.chase(op)
        if ch[0] == "place" and ch[1][1] and ch[1][1][-1] == "." + field:
            return True
        # cast of the read
        d = body.single_def(pl[0])
        if d and d[1] != R.TERM and d[2]["k"] in ("cast", "use"):
            return derives_from_limit(d[2]["op"])
        return False

    a_lim, b_lim = derives_from_limit(rv["a"]), derives_from_limit(rv["b"])
    other = rv["b"] if a_lim else rv["a"]
    if a_lim != b_lim and const_int(other) is not None:
        # the configured limit itself is tested against a constant: one of its values is given a meaning of its own
        chk.bad("A7.pred", key + ":special-value", where, f"{field} is compared with the constant {const_int(other)} ({rv['op']}): a configured value of the limit is treated specially (e.g. `0` = no limit), so for that configuration the limit is not enforced at all")
        return
    if a_lim == b_lim:
        chk.bad("A7.pred", key + ":shape", where, f"cannot identify limit side of comparison {rv['op']}")
        return
    op = rv["op"] if b_lim else R.MIRROR[rv["op"]]  # normalised: counter <op> limit
    counter = rv["a"] if b_lim else rv["b"]
    # ---- the true edge must leave with the right error
    res_local = stmt["lhs"][0]
    sw = None
    t = body.term(bb)
    if t["k"] == "switch" and op_place(t["op"]) == (res_local, ()):
        sw = t
    if sw is None:
        chk.bad("A7.pred", key + ":branch", where, "comparison result is not branched on directly")
        return
    true_t, false_t = R.switch_targets_bool(sw)
    if op in ("Le", "Lt"):
        # written the other way round (`if counter <= limit { go on } else fail`): the failing edge is the false one
        op = {"Le": "Gt", "Lt": "Ge"}[op]
        true_t, false_t = false_t, true_t
    region = R.reach_try_aware(body, [true_t])  # `Err(e)?` never continues
    ok_variant = R.constructs_variant(body, region, ERR, variant)
    ok_err = R.returns_err(body, region)
    lp = R.loop_containing(body, bb)
    leaves = lp is None or lp[0] not in region
    if ok_variant and ok_err and not leaves:
        # the error is built and returned on the failing edge, but the same blocks also lead back into the loop (the
        # check lives in a helper whose Ok and Err exits merge before the caller tests the result): path-insensitive, no verdict
        chk.undecided("A7.err", key, where, f"exceeding {field} builds and returns SvgdxError::{variant}, but the edge is not separable from the loop's continuation in the control-flow graph")
        return
    chk.ob(
        ok_variant and ok_err and leaves,
        "A7.err",
        key,
        where,
        f"exceeding {field} leaves with Err(SvgdxError::{variant}) (no way back into the loop)",
        f"true edge of the {field} test does not (only) return Err(SvgdxError::{variant}) [variant={ok_variant} err={ok_err} leaves_loop={leaves}]",
    )
    # ---- meaning of the counter + exact relation
    if field == "loop_limit":
        cpl = op_place(counter)
        ch = body.chase(counter)
        ei = _enumerate_index(body, counter)
        if ei is not None and lp is not None:
            # the index handed out by enumerate() is the number of passes completed before this one; the test sits
            # inside the pass.  Going on after the test means one more pass is (or was) run, so the limit is exact when
            # the pass is refused as soon as `index >= limit` - or, written on the count, `index + 1 > limit`
            exact = (ei == 0 and op == "Ge") or (ei == 1 and op == "Gt")
            chk.ob(
                exact,
                "A7.pred",
                key + ":counter",
                where,
                f"the enumerate() index{' + 1' if ei else ''} is compared `{op}` {field}: a loop of exactly {field} passes is accepted, one more is refused",
                f"loop-limit predicate is not exact: the enumerate() index{' + ' + str(ei) if ei else ''} (passes completed before this one{', plus ' + str(ei) if ei else ''}) is compared `{op}` {field} - a loop of {field} + {1 if (ei == 0 and op == 'Gt') else '?'} passes is accepted",
            )
            return
        if ch[0] == "call" and "fn" in ch[2] and Callee(ch[2]["fn"]).path.split("::")[-1] == "len" and ("Vec" in Callee(ch[2]["fn"]).path or "slice" in Callee(ch[2]["fn"]).path or "[T]" in Callee(ch[2]["fn"]).path):
            # the number of passes is known up front (the length of the list to go through)
            chk.ob(op == "Gt", "A7.pred", key + ":counter", where, f"the number of passes (a list length) is refused when it is `> {field}`: exactly {field} passes are accepted", f"loop-limit predicate is not exact: the number of passes (a list length) is compared `{op}` {field} - a loop of exactly {field} passes is {'refused' if op == 'Ge' else 'not the boundary'}")
            return
        from sa import discharge as D_
        nrm_ = D_._norm(body, ch[1]) if ch[0] == "place" and ch[1][1] else None
        for _ in range(4):
            # through reborrows (`&mut *context` handed to a spliced helper)
            if nrm_ is not None and nrm_[1] and nrm_[1][0] == "*" and not (1 <= nrm_[0] <= body.argc):
                n2_ = D_._norm(body, nrm_)
                if n2_ == nrm_:
                    break
                nrm_ = n2_
        if nrm_ is not None and nrm_[1] and nrm_[1][0] == "*" and 1 <= nrm_[0] <= body.argc:
            # a counter kept in an object the caller hands in (the context): it is this loop's own count only if it
            # is set to 0 when the loop starts
            cpl_ = nrm_
            resets = [1 for _b, _i, s_ in body.all_stmts() if "lhs" in s_ and D_._norm(body, P(s_["lhs"])) == cpl_ and s_["rv"].get("k") == "use" and const_int(s_["rv"]["op"]) == 0]
            # the loop's body processes nested content: can this very function be entered again while the loop runs?
            lp_ = R.loop_containing(body, bb)
            reentrant = False
            if lp_ is not None:
                for (cb_, ct_, cc_) in body.call_sites(lambda c: c.local):
                    if cb_ in lp_[1]:
                        tg_ = prog.targets_of_callee(cc_)
                        if tg_ and body.id in prog.reachable_from(tg_):
                            reentrant = True
            if resets and reentrant:
                chk.bad("A7.pred", key + ":counter", where, f"the count compared with {field} lives in `{D_pname(body, cpl_)}`, an object shared with the nested content the loop's body processes, and is reset where a loop starts: a loop inside the loop sets the enclosing loop's count back to 0 (and leaves its own count behind), so an outer loop beyond the limit is accepted and one within it can be refused - the count must be the loop's own (a local), or be saved and restored around the body")
                return
            if not resets:
                chk.bad("A7.pred", key + ":counter", where, f"the count compared with {field} lives in `{D_pname(body, cpl_)}`, an object handed in by the caller, and is never reset to 0 here: it counts the passes of every loop of the document together, so a loop is refused although it stays within the limit itself (and a loop after a long one is refused at once)")
                return
        if ch[0] != "place" or ch[1][1]:
            chk.undecided("A7.pred", key + ":counter", where, "the quantity compared with loop_limit is not a plain local counter (an iterator index, a field): what it counts is not decided")
            return
        cl = ch[1]
        defs = body.defs_of(cl[0])
        incs = R.increments_of(body, cl)
        inits = [d for d in defs if d[1] != R.TERM and d[2]["k"] == "use" and const_int(d[2]["op"]) == 0]
        name = body.local_name(cl[0]) or f"_{cl[0]}"
        shape_ok = len(incs) == 1 and len(inits) == 1 and len(defs) == 2 and lp is not None
        if not shape_ok:
            chk.bad("A7.pred", key + ":counter", where, f"counter `{name}` is not 'init 0, one +1 per pass' (defs={len(defs)}, incs={len(incs)}, inits={len(inits)}, in_loop={lp is not None})")
            return
        ib = incs[0][0]
        init_b = inits[0][0]
        in_loop = ib in lp[1] and init_b not in lp[1]
        inc_before = body.dominates(ib, bb) and (ib != bb or incs[0][1] < idx)
        cmp_before = body.dominates(bb, ib) and (ib != bb or idx < incs[0][1])
        # every back-edge path increments: removing the increment block disconnects header from itself
        back_ok = lp[0] not in body.reach_after_block_removed(lp[0], ib) if hasattr(body, "reach_after_block_removed") else _every_cycle_passes(body, lp, ib)
        exact = (op == "Gt" and inc_before) or (op == "Ge" and cmp_before)
        chk.ob(
            in_loop and back_ok and exact,
            "A7.pred",
            key,
            where,
            f"`{name}` counts completed passes (init 0 outside the loop, +1 on every pass, test after the increment) and the test is `{name} > {field}`: a loop of exactly {field} passes is accepted, one more is rejected",
            f"loop-limit predicate is not exact: normalised `{name} {op} {field}`, increment_before_test={inc_before}, test_before_increment={cmp_before}, every_pass_increments={back_ok}, counter_init_outside_loop={in_loop}",
        )
        # ... and no pass escapes the test: once the body of the loop has run, the loop is left normally only through
        # the comparison (an `until` that breaks between the body and the test lets pass limit+1 through unchecked)
        bodies_ = [cb_ for (cb_, ct_, cc_) in body.call_sites(lambda c: c.path == "svgdx::transform::process_events") if cb_ in lp[1]]
        if bodies_:
            errb = set()
            for x_ in body.reachable:
                for s_ in body.stmts(x_):
                    if "lhs" in s_ and s_["lhs"][0] in body.ret_locals and not s_["lhs"][1] and s_["rv"].get("k") == "aggr" and s_["rv"].get("variant") == "Err":
                        errb.add(x_)
                t_ = body.term(x_)
                if t_["k"] == "call" and "fn" in t_ and Callee(t_["fn"]).decl_path == "std::ops::FromResidual::from_residual":
                    errb.add(x_)
            rets_ = {x_ for x_ in body.reachable if body.term(x_)["k"] == "ret"}
            inside = body.reach([body.term(bodies_[0])["t"]], avoid={bb, lp[0]} | (set(body.reachable) - set(lp[1]))) if body.term(bodies_[0]).get("t") is not None else set()
            leaks = []
            for x_ in sorted(inside):
                for y_ in body.succ[x_]:
                    if y_ not in lp[1] and (body.reach([y_], avoid=errb) & rets_):
                        leaks.append((x_, y_))
            chk.ob(not leaks, "A7.pred", key + ":every-pass-tested", where, f"after the body has run the loop is left (other than by an error) only through the test against {field}", f"a pass of the loop can end the loop normally between the body and the test against {field} (line {body.term(leaks[0][0]).get('line') if leaks else ''}): a loop that finishes in pass {field}+1 - an `until` that becomes true there - has run more than {field} passes and is accepted")
    elif field == "var_limit":
        ch = body.chase(counter)
        is_len = ch[0] == "call" and "fn" in ch[2] and Callee(ch[2]["fn"]).path in ("std::string::String::len", "core::str::<impl str>::len", "std::str::<impl str>::len")
        stored_same = False
        if is_len:
            # the String whose len is taken must be the one pushed for assignment
            src = body.chase(ch[2]["args"][0])
            stored_same = _len_subject_is_stored(body, ch[2]["args"][0]) or _len_subject_is_scope_attr(body, ch[2]["args"][0])
        if is_len and stored_same == "returned" and op == "Gt":
            chk.undecided("A7.pred", key, where, "the value whose length is tested against var_limit is handed back to the caller (not stored here): that the caller stores this very value is not read by this rule")
            return
        chk.ob(
            is_len and stored_same and op == "Gt",
            "A7.pred",
            key,
            where,
            "test is `len(value) > var_limit` on the evaluated value that is subsequently stored",
            f"var-limit predicate is not `len(stored value) > var_limit`: normalised op={op}, counter_is_len={is_len}, same_value_stored={stored_same}",
        )
    elif field == "depth_limit":
        cpl = body.chase(counter)
        dfield = depth_counter_field(prog)
        sp_ = R.self_path(body, counter)
        is_depth = (cpl[0] == "place" and cpl[1][1] and cpl[1][1][-1] == ".current_depth") or (dfield is not None and sp_ == dfield)
        if is_depth and not (cpl[0] == "place" and cpl[1][1]):
            cpl = ("place", (1, dfield))
        incs = R.increments_of(body, cpl[1]) if is_depth else []
        if is_depth and not incs:
            # the counter lives behind a spliced method's receiver: find the `+ 1` on the same self path
            for x2, i2, st2 in body.all_stmts():
                rv2 = st2.get("rv") or {}
                if rv2.get("k") in ("binop", "checked_binop") and str(rv2.get("op", "")).startswith("Add") and (const_int(rv2.get("b")) == 1 or const_int(rv2.get("a")) == 1):
                    src2 = rv2["a"] if const_int(rv2.get("b")) == 1 else rv2["b"]
                    if R.self_path(body, src2) == dfield:
                        incs.append((x2, i2, st2))
        inc_before = bool(incs) and all(body.dominates(i[0], bb) and (i[0] != bb or i[1] < idx) for i in incs)
        chk.ob(
            is_depth and len(incs) == 1 and inc_before and op == "Gt",
            "A7.pred",
            key,
            where,
            "test is `current_depth > depth_limit` immediately after the single increment: nesting depth == limit is accepted",
            f"depth-limit predicate is not exact: normalised op={op}, counter_is_current_depth={is_depth}, increments={len(incs)}, increment_before_test={inc_before}",
        )


def _every_cycle_passes(body, lp, must):
    """every cycle through the loop header passes block `must`"""
    header, blocks = lp
    seen = set()
    work = [s for s in body.succ[header] if s in blocks and s != must]
    while work:
        x = work.pop()
        if x in seen:
            continue
        seen.add(x)
        if x == header:
            return False
        for s in body.succ[x]:
            if s in blocks and s != must:
                work.append(s)
    return True


_VIEW_CALLS = ("std::ops::Deref::deref", "std::string::String::as_str", "std::convert::AsRef::as_ref", "std::borrow::Borrow::borrow")


def _through_views(body, op):
    """the operand a `&str` view was taken of: `value.as_str()` / `&*value` / `value.as_ref()` -> `&value`
    (a helper taking `&str` is handed such a view of the caller's String)"""
    for _ in range(4):
        ch = body.chase(op)
        if ch[0] == "call" and "fn" in ch[2] and Callee(ch[2]["fn"]).decl_path in _VIEW_CALLS and ch[2].get("args"):
            op = ch[2]["args"][0]
            continue
        break
    return op


def D_pname(body, pl):
    n = body.local_name(pl[0]) or f"_{pl[0]}"
    return n + "".join(str(x) for x in pl[1])


def _enumerate_index(body, op, depth=10):
    """0 when the operand is the index component of an `Enumerate::next()` item (through copies and casts), k when
    it is that index plus the constant k; None otherwise"""
    plus = 0
    pl = op_place(op)
    while depth > 0 and pl is not None:
        depth -= 1
        if pl[1]:
            proj = [x for x in pl[1] if x != "*"]
            d = body.single_def(pl[0])
            if d and d[1] == R.TERM and "fn" in d[2] and Callee(d[2]["fn"]).path.endswith("Enumerate<I> as std::iter::Iterator>::next") and proj[-2:] == [".0", ".0"]:
                return plus
            if d and d[1] != R.TERM and d[2]["k"] == "binop" and d[2]["op"] in ("AddWithOverflow", "Add") and proj == [".0"]:
                c = const_int(d[2]["b"])
                if c is None:
                    return None
                plus += c
                pl = op_place(d[2]["a"])
                continue
            return None
        d = body.single_def(pl[0])
        if not d or d[1] == R.TERM:
            return None
        rv = d[2]
        if rv["k"] in ("use", "cast"):
            pl = op_place(rv["op"])
        elif rv["k"] == "binop" and rv["op"] == "Add" and const_int(rv["b"]) is not None:
            plus += const_int(rv["b"])
            pl = op_place(rv["a"])
        else:
            return None
    return None


def _wrapped_carriers(body, local):
    """the locals a value travels through when it is handed on wrapped: `Ok(value)` out of a helper spliced in here,
    through `?`, and on (the local itself first)"""
    carriers, work = [local], [local]
    while work:
        l = work.pop()
        for (b, i, node, how, _c) in R.forward_value_uses(body, l):
            nl = None
            if i != R.TERM and "rv" in node and node["rv"].get("k") == "aggr" and node["rv"].get("variant") in ("Ok", "Some") and len(node["rv"].get("ops", [])) == 1 \
                    and not node["lhs"][1] and node["lhs"][0] != 0:
                nl = node["lhs"][0]  # (also the result slot of a helper spliced in here)
            elif i == R.TERM and node.get("k") == "call" and "fn" in node and Callee(node["fn"]).decl_path == "std::ops::Try::branch" and node.get("dest") and not node["dest"][1]:
                nl = node["dest"][0]
            if nl is not None and nl not in carriers and len(carriers) < 12:
                carriers.append(nl)
                work.append(nl)
    return carriers


def _len_subject_is_stored(body, arg_op):
    """arg_op is `&value` passed to String::len; is `value` later moved into a tuple that is pushed?"""
    arg_op = _through_views(body, arg_op)
    ch = body.chase(arg_op)
    # chase follows refs: ends at the place of the String local
    if ch[0] != "place" and ch[0] != "call":
        return False
    if ch[0] == "call":
        # value came straight from a call result
        local = ch[2]["dest"][0]
    else:
        local = ch[1][0]
    carriers = _wrapped_carriers(body, local)
    for (b, i, node, how, _c) in [u for l in carriers for u in R.forward_value_uses(body, l)]:
        if i != R.TERM and "rv" in node and node["rv"]["k"] == "aggr" and node["rv"]["ak"] == "tuple":
            tl = node["lhs"][0]
            for (b2, i2, n2, how2, _c2) in R.forward_value_uses(body, tl):
                if i2 == R.TERM and n2["k"] == "call" and "fn" in n2 and Callee(n2["fn"]).path.endswith("::push"):
                    return True
                if i2 != R.TERM and "rv" in n2 and n2["rv"].get("k") == "aggr" and n2["rv"].get("variant") in ("Ok", "Some") and n2["lhs"][0] in body.ret_locals:
                    return "returned"  # handed back (e.g. out of a `map` closure that is collected): stored by the caller
    return False


def _redispatch_sinks(body, l):
    """call sites at which the element held in local `l` is processed as an element again: converted (possibly
    wrapped in an OutputEvent) back into an InputEvent, or generate_events called on it"""
    sinks = []

    def add(b, t, c):
        if all(b != b0 or t is not t0 for (b0, t0, _c0) in sinks):
            sinks.append((b, t, c))

    for (b, i, node, how, _c) in [u for l_ in _wrapped_carriers(body, l) for u in R.forward_value_uses(body, l_, 8)]:
        if i == R.TERM and node.get("k") == "call" and "fn" in node:
            c = Callee(node["fn"])
            if ("InputEvent" in c.inst and c.path.split("::")[-1] == "from") or (c.path.endswith("generate_events") and "SvgElement" in c.inst):
                add(b, node, c)
        elif i != R.TERM and "rv" in node and node["rv"].get("k") == "aggr" and "OutputEvent" in str(node["rv"].get("adt", "")):
            for (b2, i2, node2, how2, _c2) in R.forward_value_uses(body, node["lhs"][0], 6):
                if i2 == R.TERM and node2.get("k") == "call" and "fn" in node2:
                    c = Callee(node2["fn"])
                    if "InputEvent" in c.inst and c.path.split("::")[-1] == "from":
                        add(b2, node2, c)
    for (b, t, c) in body.call_sites(R.path_endswith("generate_events")):
        if t["args"] and R.origin_local(body, t["args"][0]) in set(_wrapped_carriers(body, l)) | {u[2]["lhs"][0] for l_ in _wrapped_carriers(body, l) for u in R.forward_value_uses(body, l_, 8) if u[1] != R.TERM and "lhs" in u[2] and not u[2]["lhs"][1]}:
            add(b, t, c)
    return sinks


def _attrs_loop_element(body, header):
    """the element local L of `for .. in &L.attrs` for the loop with this header, if it is one"""
    for (ib, it, ic) in body.call_sites(lambda c: c.decl_path == "std::iter::Iterator::next"):
        if ib != header and not (ib in body.loops.get(header, ()) and body.dominates(ib, header)):
            if ib != header:
                continue
        src = R.origin(body, it["args"][0], carriers={"into_iter": 0})
        f = None
        if src[0] == "call" and "fn" in src[2] and Callee(src[2]["fn"]).decl_path == "std::iter::IntoIterator::into_iter":
            f = R.origin(body, src[2]["args"][0], carriers={})
        elif src[0] == "field":
            f = src
        if f is not None and f[0] == "field" and f[1][1] and f[1][1][-1] == ".attrs":
            return f[1][0]
    return None


def _len_subject_is_scope_attr(body, arg_op):
    """arg_op is `&value` where value is an attribute value of the element L being iterated (`for (k, v) in &L.attrs`)
    and L is afterwards handed to push_element (its attributes become the variables of the new scope)"""
    arg_op = _through_views(body, arg_op)
    o = R.origin(body, arg_op, carriers={})
    # the value is a component of the Some payload of Iterator::next
    pl = op_place(arg_op)
    root = None
    cur = pl
    for _ in range(8):
        if cur is None:
            break
        d = body.single_def(cur[0])
        if d is None:
            break
        if d[1] == R.TERM:
            root = d
            break
        rv = d[2]
        nxt = op_place(rv.get("op")) if rv["k"] in ("use", "cast") else (P(rv["place"]) if rv["k"] == "ref" else None)
        cur = nxt
    if root is None or "fn" not in root[2] or Callee(root[2]["fn"]).decl_path != "std::iter::Iterator::next":
        return False
    it = R.origin(body, root[2]["args"][0], carriers={"into_iter": 0})
    # iterator comes from into_iter(&L.attrs)
    src_local = None
    if it[0] == "call" and "fn" in it[2] and Callee(it[2]["fn"]).decl_path == "std::iter::IntoIterator::into_iter":
        f = R.origin(body, it[2]["args"][0], carriers={})
        if f[0] == "field" and f[1][1] and f[1][1][-1] == ".attrs":
            src_local = f[1][0]
    elif it[0] == "field" and it[1][1] and it[1][1][-1] == ".attrs":
        src_local = it[1][0]
    if src_local is None:
        return False
    # the element itself or a copy taken of it after the test (`let scope = el.clone()`)
    same = {src_local}
    for (bb, t, c) in body.call_sites(lambda c: c.decl_path == "std::clone::Clone::clone" and "SvgElement" in c.inst):
        if t["args"] and R.origin_local(body, t["args"][0]) == src_local and t.get("dest") and not t["dest"][1]:
            same.add(t["dest"][0])
            same |= {u[2]["lhs"][0] for u in R.forward_value_uses(body, t["dest"][0]) if u[1] != R.TERM and "rv" in u[2] and u[2]["rv"].get("k") == "use" and not u[2]["lhs"][1]}
    for (bb, t, c) in body.call_sites(lambda c: c.path == "svgdx::context::TransformerContext::push_element"):
        if len(t["args"]) >= 2 and R.origin_local(body, t["args"][1]) in same:
            return True
    # ... or to a function of the crate that pushes that very parameter (a scope guard: push, run a closure, pop)
    if _PROG is not None:
        for (bb, t, c) in body.call_sites(lambda c: c.path.startswith("svgdx::") and c.path != "svgdx::context::TransformerContext::push_element"):
            ks = [k for k, a in enumerate(t["args"]) if R.origin_local(body, a) == src_local]
            cb = _PROG.maybe_body(c.path) if ks else None
            if cb is None:
                continue
            for (b2, t2, c2) in cb.call_sites(lambda c: c.path == "svgdx::context::TransformerContext::push_element"):
                if len(t2["args"]) >= 2 and R.origin_local(cb, t2["args"][1]) in [k + 1 for k in ks]:
                    return True
    # ... or is processed as an element again (a container pushes its attributes as variables in turn)
    return bool(_redispatch_sinks(body, src_local))


# ---------------------------------------------------------------------------
# 2. depth pairing
# ---------------------------------------------------------------------------

GEN = "<svgdx::element::SvgElement as svgdx::transform::EventGen>::generate_events"


def depth_pairing(prog, chk):
    inc = "svgdx::context::TransformerContext::inc_depth"
    dec = "svgdx::context::TransformerContext::dec_depth"
    n_open = 0
    decs = {dec} | R.wrappers_of(prog, {dec}, forbid={inc})  # a helper all of whose paths decrement is a decrement
    for body in prog.bodies.values():
        if body.path in decs:
            continue
        opens = R.calls_to(body, R.path_is(inc))
        if not opens:
            continue
        chk.touch(body)
        closes = [(b, R.TERM) for (b, t, c) in R.calls_to(body, lambda c: c.path in decs)]
        for (b, t, c) in opens:
            n_open += 1
            where = body.where(b, t.get("line"))
            # the pairing opens at the Ok continuation of inc_depth()? (DESIGN section 6)
            r = t["dest"][0]
            brk = R.try_break_edges(body, r)
            esc = R.escapes(body, (b, R.TERM), closes, closed_edges=brk)
            key = f"{body.short}:inc_depth"
            if not brk:
                chk.bad("A5.depth", key + ":unchecked", where, "result of inc_depth() is not propagated with `?` (limit check ignored)")
                continue
            if esc:
                p = esc[0]
                chk.bad(
                    "A5.depth",
                    key,
                    where,
                    f"{len(esc)} exit(s) reach a return after inc_depth() without dec_depth(): e.g. via lines {R.path_lines(body, p)} - every such sibling permanently consumes one level of depth-limit",
                    path=p,
                )
            else:
                chk.ok("A5.depth", key, where, f"every path from the Ok continuation of inc_depth() to a return passes dec_depth() ({len(closes)} close site(s))")
    chk.floor("A5.depth", n_open, 1, "inc_depth() call site")
    # who may touch the counter: only inc_depth/dec_depth (+ constructor)
    writers = set()
    dfield = depth_counter_field(prog) or (".current_depth",)
    for body in prog.bodies.values():
        if R.field_assigns(body, (dfield[0],)) or R.field_assigns(body, (".current_depth",)):
            writers.add(body.path)
    allowed = {inc, dec}
    extra = {w for w in writers if w not in allowed and not w.endswith("::default")}
    if not writers:
        chk.undecided("A10.depth-writers", "current_depth", "src/context.rs", "no assignment to the nesting counter found under a recognisable field name")
    else:
      chk.ob(
        not extra and allowed <= writers,
        "A10.depth-writers",
        "current_depth",
        "src/context.rs",
        "current_depth is written only by inc_depth and dec_depth",
        f"current_depth is written outside inc_depth/dec_depth: {sorted(extra)} (writers found: {sorted(writers)})",
    )
    # inc_depth/dec_depth are called from the element dispatcher only
    for fn in (inc, dec):
        b = prog.body(fn)
        callers = sorted(x.path for x in prog.callers_of(b))
        chk.ob(
            callers == [GEN],
            "A10.depth-callers",
            fn.split("::")[-1],
            b.where(),
            f"{fn.split('::')[-1]} is called only from SvgElement::generate_events (one level per nested element)",
            f"{fn.split('::')[-1]} has unexpected callers {callers}",
        )


# ---------------------------------------------------------------------------
# 3. limit errors are final
# ---------------------------------------------------------------------------

def may_carry_limit_error(prog):
    """local functions returning Result<_, SvgdxError> that can (transitively) produce a limit error"""
    makers = set()
    for body in prog.bodies.values():
        for b, i, s in body.all_stmts():
            rv = s.get("rv")
            if rv and rv["k"] == "aggr" and rv.get("adt") == ERR and rv.get("variant") in LIMITS.values():
                makers.add(body.id)
    # backwards closure over the call graph
    seen = set(makers)
    work = list(makers)
    while work:
        x = work.pop()
        for c in prog.redges.get(x, ()):
            if c not in seen:
                seen.add(c)
                work.append(c)
    return makers, seen


def limit_errors_final(prog, chk):
    makers, carriers = may_carry_limit_error(prog)
    chk.floor("A13.limit-makers", len(makers), 4, "function constructing a limit error")
    pt = prog.body("svgdx::transform::process_tags")
    chk.touch(pt)
    vidx = {v: R.enum_variant_index(prog, ERR, v) for v in LIMITS.values()}
    gens = R.calls_to(pt, lambda c: (c.decl_path == "svgdx::transform::EventGen::generate_events" or c.path.endswith(" as svgdx::transform::EventGen>::generate_events")))
    pushes = [(b, t, c) for (b, t, c) in R.calls_to(pt, R.path_endswith("::push")) if "OrderIndex" in t["args"][1].get("m", t["args"][1].get("c", [0, []]))[0:0].__class__.__name__ or True]
    # retry queue = Vec<(OrderIndex, Tag)>::push
    pushes = [(b, t, c) for (b, t, c) in pushes if "svgdx::events::Tag" in c.inst and "OrderIndex" in c.inst]
    chk.floor("A13.retry-push", len(pushes), 1, "push onto the retry queue in process_tags")
    chk.floor("A13.gen-call", len(gens), 1, "generate_events call in process_tags")
    if not pushes or not gens:
        return
    # switches on the discriminant of an SvgdxError
    sw_blocks = {}
    for b in sorted(pt.reachable):
        t = pt.term(b)
        if t["k"] != "switch":
            continue
        pl = op_place(t["op"])
        if pl is None:
            continue
        for s in pt.stmts(b):
            if "lhs" in s and P(s["lhs"]) == pl and s["rv"]["k"] == "discr" and s["rv"]["ty"] == ERR:
                sw_blocks[b] = t
    for (gb, gt, gc) in gens:
        for (pb, ptm, pc) in pushes:
            where = pt.where(pb, ptm.get("line"))
            # (a) every path from the call to the push passes a discriminant test of the error
            r = pt.reach([gt["t"]], avoid=set(sw_blocks))
            bypass = pb in r
            # (b) the edges for the three limit variants never lead to the push and do not produce Ok
            leaks = []
            covered = set()
            for sb, st in sw_blocks.items():
                tmap = {v: tgt for v, tgt in st["vals"]}
                for name, vi in vidx.items():
                    tgt = tmap.get(vi, st["otherwise"])
                    if vi in tmap:
                        covered.add(name)
                    reg = pt.reach([tgt])
                    if pb in reg:
                        leaks.append((sb, name))
            # a switch that does not list a limit variant sends it to `otherwise`; if that reaches the push it leaks
            first = [sb for sb in sw_blocks if sb in pt.reach([gt["t"]])]
            ok = (not bypass) and first and not [l for l in leaks if l[0] in first and _is_first_filter(pt, l[0], first, gt["t"])]
            # simpler, sound formulation: from the call, with the *limit* edges of every error switch removed,
            # the push must still be reachable (normal errors are retried) and with only limit edges kept it must not be.
            limit_edges = set()
            for sb, st in sw_blocks.items():
                tmap = {v: tgt for v, tgt in st["vals"]}
                if all(vi in tmap for vi in vidx.values()):
                    for vi in vidx.values():
                        limit_edges.add((sb, tmap[vi]))
            filtering = [sb for sb, st in sw_blocks.items() if all(vi in {v for v, _ in st["vals"]} for vi in vidx.values())]
            r2 = R.reach_disc(pt, [gt["t"]], avoid=set(filtering), prog=prog)
            every_path_filtered = pb not in r2
            leak_after = []
            for sb in filtering:
                tmap = {v: tgt for v, tgt in sw_blocks[sb]["vals"]}
                for name, vi in vidx.items():
                    reg = pt.reach_flags([tmap[vi]])  # `matches!(err, A | B | C)` sets a flag that is branched on next
                    if pb in reg:
                        leak_after.append(name)
                    if R.assigns_result_variant(pt, reg, "Ok") and not R.assigns_result_variant(pt, reg, "Err") and not _returns_call_result(pt, reg):
                        leak_after.append(name + ":returns-Ok")
                    for other in ("MultiError", "MessageError", "InvalidData", "ParseError"):
                        if R.constructs_variant(pt, reg, ERR, other):
                            # the limit error is wrapped into another error: an enclosing process_tags no longer sees a limit
                            # variant, treats it as an ordinary failure and queues the container for retry
                            leak_after.append(f"{name}:re-wrapped-as-{other}")
            chk.ob(
                bool(filtering) and every_path_filtered and not leak_after,
                "A13.limit-final",
                "process_tags:retry-push",
                where,
                "every path from generate_events() to the retry queue passes a test of the error's variant that lists LoopLimitError, VarLimitError and DepthLimitExceeded, and those edges return the error instead of queueing the element",
                f"a limit error can be queued for retry (re-running side effects and truncating output): filtering_switches={len(filtering)}, path_bypassing_filter={not every_path_filtered}, limit_edges_reaching_queue={sorted(set(leak_after))}",
            )
    # (c) nobody else swallows a Result that may carry a limit error
    from sa import errfate
    n_sites = 0
    for body in prog.bodies.values():
        for site in errfate.result_fates(prog, body):
            tgts = [x.id for x in prog.targets_of_callee(site.callee)] if site.callee else []
            if not any(t in carriers for t in tgts):
                continue
            n_sites += 1
            where = body.where(site.bb, site.line)
            key = f"{body.short}:{site.callee.path.split('::')[-1]}"
            base = site.fate.split(":")[0].replace("transformed-", "")
            if base in ("propagated", "returned", "matched-returned"):
                chk.ok("A6.limit-carrier", key + ":" + site.fate, where, f"Result of {site.callee.path} (may carry a limit error) is {site.fate}")
            elif body.path == "svgdx::transform::process_tags" and site.callee.decl_path == "svgdx::transform::EventGen::generate_events":
                chk.ok("A6.limit-carrier", key + ":collector", where, "collector: discharged by A13.limit-final (variant test before queueing)")
            elif base == "matched" and body.path.startswith(("svgdx::server::", "svgdx::cli::", "svgdx::main")) and not body.raw.get("output", "").startswith("std::result::Result<"):
                # a front-end that cannot hand the error further up reads it (to render it): reported, not swallowed -
                # that the report is faithful is C07's subject (A6.frontend-verdict, A13.http-status / exit-status)
                chk.ok("A6.limit-carrier", key + ":front-end", where, f"front-end reads the error of {site.callee.path} to report it")
            elif (body.path, site.callee.path) in SWALLOW_OK:
                chk.ok("A6.limit-carrier", key + ":table", where, SWALLOW_OK[(body.path, site.callee.path)], by="table")
            else:
                chk.bad("A6.limit-carrier", key + ":" + site.fate, where, f"Result of {site.callee.path} may carry a limit error but is {site.fate} here ({site.detail}) - a limit would be silently ignored")
    chk.floor("A6.limit-carrier", n_sites, 20, "call site whose Result may carry a limit error")


# (function, callee) -> reason: sites where a Result that may carry a limit error is deliberately not propagated
SWALLOW_OK = {
    ("svgdx::cli::run", "svgdx::transform_file"): "watch mode: the error (Display) is printed to stderr and the watcher keeps running by design; the one-shot path propagates with `?`",
}


def _is_first_filter(pt, sb, first, start):
    return True


def _returns_call_result(body, region):
    for b in region:
        t = body.term(b)
        if t["k"] == "call" and t["dest"][0] == 0 and not t["dest"][1]:
            return True
    return False


# ---------------------------------------------------------------------------
# 4. wiring of the limit values
# ---------------------------------------------------------------------------

def limits_wiring(prog, chk):
    from sa import hirq
    ce = "<svgdx::transform::ConfigElement as svgdx::transform::EventGen>::generate_events"
    h = prog.hir.get(prog.body(ce).id)
    want = {"loop-limit": "loop_limit", "var-limit": "var_limit", "depth-limit": "depth_limit"}
    table = hirq.match_str_arms_assign_fields(h)
    for k, f in want.items():
        got = table.get(k)
        chk.ob(
            got == [f],
            "A15.config-wiring",
            f"ConfigElement:{k}",
            prog.body(ce).where(),
            f'<config {k}="..."> assigns TransformConfig::{f}',
            f'<config {k}="..."> assigns {got} (expected [{f}])',
        )
    # the value assigned is the parsed attribute itself: no clamping / min / max / arithmetic on a limit the author sets
    cb0 = prog.body(ce)
    for k, f in want.items():
        # (the assignment may sit in a closure of the function - `attrs.iter().try_for_each(|(k, v)| set(.., k, v))`)
        found = [(bd, x) for bd in [cb0] + list(prog.closures_of(cb0)) for x in R.field_assigns(bd, ("." + f,))]
        if not found:
            chk.undecided("A15.config-wiring", f"ConfigElement:{k}:direct", cb0.where(), f"no assignment to TransformConfig::{f} is found in ConfigElement::generate_events or its closures: where <config {k}=..> is stored is not read here")
            continue
        good = True
        why = ""
        for (cb, (bb, i, st)) in found:
            rv = st["rv"]
            o = R.origin(cb, rv.get("op"), carriers={}) if rv["k"] == "use" else ("rv", rv)
            # through `?`: the Continue payload of branch(parse(..))
            src = None
            if o[0] == "call" and "fn" in o[2]:
                src = Callee(o[2]["fn"])
                if src.decl_path.endswith("Try::branch") and o[2]["args"]:
                    o2 = R.origin(cb, o[2]["args"][0], carriers={})
                    src = Callee(o2[2]["fn"]) if o2[0] == "call" and "fn" in o2[2] else None
            if not (src is not None and src.path.split("::")[-1] in ("parse", "from_str")):
                good = False
                why = f"assigned from {src.path if src is not None else o[0]}"
        chk.ob(good, "A15.config-wiring", f"ConfigElement:{k}:direct", cb0.where(), f"TransformConfig::{f} is set to the parsed attribute value itself", f"<config {k}=..> does not store the parsed value itself ({why}): a document within the limit it configures can be rejected (or one beyond it accepted)")
    # set_config stores the whole config
    sc = prog.body("svgdx::context::TransformerContext::set_config")
    stores = [s for (b, i, s) in R.field_assigns(sc, (".config",))]
    chk.ob(len(stores) >= 1, "A15.config-wiring", "set_config:store", sc.where(), "set_config stores the new configuration in the context", "set_config does not store the configuration")
    if "cli" in prog.features:
        fa = prog.maybe_body("svgdx::cli::Config::from_args")
        if fa is None:
            chk.anchor_missing("A15.cli-wiring", "svgdx::cli::Config::from_args not found")
        else:
            hh = prog.hir.get(fa.id)
            pairs = hirq.struct_field_inits(hh, CFG)
            for f in want.values():
                src = pairs.get(f)
                chk.ob(
                    src == f,
                    "A15.cli-wiring",
                    f"from_args:{f}",
                    fa.where(),
                    f"CLI copies args.{f} into TransformConfig::{f}",
                    f"CLI initialises TransformConfig::{f} from `{src}`",
                )


def var_limit_follows_every_evaluation(prog, chk):
    """<var>: every value that comes out of an evaluation is compared with var_limit before the next attribute is looked
    at (or the result handed back).  A way round the comparison - "nothing changes, skip it" - lets a value that is
    over the limit in force stay visible under that name"""
    ve = prog.maybe_body("<svgdx::transform::VarElement as svgdx::transform::EventGen>::generate_events")
    if ve is None:
        chk.anchor_missing("A7.var-limit-after-eval", "VarElement::generate_events not found")
        return
    n = 0
    for bd in [ve] + list(prog.closures_of(ve)):
        evals = bd.call_sites(lambda c: c.path.endswith("expression::eval_attr"))
        tests = {x for (x, i, node) in R.place_reads(bd, (".var_limit",))}
        if not evals:
            continue
        if not tests:
            chk.undecided("A7.var-limit-after-eval", f"{bd.short}", bd.where(), f"{bd.short} evaluates attribute values but does not read var_limit itself: where the evaluated values are tested is not read here")
            continue
        for (eb, et, ec) in evals:
            n += 1
            # the Ok continuation of the evaluation
            starts = [et["t"]] if et.get("t") is not None else []
            brk = R.try_break_edges(bd, et["dest"][0]) if et.get("dest") and not et["dest"][1] else []
            avoid = set(tests) | {tgt for (_a, tgt) in (brk or [])}
            lp = R.loop_containing(bd, eb)
            goals = [lp[0]] if lp is not None else [x for x in bd.reachable if bd.term(x)["k"] == "ret"]
            skip = R.feasible_reach(bd, starts, goals, avoid=avoid)
            chk.ob(not skip, "A7.var-limit-after-eval", f"{bd.short}:eval_attr", bd.where(eb, et.get("line")), "the evaluated value is compared with var_limit on every way to the next attribute", f"after the evaluation at {bd.where(eb, et.get('line'))} the {'next pass of the loop' if lp is not None else 'result'} can be reached without the comparison with var_limit: a value longer than the limit in force is accepted on that way (e.g. when it equals what the variable already holds)")
    chk.floor("A7.var-limit-after-eval", n, 1, "evaluation of a <var> attribute")


def scope_var_limit(prog, chk):
    """values that become variables are bounded wherever they can grow: a scope created from an element whose attributes
    were *evaluated* (so `$a$a` has been expanded) must be preceded by the var_limit test; scopes created from the
    element as written in the document are bounded by the input and need none"""
    PUSHP = "svgdx::context::TransformerContext::push_element"
    n = 0
    for body in prog.bodies.values():
        pushes = body.call_sites(R.path_is(PUSHP))
        if not pushes or body.path == PUSHP:
            continue
        evald = set()
        for (bb, t, c) in body.call_sites(R.path_endswith("SvgElement::eval_attributes")):
            l = R.origin_local(body, t["args"][0])
            if l is not None:
                evald.add((l, bb))
        for (bb, t, c) in pushes:
            n += 1
            l = R.origin_local(body, t["args"][1]) if len(t["args"]) > 1 else None
            grows = any(l == el and body.dominates(eb, bb) for (el, eb) in evald)
            key = f"{body.short}:push_element"
            if not grows:
                chk.ok("A7.scope-var-limit", key, body.where(bb, t.get("line")), "the scope is created from the element as written (attribute text bounded by the input)")
                continue
            # the test sits in a loop over the attributes: the loop's header (not its body) dominates the push
            def _guards(x):
                if body.dominates(x, bb):
                    return True
                lp = R.loop_containing(body, x)
                return lp is not None and body.dominates(lp[0], bb) and bb not in lp[1]
            # ... and it tests the values *after* they were evaluated (an expansion is what can exceed the limit)
            evals_of = [eb for (el, eb) in evald if el == l]
            reads = [x for (x, i, node) in R.place_reads(body, (".var_limit",)) if _guards(x) and any(body.dominates(eb, x) for eb in evals_of)]
            errs = R.constructs_variant(body, body.reachable, "svgdx::errors::SvgdxError", "VarLimitError")
            chk.ob(bool(reads) and errs, "A7.scope-var-limit", key, body.where(bb, t.get("line")), "the evaluated attributes that become variables of the new scope are tested against var_limit first", f"{body.short} evaluates the element's attributes and makes them variables of a new scope without testing them against var_limit: a recursive <reuse> whose attribute mentions itself twice doubles the value at every level (memory exhaustion long before the depth limit)")
    chk.floor("A7.scope-var-limit", n, 2, "push_element call site")
    # an element whose attributes were evaluated and which is then *dispatched again* (converted back into an input
    # event, or generate_events called on it) may be a container that pushes those attributes as variables in turn
    m = 0
    for body in prog.bodies.values():
        if body.unit != "svgdx-lib":
            continue
        for (eb, et, ec) in body.call_sites(R.path_endswith("SvgElement::eval_attributes")):
            l = R.origin_local(body, et["args"][0])
            if l is None or body.local_name(l) == "self":
                continue
            sinks = [(b, t, c) for (b, t, c) in _redispatch_sinks(body, l) if b in body.reach([eb])]
            if not sinks:
                continue
            m += 1
            # a var_limit test in a loop over this element's attributes, whose header dominates every sink
            guards = []
            for (x, i, node) in R.place_reads(body, (".var_limit",)):
                lp = R.loop_containing(body, x)
                if lp is not None and _attrs_loop_element(body, lp[0]) == l and body.dominates(eb, lp[0]):
                    guards.append(lp)
            name = body.local_name(l)
            # (a test that sits before the evaluation cannot be the one that sees the evaluated values)
            later = [x for (x, i, node) in R.place_reads(body, (".var_limit",)) if x != eb and body.dominates(eb, x)]
            in_closures = any(R.place_reads(cb_, (".var_limit",)) for cb_ in prog.bodies.values() if cb_.root == body.id)
            if not guards and (later or in_closures):
                # var_limit is consulted in this function, but not in a `for .. in &L.attrs` loop the rule can read (an
                # iterator chain, a helper): no verdict on whether every attribute passes it
                chk.undecided("A7.scope-var-limit", f"{body.short}:{name}:redispatch", body.where(eb, et.get("line")), f"var_limit is tested in {body.short}, but not in a loop over the attributes of `{name}` that the rule can read")
                continue
            for (b, t, c) in sinks:
                def _gates(hdr, blk):
                    if body.dominates(hdr, blk):
                        return True
                    # the test sits in a helper spliced in here whose early `return Err(..)` joins the `Ok(..)` exit
                    # before `?`: every *feasible* path to the sink still passes the loop
                    from sa import vstate
                    return vstate.of(body, prog).passes_through(hdr, blk)
                ok = any(b not in lp[1] and _gates(lp[0], b) for lp in guards) and R.constructs_variant(body, body.reachable, "svgdx::errors::SvgdxError", "VarLimitError")
                chk.ob(ok, "A7.scope-var-limit", f"{body.short}:{name}:redispatch", body.where(b, t.get("line")), f"`{name}` (attributes evaluated) is processed as an element again only after its attributes passed a var_limit test", f"{body.short} evaluates the attributes of `{name}` and then processes it as an element again without testing them against var_limit: if it is a container its (expanded) attributes become variables of its content - a group that reuses itself with v=\"$v$v\" doubles the value at every level (memory exhaustion long before the depth limit)")
    chk.floor("A7.scope-var-limit:redispatch", m, 1, "element evaluated and dispatched again")
    # every attribute of the loop reaches the test: the only licence to skip one is that its value is the one written
    # in the document (a comparison against a lookup in the unevaluated attributes), never its *name*
    k = 0
    for body in prog.bodies.values():
        if body.unit != "svgdx-lib":
            continue
        seen_loops = set()
        for (x, i, node) in R.place_reads(body, (".var_limit",)):
            lp = R.loop_containing(body, x)
            if lp is None or lp[0] in seen_loops or _attrs_loop_element(body, lp[0]) is None:
                continue
            seen_loops.add(lp[0])
            k += 1
            # the block that performs the comparison against the limit
            cmpb = x
            skips = []
            # where the loop itself stores each attribute it lets through (`new_vars.push((name, value))`, set_var) and
            # that store comes after the comparison, an attribute that skips the comparison is not stored either (the
            # `_` / `__` comments of <var>): only loops whose element is pushed as a scope wholesale are in question
            stores = [sb for (sb, st_, sc_) in body.call_sites(lambda c: c.path.endswith("::push") or c.path.endswith("TransformerContext::set_var")) if sb in lp[1] and sb != cmpb and body.dominates(cmpb, sb)]
            if stores:
                chk.ok("A7.scope-var-limit", f"{body.short}:every-attribute", body.where(lp[0]), "attributes are stored one by one after the var_limit test: one that skips the test is not stored")
                continue
            for sblk in sorted(lp[1]):
                t = body.term(sblk)
                if t["k"] != "switch" or sblk == cmpb or body.dominates(cmpb, sblk):
                    continue
                # a successor from which the header is reached again without passing the comparison
                bypass = [y for y in body.succ[sblk] if y in lp[1] and lp[0] in body.reach([y], avoid={cmpb}) and y != lp[0] or y == lp[0]]
                through = [y for y in body.succ[sblk] if cmpb in body.reach([y], avoid={lp[0]}) or y == cmpb]
                if not bypass or not through:
                    continue
                o = R.origin(body, t["op"], carriers={})
                if o[0] == "rv" and o[1].get("k") == "discr" and "Option<" in o[1].get("ty", "") and "(&" in o[1].get("ty", ""):
                    continue  # the iterator's own Some/None test
                if _derives_from_map_lookup(body, t["op"]):
                    continue
                skips.append(body.where(sblk, t.get("line")))
            chk.ob(not skips, "A7.scope-var-limit", f"{body.short}:every-attribute", body.where(lp[0]), "every attribute that becomes a variable reaches the var_limit test (values unchanged by evaluation excepted)", f"{body.short}: some attributes skip the var_limit test by a condition that does not compare the value with the one written in the document ({', '.join(skips)}); every attribute of the element becomes a variable of the new scope, so an exempted *name* (e.g. id=\"$id$id\") still doubles at every level of a recursive reuse")
    chk.floor("A7.scope-var-limit:every-attribute", k, 2, "var_limit loop over an element's attributes")


def _derives_from_map_lookup(body, op, depth=6):
    """does the operand come from comparing with the result of a HashMap lookup (`source_attrs.get(key) == Some(value)`)?"""
    o = R.origin(body, op, carriers={})
    if o[0] == "call" and "fn" in o[2]:
        c = Callee(o[2]["fn"])
        if "HashMap" in c.inst and c.path.split("::")[-1] == "get":
            return True
        if depth > 0:
            return any(_derives_from_map_lookup(body, a, depth - 1) for a in o[2]["args"])
    if o[0] == "rv" and depth > 0:
        rv = o[1]
        for kk in ("op", "a", "b"):
            if isinstance(rv.get(kk), dict) and _derives_from_map_lookup(body, rv[kk], depth - 1):
                return True
        if rv.get("k") == "ref":
            pl = P(rv["place"])
            d = body.single_def(pl[0])
            if d is not None and d[1] == R.TERM and "fn" in d[2]:
                c = Callee(d[2]["fn"])
                if "HashMap" in c.inst and c.path.split("::")[-1] == "get":
                    return True
    return False


def single_dispatch_entry(prog, chk):
    """depth is counted in one place, the dispatcher `<SvgElement as EventGen>::generate_events`: every element-specific
    generate_events (loop, for, reuse, g, var, config, if, specs, defaults, containers, other) is called from there and
    from nowhere else, so no kind of element is processed without being counted against depth_limit"""
    import collections

    GEN_ = "<svgdx::element::SvgElement as svgdx::transform::EventGen>::generate_events"
    rev = collections.defaultdict(set)
    for a, ts in prog.edges.items():
        for t in ts:
            rev[t].add(a)
    n = 0
    for b in prog.bodies.values():
        if not b.path.endswith("as svgdx::transform::EventGen>::generate_events") or b.path == GEN_ or b.path.startswith("<svgdx::events::Tag "):
            continue
        n += 1
        callers = sorted(prog.bodies[x].path for x in rev[b.id])
        # the dispatch may sit in a closure of the dispatcher that a scope guard runs behind inc_depth()?
        gd_ = prog.body(GEN_)
        inc_ = R.calls_to(gd_, R.path_is("svgdx::context::TransformerContext::inc_depth"))
        if inc_:
            brk_ = R.try_break_edges(gd_, inc_[0][1]["dest"][0])
            cont_ = [tgt for v, tgt in gd_.term(brk_[0][0])["vals"] if v == 0] if brk_ else []
            from props import C01_rec as _rec
            for cb_ in prog.closures_of(gd_):
                if cb_.path in callers and cont_ and _rec.closure_runs_under(prog, gd_, cb_, cont_[0]):
                    callers = sorted(set(GEN_ if x == cb_.path else x for x in callers))
        chk.ob(callers == [GEN_], "A5.depth-entry", b.short.split(" as ")[0].lstrip("<"), b.where(), f"{b.short.split(' as ')[0].lstrip('<')} is processed only through the depth-counting dispatcher", f"{b.short} is also called from {[c for c in callers if c != GEN_]}: elements of that kind reach their handler without passing inc_depth(), so they are not counted against depth_limit (accepted at depth limit+1)")
    chk.floor("A5.depth-entry", n, 11, "element-specific generate_events implementation")


def depth_test_unconditional(prog, chk):
    """inc_depth(): the comparison with depth_limit is made on every call - it is not guarded by any other condition
    (not skipped inside <specs>, for particular element kinds, ...)"""
    b = prog.body("svgdx::context::TransformerContext::inc_depth")
    chk.touch(b)
    cmp_blocks = []
    for x, i, st in b.all_stmts():
        rv = st.get("rv")
        if rv and rv.get("k") == "binop" and rv.get("op") in ("Gt", "Ge", "Lt", "Le"):
            for sd in ("a", "b"):
                pl = op_place(rv[sd])
                if pl is not None:
                    ch = b.chase(rv[sd])
                    if ch[0] == "place" and ch[1][1] and ch[1][1][-1] == ".depth_limit":
                        cmp_blocks.append(x)
    if not cmp_blocks:
        chk.anchor_missing("A7.depth-unconditional", "inc_depth: comparison with depth_limit not found")
        return
    from sa import discharge as D
    guarded = [a for x in cmp_blocks for (a, tgt) in D.dominating_edges(b, x) if b.term(a)["k"] == "switch"]
    chk.ob(not guarded, "A7.depth-unconditional", "inc_depth", b.where(cmp_blocks[0]), "the depth test is evaluated on every call of inc_depth()", "the depth test in inc_depth() is evaluated only under another condition: nesting / reuse recursion in the exempted situation (e.g. inside <specs>) is unbounded and overflows the stack instead of being rejected")



def specs_flag_pairing(prog, chk):
    """`in_specs` - which makes a second <specs> an error ("nested") - is true only while the content of a <specs>
    block is processed: every path from the place it is set to a return passes the place it is cleared (or restored).
    An exit that leaves it set (the empty `<specs/>`, a failing block) rejects the next, perfectly legal, block"""
    n = 0
    for body in prog.bodies.values():
        if body.unit != "svgdx-lib" or body.path.endswith("::default") or body.path.endswith("::new"):
            continue
        opens, closes, closed_edges = [], [], []
        for x, i, st in body.all_stmts():
            if "lhs" in st and st["lhs"][1] and st["lhs"][1][-1] == ".in_specs":
                k = op_const(st["rv"].get("op")) if st["rv"].get("k") == "use" else None
                if k is not None and k.get("bool") is True:
                    opens.append((x, i, st.get("line")))
                else:
                    closes.append((x, i))  # false, or the saved value
        for (bb, t, c) in body.call_sites(lambda c: c.path.split("::")[-1] in ("replace", "take") and c.path.startswith(("std::mem::", "core::mem::"))):
            o = R.origin(body, t["args"][0], carriers={})
            if not (o[0] == "field" and o[1][1] and o[1][1][-1] == ".in_specs"):
                continue
            k = op_const(t["args"][1]) if len(t["args"]) > 1 else None
            if k is not None and k.get("bool") is True:
                opens.append((bb, R.TERM, t.get("line")))
                # where the old value turns out to be `true` nothing changed
                for (sb, st_) in [(x, body.term(x)) for x in body.reachable if body.term(x)["k"] == "switch"]:
                    oo = R.origin(body, st_["op"], carriers={})
                    if oo[0] == "call" and oo[1] == bb:
                        tt, ft = R.switch_targets_bool(st_)
                        closed_edges.append((sb, tt))
            else:
                closes.append((bb, R.TERM))
        if not opens:
            continue
        chk.touch(body)
        if not closes:
            # a setter (`enter_specs()`): returning with the flag set is its job; pairing is its callers' business
            n += 1
            chk.undecided("A5.specs-flag", f"{body.short}:in_specs", body.where(opens[0][0], opens[0][2]), f"{body.short} sets `in_specs` and never clears it itself (a setter that was not spliced into its callers): whether its callers pair it with the reset is not followed")
            continue
        for (x, i, line) in opens:
            n += 1
            esc = R.escapes(body, (x, i), closes, closed_edges=closed_edges)
            chk.ob(not esc, "A5.specs-flag", f"{body.short}:in_specs", body.where(x, line), f"every exit after `in_specs` is set passes one of the {len(closes)} place(s) that clear / restore it", f"{len(esc)} exit(s) of {body.short} leave `in_specs` set (lines {R.path_lines(body, esc[0])[-4:] if esc else ''}): the next <specs> block of the document is rejected as nested although none is open")
    chk.floor("A5.specs-flag", n, 1, "place that sets in_specs")



def limit_error_rendering_cannot_panic(prog, chk):
    """"rejected with an error - never a crash": what turns a limit error into its message (the Display / Debug / From
    impls of the error module) has no panic-capable site that no guard rule covers - a message abbreviated with a byte
    slice (`&name[..24]`) panics on the very input that exceeds the limit"""
    from props import C01 as _C01
    reach = {b.id for b in prog.bodies.values() if b.unit == "svgdx-lib" and (b.file or "").endswith("src/errors.rs")}
    if not reach:
        chk.undecided("A2.panic-site", "errors", "src/errors.rs", "no function of the error module found")
        return
    _C01.panic_sites(prog, chk, reach, floor=None)
    chk.ok("A2.panic-site", "errors:scan", "src/errors.rs", f"{len(reach)} function(s) of the error module examined for panic-capable sites")


def limit_errors_seen_everywhere(prog, chk):
    """a limit error is an error of the document wherever it arises: in process_tags no path takes the result of
    generate_events on to the next tag without looking at it.  Inside a <specs> block every result is dropped unseen
    ("a specs entry may have insufficient context until reuse time") - a loop that exceeds loop-limit there, nesting
    beyond depth-limit there, is accepted"""
    pt = prog.body("svgdx::transform::process_tags")
    chk.touch(pt)
    gens = R.calls_to(pt, lambda c: (c.decl_path == "svgdx::transform::EventGen::generate_events" or c.path.endswith(" as svgdx::transform::EventGen>::generate_events")))
    if not gens:
        chk.undecided("A13.limit-final", "process_tags:result-dropped", pt.where(), "process_tags does not call generate_events itself")
        return
    for (gb, gt, gc) in gens:
        lp = R.loop_containing(pt, gb)
        if lp is None or gt.get("t") is None or not gt.get("dest") or gt["dest"][1]:
            chk.undecided("A13.limit-final", "process_tags:result-dropped", pt.where(gb, gt.get("line")), "the per-tag loop of process_tags is not recognisable")
            continue
        seen = {sb for (sb, st) in R.discr_switches_of(pt, gt["dest"][0])}
        for (tb_, tt_, tc_) in pt.call_sites(lambda c: c.decl_path == "std::ops::Try::branch"):
            if tt_.get("args") and R.origin_local(pt, tt_["args"][0]) == gt["dest"][0]:
                seen.add(tb_)
        if not seen:
            chk.undecided("A13.limit-final", "process_tags:result-dropped", pt.where(gb, gt.get("line")), "where process_tags looks at the result of generate_events is not read here")
            continue
        r = pt.reach([gt["t"]], avoid=seen)
        dropped = lp[0] in r
        chk.ob(not dropped, "A13.limit-final", "process_tags:result-dropped", pt.where(gb, gt.get("line")), "every path from generate_events to the next tag looks at its result", "process_tags goes on to the next tag on a path that never looks at the result of generate_events (the `in_specs` case): a LoopLimitError / VarLimitError / DepthLimitExceeded raised inside a <specs> block is dropped with every other error there, and a document that exceeds a limit inside <specs> is accepted")
