"""C07 Front-ends agree, transforms are isolated, and failures leave no damage."""
from sa import rules as R
from sa.prog import P, Callee, op_place, op_const, const_str, const_int

EXPLANATION = (
    "(1) isolation: no mutable / non-Freeze / thread-local static and no process-global mutator anywhere in the crate; "
    "the per-transform state (Transformer/TransformerContext) is created only in transform_stream and contains no "
    "shared-ownership type; the HTTP handler takes only the query and the body and the router carries no state; "
    "(2) one core: every front-end reaches Transformer::transform only through transform_stream and calls into the "
    "library only through a closed table of entry points; (3) front-ends add no verdict of their own after the core "
    "call; (4) failure signalling: the server's Err arm answers 400 text/plain and its Ok arm image/svg+xml, main turns "
    "Err into a failure exit status; (5) every write-capable operation on the user's output path is dominated by the "
    "Ok continuation of the transform, which itself writes to a NamedTempFile; (6) the same-file refusal compares the "
    "canonicalised input and output paths and dominates the only construction of cli::Config. "
    "Undecided: byte equality of the front-ends' outputs under real concurrency is implied by (1)+(2) but OS-level "
    "effects (partially written stdout, partial fs::copy) are not decided."
)
TRUSTED = ["axum/hyper deliver the Response built by the handler unchanged", "std::fs and tempfile semantics", "Path::canonicalize resolves symlinks"]
ASSUMPTIONS = ["Freeze statics without interior mutability cannot carry state between transforms"]

CTX = "svgdx::context::TransformerContext"
FRONT_MODS = ("svgdx::cli", "svgdx::server", "svgdx_server", "svgdx::main")
CORE_ENTRY = "svgdx::transform_stream"

# library items a front-end module may use (everything else in the crate is internal processing)
FRONTEND_MAY_CALL = {
    "svgdx::transform_file": "public file front-end",
    "svgdx::transform_str": "public string front-end",
    "svgdx::transform_stream": "public stream front-end",
    "svgdx::transform_string": "public wasm-style front-end",
    "svgdx::transform_str_default": "public string front-end with default config",
    "svgdx::cli::get_config": "bin -> cli",
    "svgdx::cli::run": "bin -> cli",
    "svgdx::server::start_server": "bin -> server",
    "<svgdx::TransformConfig as std::clone::Clone>::clone": "config value",
    "<svgdx::TransformConfig as std::default::Default>::default": "config value",
    "<svgdx::TransformConfig as std::fmt::Debug>::fmt": "config value",
    "<svgdx::errors::SvgdxError as std::convert::From<&str>>::from": "error value construction (front-end argument errors; see rule A6.frontend-verdict for use after the core call)",
    "svgdx::errors::SvgdxError::from_err": "error value conversion of foreign errors",
    "<svgdx::errors::SvgdxError as std::convert::From<std::io::Error>>::from": "`?` conversion of I/O errors",
    "<svgdx::errors::SvgdxError as std::fmt::Display>::fmt": "error message rendering",
    "<svgdx::errors::SvgdxError as std::fmt::Debug>::fmt": "error message rendering",
    "<svgdx::themes::ThemeType as std::str::FromStr>::from_str": "clap value parser for --theme",
    "<svgdx::themes::ThemeType as std::clone::Clone>::clone": "clap value",
    "<svgdx::themes::ThemeType as std::default::Default>::default": "config value",
}

FS_WRITERS = (
    "std::fs::copy", "std::fs::write", "std::fs::File::create", "std::fs::File::create_new", "std::fs::OpenOptions::open", "std::fs::rename",
    "std::fs::remove_file", "std::fs::hard_link", "std::fs::File::options", "std::fs::File::set_len", "std::fs::File::open_buffered",
    "tempfile::NamedTempFile::persist", "tempfile::NamedTempFile::persist_noclobber", "tempfile::TempPath::persist", "std::fs::OpenOptions::new",
    "std::fs::File::truncate", "std::fs::remove_dir_all", "std::fs::create_dir", "std::fs::create_dir_all", "std::os::unix::fs::symlink",
)
GLOBAL_MUTATORS = ("std::env::set_var", "std::env::remove_var", "std::env::set_current_dir", "std::panic::set_hook", "std::panic::take_hook", "std::process::exit", "std::process::abort")
SHARED_TYPES = ("std::rc::Rc<", "std::sync::Arc<", "&'static mut", "std::sync::Mutex<", "std::sync::RwLock<", "std::sync::atomic::", "*mut ", "*const ", "std::sync::OnceLock<", "std::sync::LazyLock<", "std::cell::OnceCell<")


def front_mod(path):
    for m in FRONT_MODS:
        if path.startswith(m + "::") or path == m or ("<" + m + "::") in path[: len(m) + 2] or path.startswith("<" + m + "::"):
            return m
    return None


def run(prog, chk):
    chk.rule(isolation, prog, chk)
    chk.rule(one_core, prog, chk)
    chk.rule(frontend_verdicts, prog, chk)
    chk.rule(failure_signal, prog, chk)
    chk.rule(output_file, prog, chk)
    chk.rule(same_file, prog, chk)
    chk.rule(checked_paths_are_used, prog, chk)
    chk.rule(cli_config_mapping, prog, chk)
    chk.rule(output_replaced_unconditionally, prog, chk)
    chk.rule(io_discipline, prog, chk)
    chk.rule(server_stack, prog, chk)
    chk.rule(input_bytes_untouched, prog, chk)
    from props import C06
    chk.rule(C06.hash_iteration, prog, chk)  # the same bytes from every front-end presupposes that no unordered iteration reaches the output
    from props import C01
    chk.rule(C01.utf8_boundary, prog, chk)  # transform_str converts the output to a String: every front-end agrees only if all input is validated up front
    from props import xmlsink as _X
    chk.rule(_X.single_serialiser, prog, chk)  # the same bytes on stdout as in the file / the library / the server: everything goes through write_to, written completely (write_all)


TEXT_MODE_READS = ("std::io::BufRead::lines", "std::io::BufRead::read_line", "std::io::Read::read_to_string", "std::io::read_to_string", "std::string::String::from_utf8_lossy", "std::fs::read_to_string", "std::io::Stdin::lines", "std::io::Stdin::read_line")


def input_bytes_untouched(prog, chk):
    """every front-end hands the document to the library as the bytes it received: none of them reads it line by
    line or as lossy text first (which rewrites line ends, adds a final newline, replaces invalid sequences) - the
    library call and the other front-ends would then transform a different document"""
    n = 0
    for b in prog.bodies.values():
        if not (front_mod(b.path) or b.path.startswith("svgdx::transform_file") or prog.owners_of(b.path) & {"svgdx::transform_file", "svgdx::transform_str", "svgdx::transform_stream"}):
            continue
        if b.path.startswith("svgdx::cli::get_config") or "Config::from_args" in b.path:
            continue
        n += 1
        for (bb, t, c) in b.call_sites(lambda c: c.decl_path in TEXT_MODE_READS or c.path in TEXT_MODE_READS):
            chk.bad("A13.input-bytes", f"{b.short}:{c.path.split('::')[-1]}", b.where(bb, t.get("line")), f"{b.short} reads its input through {c.path} (text mode: line ends are normalised, a final newline appears, or invalid bytes are replaced) before the transform: the same document gives different output through this front-end than through the library")
    if "cli" in prog.features:
        chk.floor("A13.input-bytes", n, 3, "front-end function scanned for text-mode reads")
    chk.ok("A13.input-bytes", "front-ends", "-", f"{n} front-end functions scanned: the document reaches the library as bytes")


# ---------------------------------------------------------------------------
def isolation(prog, chk):
    static_state(prog, chk)
    per_transform_state(prog, chk)


def static_state(prog, chk):
    """no static, thread-local or process-global state that a transform could write (shared with C06: repeating a
    transform in the same process gives the same bytes)"""
    statics = [i for i in prog.items if i["item"] == "static"]
    for it in statics:
        ok = (not it["mutable"]) and it["freeze"] and not it["thread_local"]
        chk.ob(
            ok,
            "A9.static",
            it["path"],
            f"{it['file']}:{it['line']}",
            f"static {it['path']}: {it['ty']} is immutable and Freeze (cannot carry state between transforms)",
            f"static {it['path']}: {it['ty']} can hold state that outlives a transform (mutable={it['mutable']}, interior-mutable={not it['freeze']}, thread_local={it['thread_local']}) - results of one request can leak into another",
        )
    chk.floor("A9.static", len(statics), 2, "static item (COLOUR_LIST, DARK_COLOURS)")
    for it in prog.items:
        if it["item"] == "const" and ("std::thread::LocalKey<" in it["ty"] or "thread::local" in it["ty"]):
            chk.bad("A9.static", it["path"], f"{it['file']}:{it['line']}", f"thread_local! {it['path']}: state shared by all transforms on a thread")
    n = 0
    for body in prog.bodies.values():
        for (bb, t, c) in body.call_sites(lambda c: c.path.startswith(GLOBAL_MUTATORS)):
            n += 1
            chk.bad("A9.global-mutator", f"{body.short}:{c.path}", body.where(bb, t.get("line")), f"process-global mutator {c.path} called")
        for b, i, s in body.all_stmts():
            rv = s.get("rv")
            if rv and rv["k"] == "tlsref":
                chk.bad("A9.static", f"{body.short}:tls", body.where(b, s.get("line")), f"thread-local {rv['def']} accessed")
    chk.ok("A9.global-mutator", "none", "-", f"no call to {', '.join(x.split('::')[-1] for x in GLOBAL_MUTATORS)} in {len(prog.bodies)} bodies")


def per_transform_state(prog, chk):
    # per-transform state: type walk
    bad = []
    seen = set()

    def walk(ty, trail):
        for s in SHARED_TYPES:
            if s in ty:
                bad.append((trail, ty))
        base = ty.lstrip("&").replace("mut ", "").split("<")[0].strip()
        for name in _adt_names_in(prog, ty):
            if name in seen:
                continue
            seen.add(name)
            it = prog.item(name, "adt")
            if it:
                for v in it["variants"]:
                    for f in v["fields"]:
                        walk(f["ty"], trail + [f"{name.split('::')[-1]}.{f['name']}"])

    walk(CTX, [])
    walk("svgdx::TransformConfig", [])
    chk.ob(
        not bad,
        "A9.context-types",
        "TransformerContext",
        "src/context.rs",
        f"TransformerContext/TransformConfig own all their state ({len(seen)} local types walked; no Rc/Arc/Mutex/atomic/raw pointer/&'static mut)",
        f"per-transform state contains shared-ownership types: {bad[:4]}",
    )
    for fn in ("svgdx::transform::Transformer::from_config", "svgdx::transform::Transformer::transform"):
        b = prog.body(fn)
        callers = sorted(x.path for x in prog.callers_of(b) if "::tests::" not in x.path)
        chk.ob(callers == [CORE_ENTRY], "A10.fresh-context", fn.split("::")[-1], b.where(), f"{fn} is called only from transform_stream (a fresh Transformer per call)", f"{fn} callers: {callers}")
    cf = prog.body(CTX + "::from_config")
    callers = sorted(x.path for x in prog.callers_of(cf))
    chk.ob(callers == ["svgdx::transform::Transformer::from_config"], "A10.fresh-context", "TransformerContext::from_config", cf.where(), "a TransformerContext is created only by Transformer::from_config", f"TransformerContext::from_config callers: {callers}")
    ts = prog.body(CORE_ENTRY)
    # the Transformer is a local of transform_stream (not stored anywhere)
    tl = [i for i, l in enumerate(ts.locals) if l["ty"] == "svgdx::transform::Transformer"]
    stored = False
    for l in tl:
        for (b, i, node, how) in R.uses_of(ts, l):
            if how == "operand":
                stored = True
    chk.ob(bool(tl) and not stored, "A10.fresh-context", "transform_stream:local", ts.where(), "the Transformer lives in a local of transform_stream and is dropped at its end", "the Transformer escapes transform_stream")
    if "server" in prog.features:
        h = prog.item("svgdx::server::transform", "fn")
        chk.ob(
            h is not None and [x.split("<")[0] for x in h["inputs"]] == ["axum::extract::Query", "std::string::String"],
            "A9.handler-state",
            "server::transform:signature",
            "src/server.rs",
            "the transform handler receives only Query<RequestConfig> and the request body",
            f"transform handler inputs are {h['inputs'] if h else None} (State/Extension extractors would share state between requests)",
        )
        ss = prog.body("svgdx::server::start_server::{closure#0}")
        stateful = [c.path for (bb, t, c) in ss.call_sites(lambda c: c.path.split("::")[-1] in ("with_state", "layer", "route_layer", "fallback_service", "nest_service") or "Extension" in c.path)]
        chk.ob(not stateful, "A9.handler-state", "start_server:router", ss.where(), "the router is built without state, layers or extensions", f"router carries shared state/layers: {stateful}")


def _adt_names_in(prog, ty):
    out = []
    cur = ""
    for ch in ty + ",":
        if ch.isalnum() or ch in "_:":
            cur += ch
        else:
            if "::" in cur and prog.item(cur, "adt") is not None:
                out.append(cur)
            cur = ""
    return out


# ---------------------------------------------------------------------------
def one_core(prog, chk):
    n = 0
    for body in prog.bodies.values():
        m = front_mod(body.path)
        if not m:
            continue
        for tid in sorted(prog.edges.get(body.id, ())):
            tg = prog.bodies[tid]
            if front_mod(tg.path) == m:
                continue
            if tg.root and front_mod(prog.bodies[tg.root].path if tg.root in prog.bodies else "") == m:
                continue
            n += 1
            if tg.path in FRONTEND_MAY_CALL:
                chk.ok("A1.one-core", f"{body.short}->{tg.short}", body.where(), f"front-end uses library entry point {tg.short} ({FRONTEND_MAY_CALL[tg.path]})", by="table")
            elif "svgdx::errors::" in tg.path:
                chk.ok("A1.one-core", f"{body.short}->{tg.short}", body.where(), "a helper of the error module (builds / converts error values; no processing)")
            elif tg.raw.get("from_macro") or "{closure" in tg.path and front_mod(tg.path):
                chk.ok("A1.one-core", f"{body.short}->{tg.short}", body.where(), "derive-generated helper")
            else:
                chk.bad("A1.one-core", f"{body.short}->{tg.short}", body.where(), f"front-end function {body.short} calls the internal processing function {tg.short}: front-ends must reach the transform only through transform_stream/transform_str/transform_file so that they cannot diverge")
    chk.floor("A1.one-core", n, 6, "front-end -> library call edge")
    for f, must in (("svgdx::transform_file", CORE_ENTRY), ("svgdx::transform_str", CORE_ENTRY), ("svgdx::transform_string", "svgdx::transform_str"), ("svgdx::transform_str_default", "svgdx::transform_str")):
        b = prog.maybe_body(f)
        if b is None:
            if f == "svgdx::transform_file" and "cli" not in prog.features:
                continue
            chk.anchor_missing("A1.one-core", f"{f} not found")
            continue
        helpers = {k for k in FRONTEND_MAY_CALL if not k.startswith("svgdx::transform_")}
        tg = sorted({x.path for x in (prog.bodies[t] for t in prog.edges.get(b.id, ())) if x.path not in helpers and not x.root})
        chk.ob(tg == [must], "A1.one-core", f"{b.short}:core", b.where(), f"{b.short} delegates to {must} and to no other processing function", f"{b.short} calls {tg} (expected only {must})")


# ---------------------------------------------------------------------------
def frontend_verdicts(prog, chk):
    """after the core call a front-end constructs no SvgdxError of its own"""
    scope = []
    for root in ("svgdx::server::transform", "svgdx::server::transform_on_thread", "svgdx::transform_str", "svgdx::transform_string", "svgdx::transform_file", "svgdx::transform_str_default"):
        b = prog.maybe_body(root)
        if b is None:
            continue
        scope.append(b)
        scope += [x for x in prog.bodies.values() if x.root == b.id]
    n = 0
    for b in scope:
        chk.touch(b)
        core = [bb for (bb, t, c) in b.call_sites(lambda c: c.path in ("svgdx::transform_stream", "svgdx::transform_str"))]
        after = None
        if core:
            after = set()
            for cb in core:
                after |= b.reach_after(cb)
        made = []
        for (bb, t, c) in b.call_sites(lambda c: True):
            if t.get("dty") == "svgdx::errors::SvgdxError" and c.local:
                made.append((bb, t.get("line"), c.path))
        for bb, i, s in b.all_stmts():
            rv = s.get("rv")
            if rv and rv["k"] == "aggr" and rv.get("adt") == "svgdx::errors::SvgdxError":
                made.append((bb, s.get("line"), "SvgdxError::" + rv["variant"]))
        for (bb, line, what) in made:
            if after is not None and bb not in after:
                continue  # before the core call: argument / input errors
            n += 1
            chk.bad(
                "A6.frontend-verdict",
                f"{b.short}:{what.split('::')[-1] if '::' in what else what}",
                b.where(bb, line),
                f"front-end {b.short} manufactures an error ({what}) from a transform result: the same input gives Ok through the library and an error through this front-end",
            )
    chk.ok("A6.frontend-verdict", "scanned", "-", f"{len(scope)} front-end bodies scanned for error construction after the core call, {n} found")


# ---------------------------------------------------------------------------
def failure_signal(prog, chk):
    if "server" in prog.features:
        h = prog.body("svgdx::server::transform::{closure#0}")
        chk.touch(h)
        ok_c = err_c = None
        for (bb, t, c) in h.call_sites(lambda c: c.path.startswith("std::result::Result") and c.path.split("::")[-1] in ("map", "map_err")):
            cid = R.closure_id_of_operand(h, t["args"][1])
            if c.path.endswith("::map"):
                ok_c = prog.bodies.get(cid)
            else:
                err_c = prog.bodies.get(cid)
        if ok_c is None or err_c is None:
            chk.anchor_missing("A13.http-status", "Ok/Err response closures of server::transform not found")
        else:
            def headers(b):
                hs = {}
                for (bb, t, c) in b.call_sites(lambda c: c.path == "axum::http::response::Builder::header"):
                    k, v = const_str(_k(b, t["args"][1])), const_str(_k(b, t["args"][2]))
                    hs[k] = v
                st = [const_int(_k(b, t["args"][1])) for (bb, t, c) in b.call_sites(lambda c: c.path == "axum::http::response::Builder::status")]
                return hs, st

            eh, es = headers(err_c)
            oh, os_ = headers(ok_c)
            chk.ob(es == [400] and eh.get("Content-Type") == "text/plain", "A13.http-status", "server::transform:Err", err_c.where(), "a failed transform is answered with status 400 and Content-Type text/plain", f"Err arm answers status={es} content-type={eh.get('Content-Type')}")
            chk.ob(os_ == [] and oh.get("Content-Type") == "image/svg+xml", "A13.http-status", "server::transform:Ok", ok_c.where(), "a successful transform is answered 200 image/svg+xml", f"Ok arm answers status={os_} content-type={oh.get('Content-Type')}")
            # the error text is the Display of the error
            disp = [c.targs for (bb, t, c) in err_c.call_sites(lambda c: c.path.endswith("::new_display"))]
            direct = any("SvgdxError" in " ".join(x) for x in disp)
            # or: the error reaches the handler already rendered -- some server body converts the SvgdxError with
            # to_string (Display) and the Err closure prints that String
            via_string = False
            if any("String" in " ".join(x) for x in disp):
                for sb in prog.bodies.values():
                    if sb.path.startswith("svgdx::server::"):
                        for (bb, t, c) in sb.call_sites(lambda c: c.decl_path == "std::string::ToString::to_string"):
                            if "SvgdxError" in " ".join(c.targs) or "SvgdxError" in (c.self_ty or "") or "SvgdxError" in sb.local_ty(op_place(t["args"][0])[0] if op_place(t["args"][0]) else 0):
                                via_string = True
            chk.ob(direct or via_string, "A13.http-status", "server::transform:Err-body", err_c.where(), "the 400 body renders the error through Display", "the 400 body does not render the error")
    if "cli" in prog.features:
        m = prog.maybe_body("svgdx::main")
        it = prog.item("svgdx::main", "fn")
        if m is None or it is None:
            if "svgdx-bin" in prog.units or chk.config == "default":
                chk.anchor_missing("A13.exit-status", "bin svgdx main not found")
            else:
                chk.note("bin svgdx is not part of this feature configuration's units")
            return
        chk.touch(m)
        if it["output"].startswith("std::result::Result<"):
            # Termination: Err -> failure exit. every Result of get_config/run must be propagated
            from sa import errfate
            bad = [s for s in errfate.result_fates(prog, m) if s.fate.split(":")[0].replace("transformed-", "") not in ("propagated", "returned")]
            chk.ob(not bad, "A13.exit-status", "main", m.where(), "main returns Result and propagates every error (non-zero exit through Termination)", f"main drops an error: {[(s.callee.path, s.fate) for s in bad]}")
        else:
            # ExitCode form: the Err edge must return FAILURE
            fails = [1 for b, i, s in m.all_stmts() if "lhs" in s and s["lhs"][0] == 0 and (op_const(s["rv"].get("op")) or {}).get("named", "").endswith("ExitCode::FAILURE")]
            succ = [(b, i) for b, i, s in m.all_stmts() if "lhs" in s and s["lhs"][0] == 0 and (op_const(s["rv"].get("op")) or {}).get("named", "").endswith("ExitCode::SUCCESS")]
            # the SUCCESS assignment must only be reachable through the non-Err edge of the result test
            ok = bool(fails) and bool(succ)
            res_calls = [(bb, t) for (bb, t, c) in m.call_sites(lambda c: True) if t.get("dty", "").startswith("std::result::Result<") and "svgdx::errors::SvgdxError" in t.get("dty", "")]
            guarded = False
            if res_calls and succ:
                bb, t = res_calls[-1]
                sw = R.find_switch_on_discr(m, t["t"], t["dest"][0])
                if sw:
                    sb, st = sw
                    err_t = [tgt for v, tgt in st["vals"] if v == 1]
                    if err_t:
                        reg = m.reach(err_t)
                        guarded = all(b not in reg for (b, i) in succ) and any(
                            (op_const(s["rv"].get("op")) or {}).get("named", "").endswith("ExitCode::FAILURE") for b in reg for s in m.stmts(b) if "lhs" in s and s["lhs"][0] == 0
                        )
            chk.ob(ok and guarded, "A13.exit-status", "main", m.where(), "main maps Err to ExitCode::FAILURE and only Ok to SUCCESS", "main can exit with success status although the transform failed")
        run_b = prog.body("svgdx::cli::run")
        # one-shot path propagates the transform result
        from sa import errfate
        sites = [s for s in errfate.result_fates(prog, run_b) if s.callee.path == "svgdx::transform_file"]
        prop = [s for s in sites if s.fate.split(":")[0].replace("transformed-", "") in ("propagated", "returned")]  # `?` or `return transform_file(..)`
        chk.ob(len(prop) >= 1, "A13.exit-status", "cli::run:one-shot", run_b.where(), "the one-shot path of cli::run propagates the transform error with `?`", "cli::run does not propagate the transform error on the one-shot path")


def _k(body, op):
    o = R.origin(body, op)
    if o[0] == "const":
        return {"k": o[1]}
    return op


# ---------------------------------------------------------------------------
def output_file(prog, chk):
    if "cli" not in prog.features:
        chk.note("feature cli off: transform_file not compiled")
        return
    tf = prog.body("svgdx::transform_file")
    chk.touch(tf)
    n = 0
    for body in prog.bodies.values():
        if body.unit != "svgdx-lib" and not body.path.startswith("svgdx::main"):
            continue
        for (bb, t, c) in body.call_sites(lambda c: c.path.startswith(FS_WRITERS)):
            n += 1
            where = body.where(bb, t.get("line"))
            key = f"{body.short}:{c.path}"
            if body.path != "svgdx::transform_file":
                chk.bad("A13.output-untouched", key, where, f"file-system write {c.path} outside transform_file: not ordered after a successful transform")
                continue
            # dominated by the Continue arm of `transform_stream(..)?`
            ok = False
            for (sb, st, sc) in tf.call_sites(lambda c: c.path == "svgdx::transform_stream"):
                r = st["dest"][0]
                brk = R.try_break_edges(tf, r)
                if not brk:
                    continue
                swb = brk[0][0]
                cont = [tgt for v, tgt in tf.term(swb)["vals"] if v == 0]
                if cont and tf.dominates(cont[0], bb):
                    # the transform in that branch wrote to a temp file
                    w = R.origin(tf, st["args"][1])
                    wl = R.origin_local(tf, st["args"][1])
                    wty = tf.local_ty(wl) if wl is not None else ""
                    ok = "tempfile::NamedTempFile" in wty
            chk.ob(
                ok,
                "A13.output-untouched",
                key,
                where,
                f"{c.path} on the output path happens only after transform_stream(..) into a NamedTempFile returned Ok",
                f"{c.path} can run before / without a successful transform: a failing document would truncate or replace an existing output file",
            )
    chk.floor("A13.output-untouched", n, 1, "file-system write call (fs::copy in transform_file)")
    # File::create/OpenOptions through other names: any call whose result type is std::fs::File other than File::open
    for body in prog.bodies.values():
        if body.unit != "svgdx-lib":
            continue
        for (bb, t, c) in body.call_sites(lambda c: True):
            if t.get("dty", "") in ("std::result::Result<std::fs::File, std::io::Error>",) and c.path not in ("std::fs::File::open",) and not c.path.startswith(FS_WRITERS):
                chk.bad("A13.output-untouched", f"{body.short}:{c.path}", body.where(bb, t.get("line")), f"{c.path} yields a File handle by an operation that is not in the reviewed list")


# ---------------------------------------------------------------------------
def same_file(prog, chk):
    if "cli" not in prog.features:
        return
    fa = prog.body("svgdx::cli::Config::from_args")
    chk.touch(fa)
    ctor_sites = []
    for body in prog.bodies.values():
        for b, i, s in body.all_stmts():
            rv = s.get("rv")
            if rv and rv["k"] == "aggr" and rv.get("adt") == "svgdx::cli::Config":
                ctor_sites.append((body, b, i))
    others = sorted({b.path for (b, _, _) in ctor_sites if b.path not in (fa.path, "<svgdx::cli::Config as std::clone::Clone>::clone")})
    chk.ob(not others and any(b.path == fa.path for (b, _, _) in ctor_sites), "A10.config-ctor", "cli::Config", fa.where(), "cli::Config is constructed only in Config::from_args", f"cli::Config is also constructed in {others} (bypassing the same-file refusal)")
    canon = fa.call_sites(lambda c: c.path == "std::path::Path::canonicalize")
    chk.floor("A13.same-file", len(canon), 2, "Path::canonicalize in from_args")
    eqs = fa.call_sites(lambda c: c.decl_path == "std::cmp::PartialEq::eq" and "std::path::PathBuf" in c.self_ty)
    ok = False
    detail = "no comparison of two canonicalised paths found"
    for (bb, t, c) in eqs:
        srcs = []
        for a in t["args"]:
            o = R.origin(fa, a, carriers=dict(R.CARRIERS, branch=0))
            if o[0] == "call" and "fn" in o[2] and Callee(o[2]["fn"]).path == "std::path::Path::canonicalize":
                recv = R.origin(fa, o[2]["args"][0], carriers=dict(R.CARRIERS, new=0))
                if recv[0] == "field":
                    srcs.append(recv[1][1][-1])
        if sorted(srcs) != [".file", ".output"]:
            detail = f"comparison operands derive from {srcs}, expected canonicalize(args.file) and canonicalize(args.output)"
            continue
        sb = t["t"]
        st = fa.term(sb)
        if st["k"] != "switch":
            continue
        true_t, false_t = R.switch_targets_bool(st)
        reg = fa.reach([true_t])
        ctor_blocks = {b for (body, b, i) in ctor_sites if body.path == fa.path}
        refuses = R.assigns_result_variant(fa, reg, "Err") and not (ctor_blocks & reg)
        ok = refuses
        detail = "equal canonical paths lead to Err and never to the construction of Config"
    chk.ob(ok, "A13.same-file", "from_args", fa.where(), "the canonicalised input and output paths are compared; when equal the command refuses (Err) before any Config exists", "same-file refusal is missing or does not resolve both paths through the file system: " + detail)


def checked_paths_are_used(prog, chk):
    """the paths the command hands to transform_file are the ones the same-file refusal examined: the path fields of
    cli::Config are never reassigned after from_args built it, and every transform_file call in the command passes
    exactly those fields"""
    if "cli" not in prog.features:
        return
    n = 0
    writes = []
    for body in prog.bodies.values():
        if not body.path.startswith("svgdx::cli::") and "svgdx::cli::" not in body.path:
            continue
        for b, i, st in body.all_stmts():
            if not st.get("lhs"):
                continue
            pl = P(st["lhs"])
            if any(str(z) in (".output_path", ".input_path") for z in pl[1]) and "cli::Config" in (body.local_ty(pl[0]) or ""):
                writes.append(body.where(b, st.get("line")))
    chk.ob(not writes, "A13.same-file", "cli::Config:paths-final", "-", "the input / output path of cli::Config is fixed when from_args builds it (never reassigned)", f"the input / output path of cli::Config is reassigned after the same-file refusal examined it ({', '.join(writes)}): the file that is written is not the one that was compared with the input, so the command can overwrite its own input")
    for body in prog.bodies.values():
        if "svgdx::cli::" not in body.path:
            continue
        for (bb, t, c) in body.call_sites(R.path_is("svgdx::transform_file")):
            n += 1
            flds = []
            for a in t["args"][:2]:
                o = R.origin(body, a, carriers=dict(R.CARRIERS))
                flds.append(str(o[1][1][-1]) if o[0] == "field" and o[1][1] else "?")
            chk.ob(flds == [".input_path", ".output_path"], "A13.same-file", f"{body.short}:transform_file:args", body.where(bb, t.get("line")), "transform_file is called with the Config's input_path and output_path", f"transform_file is called with {flds} instead of the Config's (input_path, output_path): the written file is not the one the same-file refusal examined")
    chk.floor("A13.same-file:args", n, 2, "transform_file call in the command")


CLI_FIELD_OK = {
    "add_auto_styles": ("no_auto_styles", "Not", "the option is spelled negatively: --no-auto-styles"),
}


def cli_config_mapping(prog, chk):
    """the command passes every option through to the TransformConfig field of the same name, unchanged: the same input
    and configuration then give the same bytes as the library called with that configuration"""
    if "cli" not in prog.features:
        return
    from sa import hirq

    fa = prog.body("svgdx::cli::Config::from_args")
    chk.touch(fa)
    h = prog.hir.get(fa.id)
    n = 0
    for st in hirq.struct_exprs(h, "svgdx::TransformConfig"):
        for f in st["fields"]:
            n += 1
            v = f["v"]
            name = f["name"]
            neg = False
            for _ in range(4):
                if isinstance(v, dict) and v.get("k") in ("Unary",) and v.get("op") == "Not":
                    neg = not neg
                    v = v["x"]
                elif isinstance(v, dict) and v.get("k") == "MethodCall" and v.get("name") in ("clone", "to_owned", "to_string", "cloned") and not v.get("args"):
                    v = v["recv"]  # a copy of the option's value (the struct is built from `&self` / `&args`)
                elif isinstance(v, dict) and v.get("k") in ("AddrOf",) or (isinstance(v, dict) and v.get("k") == "Unary" and v.get("op") == "Deref"):
                    v = v.get("x") or v.get("e")
                else:
                    break
            pure = isinstance(v, dict) and v.get("k") == "Field" and isinstance(v.get("x"), dict) and v["x"].get("k") == "Path" and "local" in (v["x"].get("res") or {})
            src = v.get("name") if pure else None
            if name in CLI_FIELD_OK:
                want_src, want_op, why = CLI_FIELD_OK[name]
                chk.ob(pure and src == want_src and neg == (want_op == "Not"), "A15.cli-mapping", f"from_args:{name}", fa.where(line=f.get("line") or st.get("line")), f"reviewed: TransformConfig::{name} = !args.{want_src} ({why})", f"TransformConfig::{name} is no longer initialised as !args.{want_src}", by="table")
            else:
                chk.ob(pure and src == name and not neg, "A15.cli-mapping", f"from_args:{name}", fa.where(line=f.get("line") or st.get("line")), f"TransformConfig::{name} = args.{name}", f"the command initialises TransformConfig::{name} from an expression other than args.{name} ({'args.' + src if src else 'a computed value'}{' negated' if neg else ''}): the command then runs with a configuration the user did not give, and its output differs from the library's for the same input and configuration")
    chk.floor("A15.cli-mapping", n, 15, "TransformConfig field initialised by the command")
    # ... and every option the command accepts that has a TransformConfig field of its name is among them (a struct
    # written with `..TransformConfig::default()` silently leaves out what it does not mention)
    def fields(path):
        for it in prog.items:
            if it.get("item") == "adt" and it["path"] == path:
                return [f["name"] for v in it.get("variants", []) for f in v.get("fields", [])]
        return None

    opts, cfg = fields("svgdx::cli::Arguments"), fields("svgdx::TransformConfig")
    if opts is None or cfg is None:
        chk.undecided("A15.cli-mapping", "from_args:all-options", fa.where(), "the command's Arguments struct / TransformConfig not found")
        return
    rev = {v[0]: k for k, v in CLI_FIELD_OK.items()}
    expected = sorted({rev.get(o, o) for o in opts} & set(cfg))
    given = {f["name"] for st in hirq.struct_exprs(h, "svgdx::TransformConfig") for f in st["fields"]}
    # fields written afterwards (`cfg.border = args.border;`) count as well
    for a in hirq.exprs(h["body"], "Assign"):
        fc = hirq.field_chain(a["l"])
        if fc and len(fc) >= 2:
            given.add(fc[-1])
    lost = [f for f in expected if f not in given]
    chk.ob(not lost, "A15.cli-mapping", "from_args:all-options", fa.where(), f"all {len(expected)} options that have a TransformConfig field of their name are passed on", f"the options {['--' + rev.get(f, f).replace('_', '-') if False else f for f in lost]} are accepted by the command but never reach the TransformConfig: the transform runs with the library default instead of the value given on the command line")


def output_replaced_unconditionally(prog, chk):
    """a successful transform to a file leaves exactly its result in that file: in transform_file the copy of the
    temporary result over the output is reached on every path that follows a successful transform_stream into it"""
    tf = prog.body("svgdx::transform_file")
    chk.touch(tf)
    copies = tf.call_sites(lambda c: c.path in ("std::fs::copy", "std::fs::rename") or c.path.endswith("NamedTempFile::<F>::persist") or c.path.endswith("::persist"))
    chk.floor("A13.output-replaced", len(copies), 1, "copy of the temporary result over the output file")
    if not copies:
        return
    cb = copies[0][0]
    ts = [(bb, t) for (bb, t, c) in tf.call_sites(R.path_is("svgdx::transform_stream")) if cb in tf.reach([t["t"]])]
    if not ts:
        chk.anchor_missing("A13.output-replaced", "transform_file: no transform_stream call leads to the copy")
        return
    bb, t = ts[-1]
    # from the success edge of `transform_stream(..)?` a return that is not an error return must pass the copy
    brk = R.try_break_edges(tf, t["dest"][0]) if hasattr(R, "try_break_edges") else []
    rets = [x for x in tf.reachable if tf.term(x)["k"] == "ret"]
    avoid = {cb} | {y for (_x, y) in brk}
    # other `?` on the way (metadata(), exists() ...) may leave with an error as well
    for (b2, t2, c2) in tf.call_sites(lambda c: c.decl_path == "std::ops::Try::branch"):
        for (_x, y) in R.try_break_edges(tf, op_place(t2["args"][0])[0]) if op_place(t2["args"][0]) else []:
            avoid.add(y)
    skip = [x for x in rets if x in tf.reach([t["t"]], avoid=avoid)]
    # error blocks reached through `?` are excluded above; what remains are successful returns that skipped the copy
    chk.ob(not skip, "A13.output-replaced", "transform_file", tf.where(cb, copies[0][1].get("line")), "after a successful transform the result always replaces the output file", "transform_file can return successfully without copying the result over the output file: the file keeps the bytes of an earlier transform while stdout / the library give the new (e.g. empty) result")


def io_discipline(prog, chk):
    """what is written is exactly the result, and a failure to write it is an error:
    (a) a file opened for writing through OpenOptions is truncated (or new, or appended to on purpose): `.write(true)
        .create(true)` alone leaves the tail of a longer existing file behind the new content;
    (b) a BufWriter put around a destination is flushed (or unwrapped with into_inner) by the function that made it: the
        buffered tail is otherwise written by Drop, which discards the I/O error - the transform reports success"""
    n = 0
    for body in prog.bodies.values():
        if not (body.unit or "").startswith("svgdx"):
            continue
        oo = {}
        for (bb, t, c) in body.call_sites(lambda c: c.path.startswith("std::fs::OpenOptions::")):
            oo.setdefault(c.path.split("::")[-1], []).append((bb, t))
        if "open" in oo and any((op_const(t["args"][1]) or {}).get("bool") is True for (bb, t) in oo.get("write", []) if len(t["args"]) > 1):
            n += 1
            chk.touch(body)
            safe = [k for k in ("truncate", "append", "create_new") if any((op_const(t["args"][1]) or {}).get("bool") is True for (bb, t) in oo.get(k, []) if len(t["args"]) > 1)]
            bb, t = oo["open"][0]
            chk.ob(bool(safe), "A13.write-discipline", f"{body.short}:open-for-write", body.where(bb, t.get("line")), f"the file opened for writing is {safe[0] if safe else ''}d/new: nothing of an older, longer file survives", f"{body.short} opens a file with OpenOptions .write(true) but neither .truncate(true), .append(true) nor .create_new(true): when the file exists and is longer than what is written, its old tail stays behind the new content")
        news = body.call_sites(lambda c: c.path.startswith("std::io::BufWriter::<") and c.path.split("::")[-1] in ("new", "with_capacity"))
        if news:
            n += 1
            chk.touch(body)
            closes = body.call_sites(lambda c: (c.decl_path == "std::io::Write::flush" or c.path.split("::")[-1] in ("into_inner", "into_parts")) and "BufWriter" in c.inst)
            handed_on = any((body.local_ty(l) or "").startswith("std::io::BufWriter<") for l in body.ret_locals)
            bb, t, c = news[0]
            # ... or moved, whole, into something else (a serialiser that owns its destination): who flushes is decided there
            moved = False
            if t.get("dest") and not t["dest"][1]:
                for (b2, i2, node, how, _c) in R.forward_value_uses(body, t["dest"][0]):
                    if i2 == R.TERM and node.get("k") == "call" and how == "arg" and any("m" in a and op_place(a) is not None and not op_place(a)[1] and (body.local_ty(op_place(a)[0]) or "").startswith("std::io::BufWriter<") for a in node.get("args", [])):
                        cc = Callee(node["fn"]) if "fn" in node else None
                        if cc is None or cc.path.split("::")[-1] not in ("flush", "into_inner", "into_parts"):
                            moved = True
                    elif i2 != R.TERM and "rv" in node and node["rv"].get("k") == "aggr":
                        moved = True
            if moved and not closes:
                chk.undecided("A13.write-discipline", f"{body.short}:buffered-writer", body.where(bb, t.get("line")), "the BufWriter made here is moved into another value; where it is flushed is not followed")
                continue
            if handed_on:
                chk.ok("A13.write-discipline", f"{body.short}:buffered-writer", body.where(bb, t.get("line")), "the BufWriter is handed to the caller")
            else:
                chk.ob(bool(closes), "A13.write-discipline", f"{body.short}:buffered-writer", body.where(bb, t.get("line")), "the BufWriter made here is flushed / unwrapped here: a failing write surfaces as an error", f"{body.short} wraps its destination in a BufWriter and never calls flush() or into_inner() on it: the buffered tail (the whole document when it is small) is written by Drop, which ignores I/O errors - a transform whose output cannot be written returns Ok")
    chk.ok("A13.write-discipline", "scan", "-", f"{n} OpenOptions-for-write / BufWriter construction site(s) in the crate's own code examined")


def server_stack(prog, chk):
    """the server runs a transform on a thread whose stack is an explicit constant at least as large as the main thread's
    (8 MiB): the command and the endpoint then accept the same nesting (the stack *budget* itself is the thorough A12 rule)"""
    if "server" not in prog.features:
        return
    import c01_thorough
    limit, how = c01_thorough.server_stack_limit(prog)
    ok = how.startswith("dedicated thread") and limit >= c01_thorough.MAIN_STACK
    chk.ob(ok, "A13.server-stack", "server:transform-thread", "src/server.rs", f"{how}", f"the server's transform does not run on a thread with an explicit constant stack of at least 8 MiB ({how}, {limit} B): documents the svgdx command accepts can overflow the server's stack and abort the whole process")
