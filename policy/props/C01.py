"""C01 Totality: every input gives a result or an error, never a crash or a hang."""
import json
import os

from sa import rules as R
from sa import panics, discharge as D
from sa.prog import P, Callee, op_place, op_const, const_int, const_str

EXPLANATION = (
    "Four obligation families over everything reachable (call graph incl. class-hierarchy edges for unresolved trait calls, "
    "closure/fn-item edges and callbacks through generic std functions) from the public entry points: "
    "(1) every panic-capable site (MIR asserts; unwrap/expect; explicit panics; Index impls; split_at/remove/RefCell::borrow_mut/"
    "clamp/random_range...; every external callee whose docs carry `# Panics`) is discharged by a guard rule - D1 Option/Result "
    "state (path-sensitive), D2 dominating length test for constant indices, D5 structural 64-bit counters / limit-bounded u32 "
    "counters - or by a reviewed table line counted per (function, kind, callee); (2) every recursive SCC has a verified witness "
    "(depth guard whose check dominates the in-SCC calls, nesting counter carried into new evaluator states, visited set, "
    "variant change) or a reviewed data-structural reason; (3) every loop that is not driven by a finite iterator has a verified "
    "progress witness (cursor advance on every cycle, strictly shrinking suffix, counter, limit counter, length exit, visited set, "
    "external reader); (4) errors are values at the front-ends. Undecided: time proportional to the work (complexity), memory "
    "exhaustion, the wasm front-end."
)
TRUSTED = [
    "std panic behaviour as documented (`# Panics` sections), `\"\".parse::<f32>()` is an error, a finite input gives a finite quick-xml event stream",
    "dev-profile integer-overflow assertions are included; release builds wrap instead",
]
ASSUMPTIONS = [
    "capacity-overflow panics of Vec/String growth (> isize::MAX bytes) belong to memory exhaustion, which the property statement does not cover",
    "limits at or below their defaults (property quantifier)",
]

ENTRY = [
    "svgdx::transform_stream", "svgdx::transform_str", "svgdx::transform_str_default", "svgdx::transform_string", "svgdx::transform_file",
    "svgdx::cli::run", "svgdx::cli::get_config", "svgdx::cli::Config::from_cmdline", "svgdx::server::transform", "svgdx::main",
    "svgdx_server::main", "svgdx::server::start_server",
]
TABLES = os.path.join(os.path.dirname(os.path.dirname(os.path.abspath(__file__))), "tables")

# callee-level discharges (apply to every site of that callee): reason
CALLEE_BENIGN = {
    "std::vec::Vec::<T, A>::push": "panics only on capacity overflow (> isize::MAX bytes): memory-exhaustion class",
    "std::string::String::push_str": "capacity overflow only: memory-exhaustion class",
    "std::string::String::push": "capacity overflow only: memory-exhaustion class",
    "std::vec::Vec::<T>::with_capacity": "capacity overflow only (argument is a length of an in-memory collection): memory-exhaustion class",
    "std::str::<impl str>::repeat": "capacity overflow only (count is an indent / nesting width): memory-exhaustion class",
    "std::vec::Vec::<T, A>::extend_from_slice": "capacity overflow only: memory-exhaustion class",
    "std::vec::Vec::<T, A>::append": "capacity overflow only: memory-exhaustion class",
    "std::vec::Vec::<T, A>::reserve": "capacity overflow only: memory-exhaustion class",
    "std::string::String::reserve": "capacity overflow only: memory-exhaustion class",
    "std::iter::Iterator::enumerate": "index overflow after usize::MAX items: infeasible",
    "<std::iter::Enumerate<I> as std::iter::Iterator>::next": "index overflow after usize::MAX items: infeasible",
    "std::iter::Iterator::sum": "documented panic is integer overflow; all uses here sum f32",
    "std::iter::Iterator::product": "documented panic is integer overflow; all uses here multiply f32",
    "<std::slice::Iter<'a, T> as std::iter::Iterator>::position": "index overflow after usize::MAX items: infeasible",
    "<std::iter::Filter<I, P> as std::iter::Iterator>::count": "count overflow after usize::MAX items: infeasible",
    "std::iter::Iterator::count": "count overflow after usize::MAX items: infeasible",
    "std::iter::Iterator::position": "index overflow after usize::MAX items: infeasible",
}

# functions that are not per-transform paths (process start-up, static file serving, daemon loop): reason
NOT_TRANSFORM_PATH = {
    "svgdx::server::start_server": "server start-up: bind/serve failures abort start-up, not a transform",
    "svgdx::server::index": "static asset handler (constant headers), not the transform endpoint",
    "svgdx::server::favicon": "static asset handler",
    "svgdx::server::bootstrap": "static asset handler",
    "svgdx::server::static_file": "static asset handler",
    "svgdx_server::main": "server process start-up (argument parsing, runtime creation)",
}


LAST_ALLOW = {}


def load_table(name):
    with open(os.path.join(TABLES, name)) as fh:
        return json.load(fh)["entries"]


def run(prog, chk):
    reach = panics.reachable_bodies(prog, ENTRY)
    chk.floor("A1.entry", len([p for p in ENTRY if prog.maybe_body(p)]), 10, "entry point")
    chk.floor("A1.reach", len(reach), 500, "function reachable from the entry points")
    chk.rule(panic_sites, prog, chk, reach)
    from props import C01_rec, C01_loops
    chk.rule(C01_rec.run, prog, chk, reach)
    chk.rule(C01_loops.run, prog, chk, reach)
    chk.rule(frontends, prog, chk)
    chk.rule(utf8_boundary, prog, chk)
    chk.rule(infinite_iterators, prog, chk, reach)
    chk.rule(lookup_amplification, prog, chk)
    chk.rule(retry_amplification, prog, chk)
    chk.rule(retry_novelty, prog, chk)
    chk.rule(indent_amplification, prog, chk)
    chk.rule(retry_baseline_after_attempt, prog, chk)
    from props import C17
    chk.rule(C17.scope_var_limit, prog, chk)  # unbounded growth of scope variables is memory exhaustion (abort)
    chk.rule(C17.limits_wiring, prog, chk)  # the limits the termination argument rests on are the ones the front-ends configure
    chk.rule(C17.limit_errors_keep_their_variant, prog, chk)  # a limit error that is re-wrapped on its way up is retried: the limit-exhausting work repeats at every nesting level


def utf8_boundary(prog, chk):
    """every event pushed by InputList::from_reader has passed std::str::from_utf8 (the table lines that
    discharge the later `expect("utf8")` sites rest on this)"""
    fr = prog.body("svgdx::events::InputList::from_reader")
    chk.touch(fr)
    checks = R.calls_to(fr, R.path_is("std::str::from_utf8", "core::str::from_utf8"))
    pushes = [(b, t) for (b, t, c) in R.calls_to(fr, R.path_endswith("Vec::<T, A>::push")) if "InputEvent" in c.inst]
    chk.floor("A13.utf8-boundary", len(pushes), 4, "events.push in from_reader")
    ok = False
    detail = "no from_utf8 validation of the raw event"
    for (cb, ct, cc) in checks:
        r = ct["dest"][0]
        # the validated bytes are the event just read
        src = R.origin(fr, ct["args"][0], carriers={"deref": 0, "as_ref": 0})
        # Err edge must return Err without pushing
        err_edges = []
        for (b, i, node, how) in R.uses_of(fr, r):
            pass
        # find the branch on is_err(&r) / discr(r)
        sw = None
        for (ib, it, ic) in R.calls_to(fr, R.path_endswith("Result::<T, E>::is_err", "Result::<T, E>::is_ok")):
            if R.origin_local(fr, it["args"][0]) == r or (D._deref_place(fr, it["args"][0]) or (None,))[0] == r:
                st = fr.term(it["t"])
                if st["k"] == "switch":
                    tt, ft = R.switch_targets_bool(st)
                    bad_t, good_t = (tt, ft) if ic.path.endswith("is_err") else (ft, tt)
                    sw = (it["t"], bad_t, good_t)
        if sw is None:
            s2 = R.find_switch_on_discr(fr, ct["t"], r)
            if s2:
                sb, st = s2
                m = {v: tgt for v, tgt in st["vals"]}
                if 1 in m:
                    sw = (sb, m[1], m.get(0, st["otherwise"]))
        if sw is None:
            detail = "result of from_utf8 is not branched on"
            continue
        sb, bad_t, good_t = sw
        reg = fr.reach([bad_t])
        returns_err = R.assigns_result_variant(fr, reg, "Err") and not any(b in reg for (b, t) in pushes)
        dominated = all(fr.dominates(good_t, b) or R.control_dependent_only_via(fr, b, (sb, good_t), prog=prog, path_sensitive=True) for (b, t) in pushes)
        ok = returns_err and dominated
        detail = f"invalid UTF-8 returns Err: {returns_err}; every push is behind the valid edge: {dominated}"
    chk.ob(
        ok,
        "A13.utf8-boundary",
        "from_reader",
        fr.where(),
        "every event is validated with str::from_utf8 before it is stored; invalid UTF-8 returns a ParseError",
        "events can be stored without UTF-8 validation, so the later `expect(\"utf8\")` conversions can panic on non-UTF-8 input: " + detail,
    )


def root_path(prog, body):
    if body.root and body.root in prog.bodies:
        return prog.bodies[body.root].path
    return body.path


def strip_closures(path):
    import re
    return re.sub(r"(::\{closure#\d+\})+", "", path)


def panic_sites(prog, chk, reach, floor=250):
    D.PROG = prog
    sites = panics.inventory(prog, reach)
    table = load_table("panic_allow.json")
    allow = {}
    for e in table:
        # closures are matched through their enclosing function: `{closure#N}` is positional and renumbered by
        # behaviour-preserving edits
        k = (strip_closures(e["function"]), e["kind"], e.get("callee", ""))
        if k in allow:
            allow[k]["count"] += e["count"]
            allow[k]["reason"] += " / " + e["reason"]
        else:
            allow[k] = dict(e, used=0)
    n_rule = n_table = 0
    for s in sites:
        body = s.body
        where = body.where(s.bb, s.line)
        callee_short = s.what
        key = f"{body.short}:{s.kind}:{callee_short.split('::')[-1]}"
        rp = root_path(prog, body)
        why = None
        by = "rule"
        # --- callee-level classes
        if s.kind == "doc-panics" and s.what in CALLEE_BENIGN:
            why = CALLEE_BENIGN[s.what]
        elif rp in NOT_TRANSFORM_PATH:
            why = "not a transform path: " + NOT_TRANSFORM_PATH[rp]
            by = "table"
        # --- guard rules
        is_str_index = s.detail.startswith(("<str as", "<std::string::String as", "<&str as", "<&std::string::String as"))
        if why is None and s.kind in ("unwrap", "expect"):
            why = D.option_state_discharge(prog, body, s.bb, s.term)
            if why:
                why = "D1 " + why
        if why is None and s.kind == "index":
            recv, need = D.index_requirement(body, s.term)
            is_str = s.detail.startswith("<str as") or s.detail.startswith("<std::string::String as")
            if is_str and need:
                need = None  # a length test does not make a str slice safe (char boundaries): D3 or the table must decide
            if need is not None:
                if need == 0:
                    why = "D2 full-range / from-0 slice never panics"
                else:
                    k = D.value_key(body, recv)
                    if k is not None:
                        mb = D.min_len_at(body, s.bb, k)
                        if mb is not None and mb[0] >= need:
                            why = f"D2 constant index needs len >= {need}; a dominating test (line {body.term(mb[1]).get('line')}) establishes len >= {mb[0]} and the collection is not modified in between"
        if why is None and s.kind.startswith("assert:Overflow(Add)"):
            w = D.overflow_structural(body, s.term)
            if w:
                why = "D5 " + w
            else:
                w = limit_bounded_counter(body, s.term) or array_bounded_counter(body, s.term)
                if w:
                    why = "D5 " + w
        if why is None and s.kind in ("assert:RemainderByZero", "assert:DivisionByZero", "assert:Overflow(Rem)", "assert:Overflow(Div)"):
            # the asserted condition is `divisor == 0` (or MIN/-1): constant non-zero divisor
            w = const_divisor(body, s)
            if w:
                why = "D5 " + w
        if why is None and s.kind == "doc-panics" and s.what.endswith("f32>::clamp"):
            w = D.clamp_guard(body, s.bb, s.term)
            if w:
                why = "D7 " + w
        if why is None and s.kind == "doc-panics" and s.what.endswith("random_range"):
            w = D.range_guard(body, s.bb, s.term)
            if w:
                why = "D7 " + w
        if why is None and s.kind == "doc-panics" and "::sort" in s.what:
            w = D.total_order_comparator(prog, body, s.term)
            if w:
                why = "D8 " + w
        if why is None and s.kind == "assert:BoundsCheck":
            w = D.bounds_guard(body, s.bb, s.term)
            if w:
                why = "D2 " + w
        if why is None and s.kind in ("split_at", "vec-remove"):
            w = D.search_offset_guard(body, s.bb, s.term, s.kind)
            if w:
                why = ("D3 " if s.kind == "split_at" else "D4 ") + w
        if why is None and s.kind == "split_at":
            w = D.tail_offset_guard(prog, body, s.bb, s.term)
            if w:
                why = "D3 " + w
        if why is None and s.kind == "split_at":
            w = D.len_fraction_guard(body, s.bb, s.term)
            if w:
                why = "D2 " + w
        if why is None and s.kind == "index" and not is_str_index:
            w = D.position_index_guard(body, s.bb, s.term)
            if w:
                why = "D4 " + w
        if why is None and (s.kind.startswith("assert:Overflow(Sub)") or s.kind == "index"):
            w = D.nonempty_guard(body, s.bb, s.term, s.kind)
            if w:
                why = "D2 " + w
        if why is None and s.kind in ("unwrap", "expect") and s.term.get("args"):
            pl_ = op_place(s.term["args"][0])
            w = D.last_of_nonempty(body, s.bb, s.term, pl_[0]) if pl_ is not None and not pl_[1] else None
            if w:
                why = "D2 " + w
        if why is None and s.kind == "explicit-panic":
            # `match v.last_mut() { Some(x) => x, None => unreachable!() }`: the panicking arm is the None arm of a test
            # of an Option that is Some
            for (a_, x_) in D.dominating_edges(body, s.bb):
                sd_ = R.switch_discr_place(body, a_)
                ta_ = body.term(a_)
                if sd_ is None or not sd_[1].startswith("std::option::Option<") or ta_["k"] != "switch":
                    continue
                none_t = [tgt for v, tgt in ta_["vals"] if v == 0] or ([ta_["otherwise"]] if any(v == 1 for v, _t in ta_["vals"]) else [])
                if x_ in none_t and not sd_[0][1]:
                    w = D.last_of_nonempty(body, s.bb, s.term, sd_[0][0])
                    if w:
                        why = "D2 the panicking arm is the None arm of " + w
                        break
        if why is None and s.kind == "index" and not is_str_index:
            w = D.split_tail_guard(body, s.bb, s.term)
            if w:
                why = "D4 " + w
        if why is None and s.kind == "vec-insert":
            w = D.insert_slot_guard(body, s.bb, s.term)
            if w:
                why = "D4 " + w
        if why is None and s.kind in ("index", "vec-remove") and body.kind == "Closure":
            w = D.closure_param_index_guard(prog, body, s.bb, s.term, s.kind)
            if w:
                why = "D4 " + w
        if why is None and s.kind == "index" and is_str_index:
            w = D.str_index_guard(body, s.bb, s.term)
            if w:
                why = "D3 " + w
        # --- reviewed table
        if why is None:
            fp = strip_closures(body.path)
            ent = allow.get((fp, s.kind, s.what)) or allow.get((fp, s.kind, s.decl)) or allow.get((fp, s.kind, ""))
            if ent is None or ent["used"] >= ent["count"]:
                # a function that did not exist at review time: the lines reviewed for the functions it was split off from
                for op_ in sorted(prog.owners_of(body.path)):
                    e2 = allow.get((op_, s.kind, s.what)) or allow.get((op_, s.kind, s.decl)) or allow.get((op_, s.kind, ""))
                    if e2 is not None and e2["used"] < e2["count"]:
                        ent = e2
                        break
            if ent is None or (ent["used"] >= ent["count"] and s.line not in ent.get("lines", ())):
                # the reviewed function no longer exists: its body moved, and the reviewed site (same operation) with it
                for (f2, k2, c2), e2 in sorted(allow.items()):
                    if k2 == s.kind and c2 in (s.what, s.decl) and e2["used"] < e2["count"] and not prog.by_path.get(f2) and not any(x.startswith(f2 + "::{") for x in prog.by_path):
                        ent = e2
                        break
            if ent is not None and (s.line in ent.setdefault("lines", set()) or ent["used"] < ent["count"]):
                # counted per source line: one helper line spliced in at four call sites is one place, not four
                if s.line not in ent["lines"]:
                    ent["lines"].add(s.line)
                    ent["used"] += 1
                why = "D6 reviewed: " + ent["reason"]
                by = "table"
        if why is None:
            # D9: no feasible path reaches the site - the variants the paths to it have matched (a dispatcher that
            # hands each family of an enum to its own helper, whose `_ => unreachable!()` arm covers the others),
            # built (`Err(..)` then `?`) or been given leave no state in which its block is entered
            from sa import vstate
            if s.bb in vstate.of(body, prog).infeasible_blocks():
                why = "D9 no feasible path reaches this block: the enum variants / Option and Result states established on every path to it exclude the edge that leads here (sa/vstate.py)"
        if why is not None:
            if by == "table":
                n_table += 1
            else:
                n_rule += 1
            chk.ok("A2.panic-site", key, where, f"{s.kind} {callee_short.split('::')[-1] if s.kind not in ('unwrap', 'expect') else ''}: {why}", by=by)
        else:
            chk.bad(
                "A2.panic-site",
                key,
                where,
                f"reachable panic-capable site ({s.kind}: {callee_short}) is not covered by a guard rule (D1 option-state, D2 length guard, D5 structural counter) "
                f"nor by the reviewed table; on input-derived data this crashes the transform. If it is safe, add a line to policy/tables/panic_allow.json "
                f"(function={body.path!r}, kind={s.kind!r}, callee={s.what!r}) with the reason.",
            )
    if floor:
        chk.floor("A2.panic-site", len(sites), floor, "panic-capable site in reachable code")
    chk.note(f"panic sites: {len(sites)} total, {n_rule} discharged by rule, {n_table} by table")
    global LAST_ALLOW
    LAST_ALLOW = allow
    stale = [k for k, e in allow.items() if e["used"] < e["count"]]
    if stale:
        chk.note(f"{len(stale)} table line(s) no longer match any site (harmless): {stale[:5]}")


def array_bounded_counter(body, t):
    """`n + 1` on a counter that starts at a constant and is advanced only here, once per pass of a loop that walks a
    fixed-size array (`for x in [a, b, c]` / a const table): n never exceeds the array length"""
    import re as _re
    from props.C01_loops import iterator_driven

    a, b = t.get("a"), t.get("b")
    if const_int(b) != 1:
        return None
    ch = body.chase(a)
    if ch[0] != "place" or ch[1][1]:
        return None
    cl = ch[1]
    defs = body.defs_of(cl[0])
    incs = R.increments_of(body, cl)
    inits = [d for d in defs if d[1] != R.TERM and d[2]["k"] == "use" and const_int(d[2]["op"]) is not None]
    if len(incs) != 1 or len(inits) != 1 or len(defs) != 2:
        return None
    lp = R.loop_containing(body, incs[0][0])
    if lp is None or inits[0][0] in lp[1]:
        return None
    if not iterator_driven(body, lp[0], lp[1]):
        return None
    for (bb, tt, c) in body.call_sites(lambda c: c.decl_path == "std::iter::Iterator::next"):
        if bb in lp[1]:
            m = _re.search(r"std::array::IntoIter<.*, (\d+)>$", (c.self_ty or "").strip())
            if m and int(m.group(1)) < 100 and abs(const_int(inits[0][2]["op"])) < 100:
                return f"counter advanced once per item of a fixed array of {m.group(1)} items (starts at {const_int(inits[0][2]['op'])})"
    return None


def limit_bounded_counter(body, t):
    """u32 `x + 1` where x is compared `> limit` (a *_limit config field) in the same function"""
    a, b = t.get("a"), t.get("b")
    if const_int(b) != 1 and const_int(a) != 1:
        return None
    var = a if const_int(b) == 1 else b
    pl = op_place(var)
    if pl is None:
        return None
    # the sum itself (`let passes = idx + 1; if passes > limit`) counts as the counter too
    cp = op_place(t.get("cond"))
    sums = {cp[0]} if cp is not None and cp[1] == (".1",) else set()
    for bb, i, s in body.all_stmts():
        rv = s.get("rv")
        if rv and rv["k"] == "binop" and rv["op"] in ("Gt", "Ge", "Lt", "Le"):
            sides = [rv["a"], rv["b"]]
            for x in sides:
                ch = body.chase(x)
                if ch[0] == "place" and ch[1][0] in sums and ch[1][1] in ((), (".0",)) and any(_chases_to_limit(body, y) or (op_place(y) or (0, ()))[1][-1:] and op_place(y)[1][-1].endswith("_limit") for y in sides if y is not x):
                    return "u32 sum `x + 1` compared with a configured limit in the same function before the next increment (bounded by limit + 1 <= default + 1)"
            lim = [x for x in sides if (op_place(x) or (0, ()))[1][-1:] and (op_place(x)[1][-1].endswith("_limit"))]
            if not lim:
                lim = [x for x in sides if _chases_to_limit(body, x)]
            cnt = [x for x in sides if _same_var(body, x, pl)]
            if lim and cnt:
                return "u32 counter incremented by 1 and compared with a configured limit in the same function (bounded by limit + 1 <= default + 1)"
    return None


def _chases_to_limit(body, op):
    ch = body.chase(op)
    return ch[0] == "place" and ch[1][1] and ch[1][1][-1].endswith("_limit")


def _same_var(body, op, pl):
    p2 = op_place(op)
    if p2 == pl:
        return True
    ch = body.chase(op)
    return ch[0] == "place" and ch[1] == pl


def const_divisor(body, s):
    # look back in the block for the Div/Rem binop guarded by this assert
    t = s.term
    for b, i, st in body.all_stmts():
        rv = st.get("rv")
        if rv and rv["k"] == "binop" and rv["op"] in ("Div", "Rem") and st.get("line") == s.line:
            c = const_int(rv["b"])
            if c is not None and c not in (0, -1):
                return f"division/remainder by the non-zero constant {c}"
    return None


def frontends(prog, chk):
    """errors are values, not crashes, at the front-ends"""
    for body in prog.bodies.values():
        for (bb, t, c) in body.call_sites(lambda c: c.path in ("std::process::exit", "std::process::abort")):
            chk.bad("A6.frontend-exit", f"{body.short}:{c.path}", body.where(bb, t.get("line")), f"{c.path} called: the process is terminated instead of returning an error")
    chk.ok("A6.frontend-exit", "none", "-", "no call to process::exit/abort")


# ---------------------------------------------------------------------------
# endless iterators (cycle / repeat): every consumer must pull a bounded number of items
# ---------------------------------------------------------------------------
INF_SOURCES = ("std::iter::Iterator::cycle", "std::iter::repeat", "std::iter::repeat_with", "core::iter::repeat", "core::iter::repeat_with")
STILL_INFINITE = {"map", "map_while", "take_while", "enumerate", "peekable", "by_ref", "inspect", "cloned", "copied", "scan", "step_by", "skip", "chain", "into_iter", "fuse"}
BOUNDED_PULL = {"next", "nth", "advance_by", "peek", "next_if", "next_if_eq", "size_hint"}
NOW_FINITE = {"take", "zip"}


def infinite_iterators(prog, chk, reach):
    # functions that hand out an endless iterator
    src_fns = set()
    for bid in reach:
        b = prog.bodies[bid]
        if b.unit != "svgdx-lib" or b.root:
            continue
        if b.call_sites(lambda c: c.decl_path in INF_SOURCES or c.path in INF_SOURCES):
            it = prog.item(b.path, "fn")
            if it and ("Iterator" in (it.get("output") or "") or "Cycle" in (it.get("output") or "")):
                src_fns.add(b.path)
    n_src = n_use = 0
    for bid in sorted(reach):
        b = prog.bodies[bid]
        if b.unit != "svgdx-lib":
            continue
        inf = set()
        for (bb, t, c) in b.call_sites(lambda c: c.path in src_fns or ((c.decl_path in INF_SOURCES or c.path in INF_SOURCES) and b.path not in src_fns)):
            inf.add(bb)
            n_src += 1
        if not inf:
            continue
        changed = True
        reported = set()
        while changed:
            changed = False
            for (bb, t, c) in b.call_sites(lambda c: c.decl_path.startswith("std::iter::Iterator::") or c.decl_path == "std::iter::IntoIterator::into_iter"):
                if not t["args"] or bb in inf:
                    continue
                o = R.origin(b, t["args"][0], carriers={})
                if not (o[0] == "call" and o[1] in inf):
                    continue
                m = c.decl_path.split("::")[-1]
                key = f"{b.short}:{m}"
                if m in STILL_INFINITE:
                    inf.add(bb)
                    changed = True
                elif m in NOW_FINITE or m in BOUNDED_PULL:
                    if (bb, m) not in reported:
                        reported.add((bb, m))
                        n_use += 1
                        chk.ok("A4.endless-iterator", key + f"@{len(reported)}", b.where(bb, t.get("line")), f"endless iterator consumed by {m}(): a bounded number of items is pulled")
                else:
                    if (bb, m) not in reported:
                        reported.add((bb, m))
                        n_use += 1
                        chk.bad("A4.endless-iterator", key, b.where(bb, t.get("line")), f"{b.short}: an endless iterator (cycle/repeat) is fed to Iterator::{m}(), which may pull items until a condition holds that never does (or forever): a value that never satisfies it hangs the transform")
        # a `for` loop directly over an endless iterator
        for h, blocks in b.loops.items():
            for x in blocks:
                t = b.term(x)
                if t["k"] == "call" and "fn" in t and Callee(t["fn"]).decl_path == "std::iter::Iterator::next" and t["args"]:
                    o = R.origin(b, t["args"][0], carriers={})
                    if o[0] == "call" and o[1] in inf and Callee(o[2]["fn"]).decl_path == "std::iter::IntoIterator::into_iter":
                        chk.bad("A4.endless-iterator", f"{b.short}:for-loop", b.where(h), f"{b.short}: a `for` loop runs directly over an endless iterator")
    chk.floor("A4.endless-iterator", n_src, 4, "call producing an endless iterator (attr_split_cycle / cycle)")


def indent_amplification(prog, chk):
    """Text the library generates for an element (label, tspans, line breaks between them) is indented like the element:
    `" ".repeat(self.indent)`, several times per element.  The indent is read off the input - the blanks that end the
    text in front of the element - so unless it is capped the output holds (elements with generated text) x (longest
    run of blanks) bytes: N labelled elements on one line behind 100*N blanks are 125*N bytes of input and 100*N*N bytes
    of output.  Work per element has to be bounded by something the element asks for, not by the length of the input"""
    reps = []
    for b in prog.bodies.values():
        if b.unit != "svgdx-lib":
            continue
        for (x, t, c) in b.call_sites(lambda c: c.path.split("::")[-1] == "repeat" and "str" in c.path):
            o = R.origin(b, t["args"][1], carriers={}) if len(t["args"]) > 1 else ("unknown",)
            if o[0] == "field" and o[1][1] and str(o[1][1][-1]).startswith("."):
                reps.append((b, x, t, str(o[1][1][-1])[1:]))
    fields = sorted({f for (_b, _x, _t, f) in reps})
    n = 0
    done = set()
    for f in fields:
        for b in prog.bodies.values():
            if b.unit != "svgdx-lib":
                continue
            srcs = set()
            for x, i, st in b.all_stmts():
                rv = st.get("rv") or {}
                if rv.get("k") == "aggr" and f in (rv.get("fnames") or []) and "svgdx::events::" in str(rv.get("adt", "")):
                    pl = op_place(rv["ops"][rv["fnames"].index(f)])
                    if pl is not None and not pl[1]:
                        srcs.add(pl[0])
            for l in sorted(srcs):
                # the variable the field is filled from: is it ever given a difference of lengths, and is it capped?
                roots, work = {l}, [l]
                while work:
                    a = work.pop()
                    for d in b.defs_of(a):
                        if d[1] != "term" and d[2].get("k") == "use":
                            q = op_place(d[2].get("op"))
                            if q is not None and q[0] not in roots:
                                roots.add(q[0])
                                work.append(q[0])
                from_len = False
                capped = False
                for a in roots:
                    for d in b.defs_of(a):
                        o = ("rv", d[2]) if d[1] != "term" else ("call", d[0], d[2])
                        if o[0] == "rv" and d[2].get("k") == "use":
                            o = R.origin(b, d[2]["op"], carriers={})
                        if o[0] == "rv" and o[1].get("k") == "binop" and str(o[1].get("op", "")).startswith("Sub"):
                            ends = [R.origin(b, o[1][sd], carriers={}) for sd in ("a", "b")]
                            if all(e[0] == "call" and "fn" in e[2] and Callee(e[2]["fn"]).path.split("::")[-1] == "len" for e in ends):
                                from_len = True
                        if o[0] == "call" and "fn" in o[2] and Callee(o[2]["fn"]).path.split("::")[-1] in ("min", "clamp"):
                            capped = True
                if not from_len or (b.path, f) in done:
                    continue
                done.add((b.path, f))
                n += 1
                chk.touch(b)
                chk.ob(capped, "A4.indent-amplification", f"{b.short}:{f}", b.where(), f"the `{f}` recorded for an element is capped", f"{b.short} records as `{f}` of every element the number of blanks that end the text in front of it, with no upper bound, and {reps[0][0].short} writes that many blanks {len([1 for r in reps if r[3] == f])} times over for an element with generated text: output and time grow with (labelled elements) x (length of a run of blanks in the input) - quadratic in the size of the document")
    if reps and not n:
        chk.undecided("A4.indent-amplification", "indent", reps[0][0].where(reps[0][1], reps[0][2].get("line")), "where the repeat count of generated indentation comes from is not read here")


def lookup_amplification(prog, chk):
    """Recursive descent does work proportional to its token stream because every token is consumed once.  A function
    on the expression cycle that starts a *fresh* token stream (a variable's value, tokenised again) and evaluates it
    breaks that bound: a value that mentions a variable k times costs k evaluations of that variable, nested d deep
    k^d - unless results are remembered (a map consulted before evaluating) or the work is budgeted (a counter that is
    advanced and compared with a limit, other than the nesting depth).  The nesting guard bounds d (MAX_EXPR_DEPTH),
    not the product."""
    n = 0
    for b in prog.bodies.values():
        if b.unit != "svgdx-lib" or not b.path.startswith("svgdx::expression::"):
            continue
        fresh = b.call_sites(lambda c: c.path.endswith("EvalState::<'a>::new") or c.path.endswith("EvalState::new"))
        evals = b.call_sites(lambda c: c.path in ("svgdx::expression::expr_list", "svgdx::expression::expr"))
        if not fresh or not evals:
            continue
        # ... on the cycle: reachable from what it calls
        reach = prog.reachable_from([prog.body(c.path) for (_bb, _t, c) in evals if prog.maybe_body(c.path) is not None])
        if b.id not in reach and not any(x.root == b.id and x.id in reach for x in prog.bodies.values()):
            continue
        n += 1
        scope = [b] + list(prog.closures_of(b))
        memo = any(bd.call_sites(lambda c: ("HashMap" in c.path or "BTreeMap" in c.path) and c.path.split("::")[-1] in ("get", "get_mut", "entry", "contains_key", "insert") and "ExprValue" in (c.inst or "")) for bd in scope)
        budget = False
        for bd in scope:
            for x, i, st in bd.all_stmts():
                rv = st.get("rv") or {}
                if rv.get("k") == "binop" and rv.get("op") in ("Gt", "Ge", "Lt", "Le"):
                    for side in (rv["a"], rv["b"]):
                        ch = bd.chase(side)
                        if ch[0] == "place" and ch[1][1] and str(ch[1][1][-1]) != ".depth" and R.increments_of(bd, ch[1]):
                            budget = True  # a counter advanced here and compared with a limit: the work is budgeted
        key = f"{b.short}:re-evaluation"
        chk.ob(
            memo or budget,
            "A4.lookup-amplification",
            key,
            b.where(fresh[0][0], fresh[0][1].get("line")),
            f"{b.short} evaluates a fresh token stream on the expression cycle, but results are remembered / the work is budgeted",
            f"{b.short} tokenises and evaluates a variable's value again at every reference, on the recursive expression cycle, with neither a memo nor a work budget: a value that mentions a variable twice doubles the work at every level of nesting - `a1=\"$a2+$a2\" a2=\"$a3+$a3\" ..` costs 2^N evaluations for N attributes (only the depth of the chain is limited, by MAX_EXPR_DEPTH = 100)",
        )
    chk.floor("A4.lookup-amplification", n, 1, "fresh evaluation of a variable value on the expression cycle")


def retry_amplification(prog, chk):
    """A retry loop that sits inside a recursive cycle multiplies its passes at every nesting level: if each level may
    run its body twice, N levels cost 2^N.  process_tags is such a loop (it is on the element-nesting cycle), so its
    decision to go round again must depend on progress that is *shared across levels* (a call on / field of the
    context), not only on its own local lists - otherwise a pass that cannot help is repeated at every level."""
    b = prog.body("svgdx::transform::process_tags")
    chk.touch(b)
    scc = [c for c in prog.sccs() if b.id in c]
    in_cycle = bool(scc) and len(scc[0]) > 1
    loops = [(h, blocks) for h, blocks in b.loops.items() if not iterator_driven_header(b, h, blocks)]
    if not in_cycle or not loops:
        chk.anchor_missing("A4.retry-amplification", f"process_tags: recursive cycle ({in_cycle}) / retry loop ({len(loops)}) not found")
        return
    h, blocks = max(loops, key=lambda x: len(x[1]))
    # the no-progress exit: blocks in the loop that construct MultiError
    exits = {x for x in blocks | set(b.reachable) for st in b.stmts(x) if st.get("rv", {}).get("k") == "aggr" and st["rv"].get("variant") == "MultiError" and st["rv"].get("adt") == "svgdx::errors::SvgdxError"}
    if not exits:
        chk.anchor_missing("A4.retry-amplification", "process_tags: the no-progress exit (MultiError) not found")
        return
    # conditions that decide between that exit and another pass
    from sa import discharge as D
    shared = False
    for e in exits:
        for (a, x) in D.dominating_edges(b, e):
            if a not in blocks:
                continue
            inner = R.loop_containing(b, a)
            if inner is None or inner[0] != h:
                continue
            t = b.term(a)
            if t["k"] != "switch":
                continue
            if _derives_from_context(b, t["op"]):
                shared = True
    # also conditions on the *continue* side: the exit may be the fall-through of an `||`
    if not shared:
        for x in blocks:
            t = b.term(x)
            inner = R.loop_containing(b, x)
            if inner is None or inner[0] != h:
                continue  # inside the per-tag `for` loop: not part of the go-round-again decision
            if t["k"] == "switch":
                if _derives_from_context(b, t["op"]):
                    tt, ft = R.switch_targets_bool(t)
                    if (b.reach([tt], avoid={h}) & exits) or (b.reach([ft], avoid={h}) & exits):
                        shared = True
    chk.ob(shared, "A4.retry-amplification", "process_tags", b.where(h), "the retry loop on the element-nesting cycle goes round again only if progress recorded in the shared context has advanced (passes do not multiply per nesting level)", "process_tags (a retry loop on the recursive element-nesting cycle) decides to retry from its own local lists only: an unresolvable element inside N nested containers is re-evaluated at every level - 2^N evaluations within the depth limit (time not proportional to the document)")


def retry_novelty(prog, chk):
    """the measure of progress that licenses another pass advances only for *new* information: if it also advances when
    an element that was already resolved in an earlier run of the same container is resolved again, a failing container
    that is followed by a resolving sibling is re-run at every nesting level (2^N within the depth limit)"""
    CTX = "svgdx::context::TransformerContext::"
    b = prog.body("svgdx::transform::process_tags")
    setters = []
    for (bb, t, c) in b.call_sites(lambda c: c.path.startswith(CTX)):
        sb = prog.maybe_body(c.path)
        if sb is None or len(t["args"]) > 2:
            continue
        # a context method that does nothing but add a constant to a field of the context
        incr = [st for _, _, st in sb.all_stmts() if (st.get("rv") or {}).get("k") == "binop" and st["rv"].get("op") in ("AddWithOverflow", "Add") and isinstance((st["rv"].get("b") or {}).get("k"), dict)]
        branches = [x for x in sb.reachable if sb.term(x)["k"] == "switch"]
        calls = list(sb.calls())
        if incr and not branches and not calls:
            setters.append((bb, t, sb))
    for (bb, t, sb) in setters:
        chk.bad(
            "A4.retry-amplification",
            "process_tags:success-counter:novelty",
            b.where(bb, t.get("line")),
            f"the progress that licenses another pass of process_tags is a plain count of successful elements ({sb.short}): an element resolved again in a re-run of its container counts as progress again, so a failing container followed by a resolving sibling is run twice at every nesting level - an unresolvable reference inside N nested groups, each followed by a sibling element, is evaluated 2^N times (N <= depth limit 100)",
        )
    if not setters:
        chk.ok("A4.retry-amplification", "process_tags:novelty", b.where(), "no plain success counter feeds the retry decision")


def retry_baseline_after_attempt(prog, chk):
    """the progress that licenses a retry is measured from *after* the failed attempt: a baseline read before the
    attempt counts what the failing container resolved inside itself as progress, so every nesting level retries its
    failing child (2^N).  Every read of a context progress getter inside the per-tag loop of process_tags is dominated by
    the generate_events call of that tag."""
    b = prog.body("svgdx::transform::process_tags")
    chk.touch(b)
    CTX = "svgdx::context::TransformerContext::"
    gens = b.call_sites(lambda c: (c.decl_path == "svgdx::transform::EventGen::generate_events" or c.path.endswith(" as svgdx::transform::EventGen>::generate_events")))
    if not gens:
        chk.anchor_missing("A4.retry-amplification", "process_tags: generate_events call not found")
        return
    gb = gens[0][0]
    inner = R.loop_containing(b, gb)
    n = 0
    early = []
    for (bb, t, c) in b.call_sites(lambda c: c.path.startswith(CTX)):
        gbody = prog.maybe_body(c.path)
        if gbody is None or len(t["args"]) != 1 or inner is None or bb not in inner[1]:
            continue
        # a getter: returns a field of the context
        rets = [st for _, _, st in gbody.all_stmts() if st.get("lhs") and st["lhs"][0] == 0 and (st.get("rv") or {}).get("k") == "use"]
        if not rets or any(tt["k"] == "switch" for tt in (gbody.term(x) for x in gbody.reachable)):
            continue
        if "usize" not in (t.get("dty") or b.local_ty(t["dest"][0]) or ""):
            continue
        n += 1
        if not b.dominates(gens[0][1]["t"], bb):
            early.append(b.where(bb, t.get("line")))
    chk.ob(n > 0 and not early, "A4.retry-amplification", "process_tags:baseline-after-attempt", b.where(gb), "inside the per-tag loop the progress measure is read only after the tag has been attempted", f"process_tags reads the progress measure before attempting the tag ({', '.join(early) or 'no read found in the loop'}): what a failing container resolved inside itself then counts as progress since its failure, every level retries its failing child, and an unresolvable reference N levels deep is evaluated 2^N times")


def iterator_driven_header(body, h, blocks):
    from props import C01_loops
    return bool(C01_loops.iterator_driven(body, h, blocks))


def _derives_from_context(body, op, depth=6):
    """does the operand come from a call on / a field of a `&mut TransformerContext` parameter?"""
    o = R.origin(body, op, carriers={})
    if o[0] == "call" and "fn" in o[2]:
        c = Callee(o[2]["fn"])
        if c.path.startswith("svgdx::context::TransformerContext::"):
            return True
        if depth > 0:
            return any(_derives_from_context(body, a, depth - 1) for a in o[2]["args"])
    if o[0] == "field":
        ty = body.local_ty(o[1][0]) or ""
        return "TransformerContext" in ty
    if o[0] == "rv" and depth > 0:
        rv = o[1]
        if rv.get("k") in ("cast", "use") and rv.get("op") is not None:
            return _derives_from_context(body, rv["op"], depth - 1)
        if rv.get("k") == "aggr":
            return any(_derives_from_context(body, a, depth - 1) for a in rv.get("ops", []))
        if rv.get("k") == "binop":
            return any(_derives_from_context(body, rv[sd], depth - 1) for sd in ("a", "b"))
        if rv.get("k") == "unop":
            return _derives_from_context(body, rv["a"], depth - 1)
    return False
