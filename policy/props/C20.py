"""C20 Auto-styles are self-consistent, minimal and leave author styles alone (mechanisms)."""
import re

from sa import rules as R, hirq
from sa.prog import P, Callee, op_place, op_const, const_str

EXPLANATION = (
    "(1) injection gating: write_auto_styles is control-dependent on `root <svg> present && add_auto_styles` and is "
    "unreachable for real SVG; (2) guard <-> selector agreement: every style emitted under a `has_class(K)` guard (K a literal, "
    "a formatted pattern over a loop variable, or a table variable) selects exactly that class (`.K` occurs in the rule's "
    "template, rendered from the fmt::Arguments byte template), so a rule appears iff its class is used; (3) reference "
    "closure: every `url(#X)` in a style or definition template has exactly one `id=\"X\"` in a definition template emitted "
    "by the same function, where X is the same literal or the same variable, and ids are pairwise distinct; the arrow marker "
    "is defined exactly when a rule referencing it is emitted; (4) the class/element collection visits every Start and "
    "Empty event unconditionally; (5) colour vocabulary: DARK_COLOURS is a subset of COLOUR_LIST, without duplicates. "
    "Undecided: the bounded-exhaustive sweep over the class vocabulary x themes (an execution), numeric style values, "
    "preservation of author <style>/<defs> content beyond C04."
    " Also: every class guard is the bare has_class() test; get_defs()/get_styles() are written unfiltered."
)
TRUSTED = ["fmt::Arguments byte-template encoding as documented in core::fmt"]
ASSUMPTIONS = []

THEMES = "svgdx::themes::"


def run(prog, chk):
    chk.rule(gating, prog, chk)
    chk.rule(guards_and_closure, prog, chk)
    chk.rule(closure_preserved, prog, chk)
    chk.rule(collection, prog, chk)
    chk.rule(gating_flag_writers, prog, chk)
    chk.rule(generated_text_uses_no_class, prog, chk)
    chk.rule(colours, prog, chk)
    chk.rule(plain_guards, prog, chk)
    chk.rule(evaluated_classes_are_split, prog, chk)
    chk.rule(builders_unconditional, prog, chk)
    chk.rule(root_outside_collection, prog, chk)
    chk.rule(hooks_add_nothing_by_default, prog, chk)
    chk.rule(class_loops_run_to_the_end, prog, chk)
    chk.rule(unfiltered_output, prog, chk)
    chk.rule(unconditional_emissions, prog, chk)
    from props import C02
    chk.rule(C02.other_is_whole_input_event, prog, chk)  # every element tag of the output is a Start / Empty event: the class scan of the style pass sees all of them
    from props import strops
    chk.rule(strops.check_for, prog, chk, "C20")  # A14.str-ops: how this property's strings are cut up is a reviewed, frozen inventory
    chk.rule(strops.check_evaluation_sites, prog, chk)  # the text of an author's <style> reaches the output as written: what is evaluated is a reviewed list of sites


def _true_only_after(body, place, after_blocks, depth=5):
    """`place` is a bool flag (a local, or a component of a tuple of flags) every definition of which is a constant,
    and it is set to true only in blocks dominated by one of `after_blocks` (true => that call has happened)"""
    if depth == 0:
        return False
    l, proj = place[0], [p for p in place[1] if p != "*"]
    if len(proj) > 1 or (proj and not re.fullmatch(r"\.\d+", str(proj[0]))):
        return False
    defs = body.defs_of(l)
    if not defs:
        return False
    can_be_true = False
    for d in defs:
        if d[1] == R.TERM:
            return False
        rv = d[2]
        if proj:
            n = int(str(proj[0])[1:])
            if rv["k"] != "aggr" or rv.get("ak") != "tuple" or n >= len(rv["ops"]):
                return False
            o = rv["ops"][n]
        elif rv["k"] == "use":
            o = rv["op"]
        else:
            return False
        k = op_const(o)
        if k is not None:
            if "bool" not in k:
                return False
            if k["bool"]:
                if not any(body.dominates(rb, d[0]) for rb in after_blocks):
                    return False
                can_be_true = True
            continue
        pl = op_place(o)
        if pl is None:
            return False
        if not _true_only_after(body, pl, after_blocks, depth - 1):
            return False
        can_be_true = True
    return can_be_true


# style / defs emissions that do not depend on a class being used (function -> number of sites, reason)
UNCONDITIONAL_OK = {
    "svgdx::themes::append_common_styles": (1, "the base rule for all shapes (stroke / fill defaults of the theme)"),
    "svgdx::themes::append_arrow_styles": (2, "marker rule + marker defs, inside the `any arrow class is used` block (tested once for the group)"),
    "svgdx::themes::append_dash_styles": (1, "the @keyframes of d-flow, inside the `any flow class` block"),
    "svgdx::themes::pattern_defs": (2, "called only for a pattern class that is in use (guard at the call site)"),
    "svgdx::themes::d_softshadow": (2, "called only when d-softshadow is in use (guard at the call site)"),
    "svgdx::themes::d_hardshadow": (2, "called only when d-hardshadow is in use (guard at the call site)"),
    "svgdx::themes::Theme::build": (4, "background, font and the theme's own base rules: document-wide settings, not class rules"),
    "<svgdx::themes::FineTheme as svgdx::themes::Theme>::append_early_styles": (1, "theme-wide base rule"),
    "<svgdx::themes::BoldTheme as svgdx::themes::Theme>::append_early_styles": (1, "theme-wide base rule"),
    "<svgdx::themes::GlassTheme as svgdx::themes::Theme>::append_early_styles": (1, "theme-wide base rule"),
}


def unconditional_emissions(prog, chk):
    """a style rule or <defs> entry is emitted under a test of the class it belongs to (has_class / has_element true
    edge dominating the add_style / add_defs call); the emissions that are not are a reviewed list, and it does not grow:
    a rule taken out from under its guard is written into every document, whether or not its class is used"""
    from sa import discharge as D
    from props.C01 import strip_closures
    import collections

    cnt = collections.Counter()
    where = {}
    n = 0
    seen_lines = set()
    for b in prog.bodies.values():
        if not b.path.startswith(("svgdx::themes::", "<svgdx::themes::")):
            continue
        for (bb, t, c) in b.call_sites(lambda c: c.path.split("::")[-1] in ("add_style", "add_defs") and "ThemeBuilder" in c.path):
            n += 1
            guarded = any(k == "call" and p[0] == "has_class" and tr for (k, p, tr) in D.dom_conditions(b, bb))
            if not guarded:
                f = strip_closures(b.path)
                if (f, t.get("line")) in seen_lines:
                    continue  # one helper line spliced in at several call sites is one emission
                seen_lines.add((f, t.get("line")))
                cnt[f] += 1
                where.setdefault(f, b.where(bb, t.get("line")))
    chk.floor("A13.unconditional-style", n, 30, "add_style / add_defs call in src/themes.rs")
    orphans = {o: v[0] for o, v in UNCONDITIONAL_OK.items() if not prog.by_path.get(o)}
    for f in sorted(set(cnt) | set(UNCONDITIONAL_OK)):
        allowed, why = UNCONDITIONAL_OK.get(f, (0, ""))
        owners = prog.owners_of(f) if f not in UNCONDITIONAL_OK else set()
        if owners:
            allowed = sum(UNCONDITIONAL_OK.get(o, (0, ""))[0] for o in owners)
        if cnt[f] > allowed:
            # reviewed functions that no longer exist: their body - and the reviewed emissions in it - moved elsewhere
            for o in sorted(orphans):
                take = min(orphans[o], cnt[f] - allowed)
                if take > 0:
                    orphans[o] -= take
                    allowed += take
                    why = (why + "; " if why else "") + f"moved here from {o.replace('svgdx::', '')}, which no longer exists: {UNCONDITIONAL_OK[o][1]}"
        chk.ob(cnt[f] <= allowed, "A13.unconditional-style", f.replace("svgdx::", ""), where.get(f, "src/themes.rs"), f"{cnt[f]} emission(s) outside a class test (reviewed: {allowed}; {why})", f"{f.replace('svgdx::', '')} emits {cnt[f]} style / defs entries that are not under a has_class() test (reviewed: {allowed}): a rule taken out from under its guard is written into every document whether or not its class is used", by="table")


def gating(prog, chk):
    pp = prog.body("svgdx::transform::Transformer::postprocess")
    chk.touch(pp)
    calls = pp.call_sites(R.path_is("svgdx::transform::Transformer::write_auto_styles"))
    chk.floor("A13.style-gating", len(calls), 1, "write_auto_styles call")
    from sa import discharge as D
    for (bb, t, c) in calls:
        conds = []
        for (a, x) in D.dominating_edges(pp, bb):
            st = pp.term(a)
            if st["k"] != "switch":
                continue
            tt, ft = R.switch_targets_bool(st)
            o = pp.chase(st["op"])
            name = None
            if o[0] == "place":
                named = [x for x in o[1][1] if x.startswith(".")]
                name = named[-1] if named else pp.local_name(o[1][0])
            conds.append((name, x == tt))
            # the `root <svg> was found` flag, recognised by dataflow rather than by name: a bool local all of whose
            # definitions are constants, set to true after write_root_svg() was called
            roots = [rb for (rb, rt, rc) in pp.call_sites(R.path_endswith("Transformer::write_root_svg"))]
            if o[0] == "place" and x == tt:
                if _true_only_after(pp, o[1], roots):
                    conds.append(("<root-found flag>", True))
            # the same flag as a field-less enum (`root != RootSvg::Absent`): every flag value with which this edge is
            # taken is assigned only after write_root_svg was called
            ftst = R.flag_test(pp, a)
            if ftst is not None:
                vals = ftst["edge_values"].get(x, set())
                defs = [blk for v, blk in ftst["flow"] if v in vals]
                # ... or is assigned on the way to that call (no path from the assignment to here avoids it)
                if vals and defs and all(any(pp.dominates(rb, blk) for rb in roots) or bb not in pp.reach([blk], avoid=set(roots)) for blk in defs):
                    conds.append(("<root-found flag>", True))
        has_root = ("<root-found flag>", True) in conds
        on = (".add_auto_styles", True) in conds
        not_real = (".real_svg", False) in conds or any(n == ".real_svg" and not v for n, v in conds)
        known = {".add_auto_styles", ".real_svg", "<root-found flag>"}
        if on and not has_root and any(nm not in known for nm, _v in conds):
            # there is a further dominating test the rule cannot read as "a root <svg> was written" (the flag may be an
            # Option / enum handed back by a helper): no verdict
            chk.undecided("A13.style-gating", "postprocess:write_auto_styles", pp.where(bb, t.get("line")), f"write_auto_styles is guarded by add_auto_styles and by tests the rule does not understand ({[c for c in conds if c[0] not in known]}); whether they mean `a root <svg> was found` is not decided")
            continue
        chk.ob(
            has_root and on,
            "A13.style-gating",
            "postprocess:write_auto_styles",
            pp.where(bb, t.get("line")),
            "styles/defs are injected only when the document has a root <svg> and add_auto_styles is on",
            f"write_auto_styles is not guarded by both the `root <svg> found` flag and `add_auto_styles` (dominating conditions: {conds})",
        )
        if not not_real and "real_svg" not in [f_["name"] for f_ in ((prog.adt("svgdx::context::TransformerContext").get("variants") or [{}])[0].get("fields") or [])]:
            chk.undecided("A13.style-gating", "postprocess:not-real-svg", pp.where(bb, t.get("line")), "TransformerContext has no `real_svg` field: how style injection is kept from passed-through documents is not read here")
            continue
        chk.ob(not_real, "A13.style-gating", "postprocess:not-real-svg", pp.where(bb, t.get("line")), "style injection is unreachable for real SVG", "style injection is reachable for real SVG documents")
    # has_svg_element is set only when the root was found
    callers = sorted(x.path for x in prog.callers_of(prog.body("svgdx::transform::Transformer::write_auto_styles")))
    chk.ob(callers == [pp.path], "A13.style-gating", "write_auto_styles:callers", pp.where(), "write_auto_styles is called only from postprocess", f"write_auto_styles callers: {callers}")


def _norm_key(s):
    return s


def guards_and_closure(prog, chk):
    n_guard = 0
    all_ids = []
    for body in sorted(prog.bodies.values(), key=lambda b: b.path):
        if not body.path.startswith(THEMES) and "svgdx::themes::" not in body.path:
            continue
        h = prog.hir.get(body.id)
        if not h or "body" not in h:
            continue
        where = body.where()
        styles, defs = [], []
        for n in hirq.exprs(h["body"], "MethodCall"):
            if n["name"] == "add_style" and n["args"]:
                styles.append((hirq.render_string_expr(n["args"][0]), n.get("line")))
            elif n["name"] == "add_defs" and n["args"]:
                defs.append((hirq.render_string_expr(n["args"][0]), n.get("line")))
        # (2) guard <-> selector
        for iff in hirq.exprs(h["body"], "If"):
            cond = iff["cond"]
            if not (cond.get("k") == "MethodCall" and cond["name"] == "has_class" and cond["args"]):
                continue
            key = hirq.render_string_expr(cond["args"][0])
            for n in hirq.exprs(iff["then"], "MethodCall"):
                if n["name"] != "add_style" or not n["args"]:
                    continue
                tpl = hirq.render_string_expr(n["args"][0])
                n_guard += 1
                k = f"{body.short}:{key}"
                if key and tpl and re.fullmatch(r"\{\w+\}", key) and re.fullmatch(r"\{\w+\}", tpl) and key != tpl:
                    # both come from the columns of a literal table: check the table row by row
                    rows = _table_rows(h["body"])
                    bad_rows = [(c_, r_[:40]) for (c_, r_) in rows if "." + c_ not in r_]
                    n_guard += max(len(rows) - 1, 0)
                    chk.ob(bool(rows) and not bad_rows, "A16.guard-selector", k + ":table", body.where(line=n.get("line")), f"each of the {len(rows)} (class, rule) table rows selects its own class", f"table rows whose rule does not select the row's class: {bad_rows[:4]}")
                    continue
                if key is None or tpl is None:
                    chk.bad("A16.guard-selector", k, body.where(line=n.get("line")), f"cannot render guard ({key}) or style template ({tpl})")
                    continue
                sel = "." + key
                # at-rules / descendant helper rules directly tied to the guard need not mention the class
                chk.ob(
                    sel in tpl,
                    "A16.guard-selector",
                    k,
                    body.where(line=n.get("line")),
                    f"rule emitted under has_class({key}) selects `{sel}`",
                    f"rule `{tpl[:70]}` is emitted under has_class({key}) but does not select `{sel}`: the rule and the class that triggers it disagree",
                )
        # (3) url(#X) <-> id="X"
        refs = []
        for (tpl, line) in styles + defs:
            if tpl:
                refs += [(m, line) for m in re.findall(r"url\(#([^)\s]+)\)", tpl)]
        # rules that reach add_style by another route (a table of (class, rule) rows handed to a helper): every
        # string literal of the function that spells a reference counts as one
        seen_refs = {m for m, _l in refs}
        for n in hirq.exprs(h["body"], "Lit"):
            txt = hirq.lit_str(n)
            if isinstance(txt, str):
                for m in re.findall(r"url\(#([^)\s{}]+)\)", txt):
                    if m not in seen_refs:
                        seen_refs.add(m)
                        refs.append((m, n.get("line")))
        ids = []
        for (tpl, line) in defs:
            if tpl:
                ids += [(m, line) for m in re.findall(r"\bid=\"([^\"]+)\"", tpl)]
        all_ids += [(i, body.short) for (i, _) in ids]
        for (r, line) in refs:
            cnt = len([1 for (i, _) in ids if i == r])
            chk.ob(
                cnt == 1,
                "A16.url-id-closure",
                f"{body.short}:url(#{r})",
                body.where(line=line),
                f"`url(#{r})` is defined exactly once (`id=\"{r}\"`) by a definition emitted in the same function",
                f"`url(#{r})` has {cnt} matching `id=\"{r}\"` definition(s) in {body.short}: dangling or ambiguous reference",
            )
        for (i, line) in ids:
            if not any(r == i for (r, _) in refs):
                chk.bad("A16.url-id-closure", f"{body.short}:id={i}", body.where(line=line), f"definition `id=\"{i}\"` is emitted but no rule of the function references it (not minimal)")
    chk.floor("A16.guard-selector", n_guard, 25, "style rule under a has_class guard")
    dup = sorted({i for (i, _) in all_ids if len([1 for (j, _) in all_ids if j == i]) > 1})
    chk.ob(not dup, "A16.url-id-closure", "ids-distinct", "src/themes.rs", f"the {len(all_ids)} definition ids are pairwise distinct", f"definition ids defined more than once: {dup}")
    # arrow marker: defined iff referenced - decided on paths, whatever the source idiom (a flag set in the guarded
    # arms, two saved tests and an early return, a helper that reports whether it added the rule ..): no path reaches
    # the definition without passing a rule that references it, and no path from such a rule leaves without it
    aa = prog.body(THEMES + "append_arrow_styles")
    chk.touch(aa)

    def _lit_arg(t):
        for a_ in t.get("args", [])[1:]:
            o_ = R.origin(aa, a_, carriers=dict(R.CARRIERS))
            if o_[0] == "const" and "str" in o_[1]:
                return o_[1]["str"]
        return None

    refs_b = [bb for (bb, t, c) in aa.call_sites(lambda c: c.path.split("::")[-1] == "add_style") if "url(#d-arrow)" in (_lit_arg(t) or "")]
    defs_b = [bb for (bb, t, c) in aa.call_sites(lambda c: c.path.split("::")[-1] == "add_defs") if 'id="d-arrow"' in (_lit_arg(t) or "")]
    in_loop = [x for x in defs_b if R.loop_containing(aa, x) is not None]
    if in_loop:
        chk.bad("A16.url-id-closure", "append_arrow_styles:flag", aa.where(in_loop[0]), "the arrow marker definition is emitted inside a loop: once per pass in which its condition holds, so two classes that both reference url(#d-arrow) give two definitions with the same id")
    elif not refs_b or len(defs_b) != 1:
        chk.undecided("A16.url-id-closure", "append_arrow_styles:flag", aa.where(), f"the arrow marker's rules / definition are not emitted by add_style / add_defs calls with literal text in append_arrow_styles ({len(refs_b)} referencing rule(s), {len(defs_b)} definition(s) found): not decided")
    else:
        rets = [x for x in aa.reachable if aa.term(x)["k"] == "ret"]
        unref = R.feasible_reach(aa, [0], defs_b, avoid=refs_b)
        undef = R.feasible_reach(aa, [aa.term(x)["t"] for x in refs_b if aa.term(x).get("t") is not None], rets, avoid=defs_b)
        chk.ob(not unref and not undef, "A16.url-id-closure", "append_arrow_styles:flag", aa.where(defs_b[0]), "the arrow marker is defined on exactly the paths on which a rule referencing it was emitted (defined iff referenced)", ("the arrow marker definition can be emitted on a path on which no rule references it (not minimal)" if unref else "a rule referencing url(#d-arrow) can be emitted on a path that never defines the marker: a dangling reference"))
    # pattern / shadow builders are only invoked under the guard of their class
    tb = prog.body("svgdx::themes::Theme::build")
    hb = prog.hir[tb.id]
    ok = False
    for iff in hirq.exprs(hb["body"], "If"):
        c = iff["cond"]
        if c.get("k") == "MethodCall" and c["name"] == "has_class" and hirq.render_string_expr(c["args"][0]) == "{class}":
            ok = any(n.get("k") == "Call" for n in hirq.exprs(iff["then"], "Call"))
    chk.ob(ok, "A16.guard-selector", "Theme::build:shadows", tb.where(), "the shadow builders run only under has_class(class) of their table row", "shadow definitions are not guarded by their class")
    # table rows of the shadow table pair class and builder of the same name
    rows = []
    for arr in hirq.exprs(hb["body"], "Array"):
        for it in arr["items"]:
            if it.get("k") == "Tup" and len(it["items"]) == 2:
                s = hirq.lit_str(it["items"][0])
                fn = None
                for p in hirq.exprs(it["items"][1], "Path"):
                    r = (p.get("res") or {}).get("path", "")
                    if r.startswith(THEMES):
                        fn = r.split("::")[-1]
                if s and fn:
                    rows.append((s, fn))
    good = bool(rows) and all(s.replace("-", "_") == fn for (s, fn) in rows)
    if not rows:
        # the shadows are no longer a table of (class, builder function) rows (a data table with one builder, say)
        chk.undecided("A16.guard-selector", "Theme::build:shadow-table", tb.where(), "Theme::build has no table of (class, builder function) rows: how a shadow class is paired with its definition is not read here")
    else:
      chk.ob(good, "A16.guard-selector", "Theme::build:shadow-table", tb.where(), f"shadow table rows pair each class with its own builder {rows}", f"shadow table rows are mismatched: {rows}")


def _table_rows(node):
    rows = []
    for arr in list(hirq.exprs(node, "Array")) + [n for n in hirq.exprs(node, "Call")]:
        items = arr.get("items") or []
        for it in items:
            if it.get("k") == "Tup" and len(it["items"]) == 2:
                a, b = hirq.lit_str(it["items"][0]), hirq.lit_str(it["items"][1])
                if a and b:
                    rows.append((a, b))
    return rows


def closure_preserved(prog, chk):
    """(a) rules/definitions are never rewritten once emitted; (b) a pattern's definition id is derived from
    the class name that its rule selects"""
    TB = "svgdx::themes::ThemeBuilder"
    for field, adder in (("styles", "add_style"), ("defs", "add_defs")):
        w = R.field_writers(prog, field, TB)
        allowed = {TB + "::" + adder, TB + "::new"}
        extra = sorted(k for k in w if k not in allowed)
        chk.ob(
            not extra,
            "A10.emitted-immutable",
            field,
            "src/themes.rs",
            f"ThemeBuilder.{field} is only appended to by {adder}(): emitted text is never rewritten, so the per-generator url/id closure stays valid in the output",
            f"ThemeBuilder.{field} is also mutated by {extra}: rewriting emitted rules/definitions after the fact (e.g. prefixing ids) can leave url(#..) references dangling",
        )
    pattern_ids(prog, chk)


def _part_after(v, suffix):
    """in a formatted value, the part that follows the literal text ending in `suffix`"""
    if not isinstance(v, tuple) or v[0] != "fmt":
        return None
    parts = v[1]
    for i, p_ in enumerate(parts[:-1]):
        if isinstance(p_, str) and p_.endswith(suffix):
            return parts[i + 1]
    return None


def pattern_ids(prog, chk):
    """(b), decided on the values the affine evaluator computes for the two emissions of the pattern generator: the
    rule `.CLASS {fill: url(#ID)}` and the definition `<pattern id="ID2" ..>` must carry the same id, and the id is
    the selecting class with constant text stripped from its front (distinct classes give distinct ids)"""
    from sa import algebra as A

    # the generator: the function that emits the `<pattern id="` text
    owners = []
    gen_path = {}
    for b, h in prog.hir_items():
        if b is None or not isinstance(h, dict) or not b.path.startswith(THEMES) or (b in owners and gen_path.get(b.id) != b.path):
            continue
        for node in hirq.walk(h.get("body")):
            if node.get("k") != "Lit" or not isinstance(node.get("lit"), dict):
                continue
            texts = [node["lit"]["str"]] if isinstance(node["lit"].get("str"), str) else []
            if "bytes" in node["lit"]:
                try:
                    texts += [v for kind, v in hirq.decode_template(node["lit"]["bytes"]) if kind == "lit"]
                except Exception:  # noqa: BLE001 - a byte string that is not a format template
                    pass
            if any('<pattern id="' in t for t in texts):
                if b not in owners:
                    owners.append(b)
                gen_path[b.id] = h.get("path") or b.path  # a helper spliced into its caller is still evaluated on its own
                break
    owners = [b for b in owners if "{closure" not in b.path]
    if len(owners) != 1:
        chk.anchor_missing("A16.id-from-class", f"the pattern generator (the function emitting `<pattern id=`) is not unique: {[b.path for b in owners]}")
        return
    pd = owners[0]
    chk.touch(pd)
    ev = A.Evaluator(prog, watch=("add_style", "add_defs"), transparent=("fstr",))
    try:
        gp = gen_path.get(pd.id, pd.path)
        ev.summary(gp if gp in ev.by_path else pd.path)
    except Exception as e:  # an idiom the evaluator does not know
        chk.undecided("A16.id-from-class", "pattern_defs", pd.where(), f"the affine evaluator could not follow {pd.path}: {e}")
        return
    rules = [c["args"][-1] for c in ev.calls if c["name"] == "add_style" and c["args"]]
    defs = [c["args"][-1] for c in ev.calls if c["name"] == "add_defs" and c["args"]]
    rid = [(_part_after(v, "."), _part_after(v, "url(#")) for v in rules if _part_after(v, "url(#") is not None]
    did = [_part_after(v, '<pattern id="') for v in defs if _part_after(v, '<pattern id="') is not None]
    if len(rid) != 1 or len(did) != 1 or rid[0][0] is None or ev.incomplete:
        chk.undecided("A16.id-from-class", "pattern_defs", pd.where(), f"{pd.path}: the rule / definition texts are not built in a way the evaluator reads ({len(rid)} rule(s) with url(#..), {len(did)} definition(s) with an id" + (f"; {ev.incomplete[0]}" if ev.incomplete else "") + ")")
        return
    (sel, ref_id), def_id = rid[0], did[0]
    same = A.equal(ref_id, def_id)
    # the id as a term over the selecting class: the class itself, or a prefix-stripping function of it and constants
    cs, ci = A.canon(sel), A.canon(ref_id)
    derived = ci == cs or re.fullmatch(r"(trim_start_matches|strip_prefix|trim_start)\(" + re.escape(cs) + r"(; '[^']*')?\)", ci) is not None
    chk.ob(
        same and derived,
        "A16.id-from-class",
        "pattern_defs",
        pd.where(),
        f"the rule fills with url(#{ci}) and the definition's id is the same term; it is the selecting class {cs} minus a constant prefix (distinct classes get distinct ids, so each url(#id) is defined exactly once)",
        (f"the rule references url(#{ci}) but the definition carries id {A.canon(def_id)}" if not same else f"the pattern id {ci} is not the selecting class {cs} with a constant prefix removed: two different classes can map to the same id, giving duplicate definitions"),
    )


def gating_flag_writers(prog, chk):
    """the author's `add-auto-styles` setting is what the gating reads: the field is assigned where <config> (or the
    command line) is read and nowhere else - no other setting switches style injection back on behind it"""
    w = R.field_writers(prog, "add_auto_styles", "svgdx::TransformConfig")
    allowed = "<svgdx::transform::ConfigElement as svgdx::transform::EventGen>::generate_events"
    extra = []
    for k in sorted(w):
        if k == allowed or re.sub(r"(::\{closure#\d+\})+", "", k) == allowed or allowed in prog.owners_of(k) or k.startswith(("svgdx::cli::", "<svgdx::cli::")):
            continue
        extra.append(k)
    chk.ob(not extra, "A10.gating-flag", "add_auto_styles", "src/context.rs", "TransformConfig::add_auto_styles is assigned only where the author's setting is read", f"TransformConfig::add_auto_styles is also assigned in {[x.replace('svgdx::', '') for x in extra]}: styles can be injected although the author switched them off (or the reverse)")


def generated_text_uses_no_class(prog, chk):
    """the generated <defs> / <style> text carries no `class=` of its own: the classes of the document were collected
    before that text was generated, so a class used only there has no rule"""
    hits = []
    n = 0
    for b, h in prog.hir_items():
        if b is None or not isinstance(h, dict) or not b.path.startswith(THEMES):
            continue
        for node in hirq.walk(h.get("body")):
            if node.get("k") != "Lit" or not isinstance(node.get("lit"), dict):
                continue
            texts = [node["lit"]["str"]] if isinstance(node["lit"].get("str"), str) else []
            if "bytes" in node["lit"]:
                try:
                    texts += [v for kind, v in hirq.decode_template(node["lit"]["bytes"]) if kind == "lit"]
                except Exception:  # noqa: BLE001
                    pass
            for t_ in texts:
                n += 1
                m_ = re.search(r"<[a-zA-Z][^>]*\sclass=\"([^\"]*)", t_)
                if m_:
                    hits.append((b.where(line=node.get("line")), m_.group(1)))
    chk.floor("A16.generated-class", n, 40, "literal in src/themes.rs")
    chk.ob(not hits, "A16.generated-class", "themes", hits[0][0] if hits else "src/themes.rs", "no generated definition / rule text uses a class attribute", f"generated text uses class=\"{hits[0][1] if hits else ''}\" ({hits[0][0] if hits else ''}): the class scan ran before this text was generated, so unless an element of the document happens to use the same class no rule for it is written")


def collection(prog, chk):
    wa = prog.body("svgdx::transform::Transformer::write_auto_styles")
    chk.touch(wa)
    from props.C01_loops import every_cycle_passes
    ok = False
    detail = "no loop over the output events"
    for h, blocks in wa.loops.items():
        ins = [bb for (bb, t, c) in wa.call_sites(lambda c: ("HashSet" in c.path or "HashSet" in c.self_ty) and c.path.split("::")[-1] in ("insert", "extend")) if bb in blocks]
        if len(ins) < 2:
            continue
        # switch on the OutputEvent discriminant: both Start and Empty edges lead to the inserts, unconditionally
        for b in sorted(blocks):
            sd = R.switch_discr_place(wa, b)
            if sd is None or "OutputEvent" not in sd[1]:
                continue
            st = wa.term(b)
            vs = {v: tgt for v, tgt in st["vals"]}
            s_idx = R.enum_variant_index(prog, "svgdx::events::OutputEvent", "Start")
            e_idx = R.enum_variant_index(prog, "svgdx::events::OutputEvent", "Empty")
            if s_idx in vs and e_idx in vs:
                good = True
                for tgt in (vs[s_idx], vs[e_idx]):
                    r = wa.reach([tgt], avoid=ins)
                    # with the inserts removed the loop header must be unreachable: both inserts on every path
                    for one in ins:
                        r1 = wa.reach([tgt], avoid=[one])
                        if h in r1:
                            good = False
                ok = good
                detail = "both inserts are on every path of the Start and Empty arms" if good else "a Start/Empty event can be skipped by the class/element collection"
    if not ok and detail == "no loop over the output events":
        # the scan is not a loop of write_auto_styles with two inserts (it may live in a helper type, be an iterator chain ..)
        chk.undecided("A13.collect-all", "write_auto_styles", wa.where(), "write_auto_styles has no loop over the output events that inserts into the class and element sets: where the collection happens is not read here")
        return
    chk.ob(ok, "A13.collect-all", "write_auto_styles", wa.where(), "classes and element names are collected from every Start and Empty output event, unconditionally (also inside <defs>)", "the class/element collection skips some output elements: a reserved class used only there gets no rule or definition - " + detail)


def colours(prog, chk):
    vals = {}
    for name in ("COLOUR_LIST", "DARK_COLOURS"):
        h = None
        for hh in prog.hir.values():
            if hh["path"] == "svgdx::colours::" + name:
                h = hh
        if h is None or "body" not in h:
            chk.anchor_missing("A16.colours", f"static {name} not found")
            return
        vals[name] = [hirq.lit_str(n) for n in hirq.exprs(h["body"], "Lit") if hirq.lit_str(n)]
    cl, dk = vals["COLOUR_LIST"], vals["DARK_COLOURS"]
    chk.floor("A16.colours", len(cl), 100, "colour name")
    chk.ob(len(set(cl)) == len(cl), "A16.colours", "COLOUR_LIST:unique", "src/colours.rs", f"COLOUR_LIST has {len(cl)} distinct names (each colour class yields one rule)", f"duplicate colour names: {sorted({c for c in cl if cl.count(c) > 1})}")
    chk.ob(set(dk) <= set(cl) and len(set(dk)) == len(dk), "A16.colours", "DARK_COLOURS:subset", "src/colours.rs", f"DARK_COLOURS ({len(dk)}) is a duplicate-free subset of COLOUR_LIST", f"DARK_COLOURS not in COLOUR_LIST: {sorted(set(dk) - set(cl))}")


def builders_unconditional(prog, chk):
    """the per-family style builders (colours, stroke widths, arrows, dashes, patterns ...) decide for themselves, class
    by class, what to emit: Theme::build calls each of them unconditionally.  The one reviewed exception is the text
    family, whose rules all select `text` elements."""
    from sa import discharge as D

    GATED_OK = {"append_text_styles": "every rule of the text family selects `text` / `tspan` elements, so it is skipped when the output has no text element"}
    n = 0
    for b in prog.bodies.values():
        if b.unit != "svgdx-lib" or not (b.path.startswith("svgdx::themes::") and b.path.split("::")[-1] == "build"):
            continue
        chk.touch(b)
        for (bb, t, c) in b.call_sites(lambda c: c.path.startswith("svgdx::themes::append_")):
            n += 1
            name = c.path.split("::")[-1]
            # unconditional = on every path from entry to a return
            rets = [x for x in b.reachable if b.term(x)["k"] == "ret"]
            conds = [x for x in rets if x in b.reach([0], avoid={bb})] if bb != 0 else []
            if name in GATED_OK:
                chk.ok("A16.builders-unconditional", f"build:{name}", b.where(bb, t.get("line")), "reviewed: " + GATED_OK[name], by="table")
                continue
            chk.ob(not conds, "A16.builders-unconditional", f"build:{name}", b.where(bb, t.get("line")), f"{name}() is always called; it emits per class", f"{name}() is not called on every path through Theme::build: a reserved class of that family used on an element the condition does not anticipate (e.g. d-arrow on a <path>) gets no rule and no definition")
    chk.floor("A16.builders-unconditional", n, 6, "append_*_styles call in Theme::build")


def root_outside_collection(prog, chk):
    """the classes that get rules are collected from the events *after* the root start tag; the root tag itself is
    written by write_root_svg from attributes only, so it must not carry classes (a reserved class there would be in
    the output without its rule)"""
    b = prog.maybe_body("svgdx::transform::Transformer::write_root_svg")
    if b is None:
        chk.anchor_missing("A16.root-no-classes", "Transformer::write_root_svg not found")
        return
    chk.touch(b)
    news = b.call_sites(R.path_is("svgdx::element::SvgElement::new"))
    chk.floor("A16.root-no-classes", len(news), 1, "SvgElement::new in write_root_svg")
    adders = b.call_sites(lambda c: c.path.startswith("svgdx::element::SvgElement::") and c.path.split("::")[-1] in ("add_class", "add_classes", "with_attrs_from") or c.path.startswith("svgdx::types::ClassList::") and c.path.split("::")[-1] in ("insert", "extend", "replace"))
    writes = [x for x, i, st in b.all_stmts() if st.get("lhs") and ".classes" in [str(z) for z in P(st["lhs"])[1]]]
    chk.ob(not adders and not writes, "A16.root-no-classes", "write_root_svg", b.where(), "the root start tag is written without classes", f"write_root_svg gives the root element classes ({', '.join(b.where(bb, t.get('line')) for bb, t, c in adders) or 'direct write'}): the auto-style collection only sees the events after the root, so a reserved d-... class on the root <svg> is emitted without its rule / definition")


def hooks_add_nothing_by_default(prog, chk):
    """rules that every theme needs live in Theme::build itself: the overridable hooks (append_early_styles,
    append_late_styles) do nothing by default, so a theme that overrides one cannot lose a rule the others emit"""
    n = 0
    for b in prog.bodies.values():
        if b.unit != "svgdx-lib" or not b.path.startswith("svgdx::themes::Theme::append_"):
            continue
        n += 1
        chk.touch(b)
        calls = [c.path.split("::")[-1] for (bb, t, c) in b.call_sites(lambda c: True)]
        chk.ob(not calls, "A16.default-hooks-empty", b.short.split("::")[-1], b.where(), f"the default {b.short.split('::')[-1]}() emits nothing", f"the default body of the overridable hook {b.short.split('::')[-1]}() now emits styles ({sorted(set(calls))}): themes that override the hook (fine, bold, glass ...) no longer emit them, so a class that is used gets no rule under those themes")
    chk.floor("A16.default-hooks-empty", n, 2, "overridable style hook of the Theme trait")


def class_loops_run_to_the_end(prog, chk):
    """every collected class of a family is examined: in the style builders, a loop over classes ends only when its
    iterator is exhausted (no `break` / early `return` on a class that does not qualify - the next one might)"""
    from props import C01_loops

    n = 0
    for b in sorted(prog.bodies.values(), key=lambda x: x.path):
        if b.unit != "svgdx-lib" or not b.path.startswith("svgdx::themes::append_") or "{closure" in b.path:
            continue
        for h, blocks in sorted(b.loops.items()):
            if not C01_loops.iterator_driven(b, h, blocks):
                continue
            n += 1
            exits = sorted({x for x in blocks for y in b.succ[x] if y not in blocks and b.term(x)["k"] != "call" or (b.term(x)["k"] == "call" and b.term(x).get("t") is not None and b.term(x)["t"] not in blocks and x in blocks)})
            # the legitimate exit: the switch on the iterator's next() result (or the header itself)
            legit = set()
            for x in blocks:
                t = b.term(x)
                if t["k"] == "switch":
                    o = R.origin(b, t["op"], carriers={})
                    if o[0] == "rv" and o[1].get("k") == "discr":
                        src = R.origin(b, {"c": [o[1]["place"][0], list(o[1]["place"][1])]}, carriers={})
                        if src[0] == "call" and "fn" in src[2] and Callee(src[2]["fn"]).decl_path == "std::iter::Iterator::next":
                            legit.add(x)
            other = [x for x in exits if x not in legit and any(y not in blocks and y in b.reachable and b.term(y)["k"] not in ("resume", "abort", "unreachable") for y in b.succ[x])]
            # drop exits that only lead to unwinding / drops of the iterator after the legit exit
            other = [x for x in other if not all(_only_cleanup(b, y) for y in b.succ[x] if y not in blocks)]
            chk.ob(not other, "A16.class-loop-complete", f"{b.short}#loop{sorted(b.loops).index(h)}", b.where(h), "the loop over the collected classes ends only when all of them have been examined", f"{b.short}: a loop over collected classes can stop early ({', '.join(b.where(x) for x in other)}): the classes after the one that made it stop get no rule / definition although they are used")
    chk.floor("A16.class-loop-complete", n, 3, "loop over classes in a style builder")


def _only_cleanup(b, y, depth=6):
    """block chain that only drops / resumes (unwind path)"""
    seen = set()
    while depth > 0 and y not in seen:
        seen.add(y)
        depth -= 1
        t = b.term(y)
        if t["k"] in ("resume", "abort", "unreachable"):
            return True
        if t["k"] == "drop" and not b.stmts(y):
            y = t["t"]
            continue
        return False
    return False


def plain_guards(prog, chk):
    """a class-gated rule is gated by its class alone: no `if` condition mentions has_class() together with anything
    else (an extra conjunct suppresses a rule whose class is used; a disjunct emits one whose class is not)"""
    n_plain = 0
    for body in sorted(prog.bodies.values(), key=lambda b: b.path):
        if "svgdx::themes::" not in body.path:
            continue
        h = prog.hir.get(body.id)
        if not h or "body" not in h:
            continue
        # `let used = tb.has_class(..); if used {..}` is the same bare test
        bound = set()
        for node in hirq.walk(h["body"]):
            if node.get("k") == "Let" and isinstance(node.get("init"), dict) and node["init"].get("k") == "MethodCall" and node["init"]["name"] == "has_class" and isinstance(node.get("pat"), dict) and node["pat"].get("p") == "bind":
                bound.add(node["pat"]["name"])
        mixed = {}
        for node in hirq.walk(h["body"]):
            if node.get("k") == "Let" and isinstance(node.get("init"), dict) and isinstance(node.get("pat"), dict) and node["pat"].get("p") == "bind" and node["pat"]["name"] not in bound:
                hc = [m for m in hirq.exprs(node["init"], "MethodCall") if m["name"] == "has_class"]
                if hc:
                    mixed[node["pat"]["name"]] = hc[0]
        for iff in hirq.exprs(h["body"], "If"):
            c = iff["cond"]
            if c.get("k") == "Path" and (c.get("res") or {}).get("local") in bound:
                n_plain += 1
                continue
            for pth in hirq.exprs(c, "Path"):
                nm = (pth.get("res") or {}).get("local")
                if nm in mixed and [n for n in hirq.exprs(iff["then"], "MethodCall") if n["name"] in ("add_style", "add_defs")]:
                    key = hirq.render_string_expr(mixed[nm]["args"][0]) if mixed[nm]["args"] else "?"
                    chk.bad("A16.plain-guard", f"{body.short}:{key}", body.where(line=c.get("line")), f"{body.short}: the rule/definition for class `{key}` is emitted under a condition that combines has_class({key}) with something else (through the local `{nm}`): it no longer appears exactly when the class is used")
            uses = [m for m in hirq.exprs(c, "MethodCall") if m["name"] == "has_class"]
            if not uses:
                continue
            if c.get("k") == "MethodCall" and c["name"] == "has_class":
                n_plain += 1
                continue
            key = hirq.render_string_expr(uses[0]["args"][0]) if uses[0]["args"] else "?"
            emits = [n for n in hirq.exprs(iff["then"], "MethodCall") if n["name"] in ("add_style", "add_defs")]
            if emits:
                chk.bad("A16.plain-guard", f"{body.short}:{key}", body.where(line=c.get("line")), f"{body.short}: the rule/definition for class `{key}` is emitted under has_class({key}) combined with another condition: it no longer appears exactly when the class is used")
    chk.floor("A16.plain-guard", n_plain, 18, "`if has_class(..)` guard")
    chk.ok("A16.plain-guard", "scan", "src/themes.rs", f"{n_plain} class guards, each of them the bare has_class() test")


def unfiltered_output(prog, chk):
    """write_auto_styles writes exactly what the theme builder produced: the results of get_defs() / get_styles() are
    bound directly (no filter / dedup / truncation in between), so rules and the definitions they reference stay paired"""
    b = prog.body("svgdx::transform::Transformer::write_auto_styles")
    chk.touch(b)
    h = prog.hir[b.id]
    direct = set()
    for st in hirq.walk(h["body"]):
        if isinstance(st, dict) and st.get("k") == "Let" and isinstance(st.get("init"), dict) and st["init"].get("k") == "MethodCall" and st["init"]["name"] in ("get_defs", "get_styles"):
            direct.add(id(st["init"]))
    for name in ("get_defs", "get_styles"):
        calls = [m for m in hirq.exprs(h["body"], "MethodCall") if m["name"] == name]
        ok = len(calls) == 1 and id(calls[0]) in direct
        if not calls:
            chk.undecided("A10.unfiltered-output", f"write_auto_styles:{name}", b.where(), f"write_auto_styles does not call {name}(): how it obtains the generated text is not read here")
            continue
        chk.ob(ok, "A10.unfiltered-output", f"write_auto_styles:{name}", b.where(line=calls[0].get("line") if calls else None), f"the result of {name}() is written as produced by the theme builder", f"the result of {name}() is post-processed (filtered / mapped) before it is written, or read more than once: an emitted rule can lose the definition it references (or vice versa)")


def evaluated_classes_are_split(prog, chk):
    """a class entry that evaluates to several classes (`class="$style"`) is entered as separate classes: ClassList::replace
    splits the new value on white space and inserts each word - the class set that selects the auto-styles is per class"""
    b = prog.body("svgdx::types::ClassList::replace")
    chk.touch(b)
    splits = [bb for (bb, t, c) in b.call_sites(lambda c: c.path.split("::")[-1] in ("split_whitespace", "split_ascii_whitespace"))]
    ins = [bb for (bb, t, c) in b.call_sites(lambda c: c.path.endswith("ClassList::insert"))]
    in_loop = any(any(x in blocks for blocks in b.loops.values()) for x in ins)
    chk.ob(bool(splits) and in_loop, "A16.class-split", "ClassList::replace", b.where(), "the evaluated value is split on white space and each class inserted", "ClassList::replace stores the evaluated value as one entry: `class=\"$style\"` with several classes in $style yields one compound `class`, none of whose classes gets its rule or definition")
