"""C02 Successful output is always well-formed XML with a proper SVG root (escaping discipline)."""
import re

from sa import rules as R
from sa.prog import P, Callee, op_place, op_const, const_str
from props import xmlsink as X

EXPLANATION = (
    "Sink discipline over the resolved program: every construction of a quick-xml event/attribute is classified by its "
    "resolved constructor (escaping vs raw); a raw attribute sink must be fed by a function that unconditionally replaces "
    "& (first), < and \" ; the raw CDATA sink must be fed by the `]]>` splitter; the raw text conversion must be unreachable "
    "for Text events in write_to, which writes text through the escaping constructor; reader and writer agree on the escape "
    "level of every channel (text, attribute, CDATA, comment). No attribute is written twice: `class` is kept out of the "
    "attribute map (literal-key scan + reviewed dynamic-key sites) and AttrMap::insert appends only when the key is absent. "
    "Root synthesis: on every path to the root start tag, xmlns/version are inserted unless the author's root has that very "
    "key; an empty-element root gets its end tag. Undecided: that quick-xml's writer emits well-formed bytes for the events "
    "it is given (trusted) and the value-level correctness of escaping for every string."
)
TRUSTED = ["quick-xml Writer emits the events it is given verbatim; BytesText::new / Attribute::from<(&str,&str)> escape, the other constructors do not (as documented)"]
ASSUMPTIONS = ["element and attribute names are those the XML reader accepted"]

EL = "svgdx::element::SvgElement"
AM = "svgdx::types::AttrMap"

# functions that write a *computed* key into an attribute map: reason why the key cannot be `class`
DYNAMIC_KEY_OK = {
    "svgdx::element::SvgElement::new": "splits `class` out into the ClassList before filling the attribute map (the only constructor from raw attributes)",
}


def run(prog, chk):
    chk.rule(X.check_sinks, prog, chk)
    chk.rule(X.text_bypass, prog, chk)
    chk.rule(X.check_readers, prog, chk)
    chk.rule(no_duplicate_attrs, prog, chk)
    chk.rule(root_synthesis, prog, chk)
    from props import geomalg
    chk.rule(geomalg.check_sites, prog, chk, "C02")  # what the root start tag gets, per presence case (A17 site root-extent)
    chk.rule(eof_open_elements, prog, chk)
    chk.rule(other_is_whole_input_event, prog, chk)
    from props import C03
    chk.rule(C03.top_level_predicate, prog, chk)
    chk.rule(C03.qualified_names, prog, chk)  # start and end tag carry the same (qualified) name
    chk.rule(C03.attrmap_keys_verbatim, prog, chk)  # an attribute stored under another name can collide with an existing one (duplicate attribute)
    chk.rule(no_double_hyphen_literals, prog, chk)
    from props import strops
    chk.rule(strops.check_evaluation_sites, prog, chk)  # what is written raw (comments) is not the product of an evaluation
    chk.rule(attribute_lists_validated, prog, chk)
    from props import C04, C07
    chk.rule(C04.filter_closed, prog, chk)  # an attribute copied to the output *and* added again (data-src-line, class) is a duplicate attribute
    if "cli" in prog.features:
        C07.output_file(prog, chk)  # the output file holds the result and nothing else (no tail of an earlier, longer file after the root's end tag)
    from props import C01
    chk.rule(C01.utf8_boundary, prog, chk)  # output is UTF-8 because every input event was validated (pass-through carries bytes along)
    from props import C03 as _C03, C17 as _C17
    chk.rule(_C03.bypass, prog, chk)  # on the pass-through edge nothing of the transformer's own is written (a header in front of the XML declaration is not well-formed)
    chk.rule(_C17.depth_pairing, prog, chk)  # the top-level test that decides pass-through rests on the depth count: every dispatch counts


def attribute_lists_validated(prog, chk):
    """a start tag that is passed through as-is (real SVG) is copied byte for byte, so its attribute list has to be
    well-formed already when it is read: InputList::from_reader walks `attributes()` of every start / empty tag and
    returns an error for the first malformed attribute (duplicate name, unquoted value)"""
    fr = prog.body("svgdx::events::InputList::from_reader")
    chk.touch(fr)
    is_scan = lambda c: c.path.endswith("BytesStart::<'a>::attributes") or c.path.endswith("BytesStart::attributes") or (c.path.split("::")[-1] == "attributes" and "BytesStart" in c.inst)  # noqa: E731
    sites = fr.call_sites(is_scan)
    if not sites:
        # the scan may live in a helper that from_reader calls with the tag (one level)
        def helper(c):
            hb = prog.maybe_body(c.path)
            return hb is not None and hb.unit == "svgdx-lib" and "BytesStart" in (hb.local_ty(1) or "") and bool(hb.call_sites(is_scan)) and "Result" in (hb.local_ty(0) or "")

        sites = fr.call_sites(helper)
    ok = False
    for (bb, t, c) in sites:
        # an error return is reachable after the scan and before the event is stored
        region = fr.reach([t["t"]])
        if R.assigns_result_variant(fr, region, "Err"):
            ok = True
    # ... and it covers both kinds of tag that carry attributes: the tag whose attributes() are walked is bound from the
    # Start as well as from the Empty variant of the event
    kinds = set()
    for (bb, t, c) in sites:
        work, seen = [op_place(t["args"][0])], set()
        while work:
            pl = work.pop()
            if pl is None or pl[0] in seen:
                continue
            seen.add(pl[0])
            for d in fr.defs_of(pl[0]):
                node = d[2]
                src = None
                if d[1] != R.TERM and node.get("k") == "ref":
                    src = P(node["place"])
                elif d[1] != R.TERM and node.get("k") in ("use", "cast") and op_place(node.get("op")) is not None:
                    src = op_place(node["op"])
                elif d[1] == R.TERM and node.get("args"):
                    src = op_place(node["args"][0])
                if src is None:
                    continue
                for z in src[1]:
                    if str(z).startswith("as ") and str(z)[3:] in ("Start", "Empty", "End", "Text"):
                        kinds.add(str(z)[3:])
                work.append(src)
    chk.ob({"Start", "Empty"} <= kinds if sites else False, "A13.attr-lists-validated", "from_reader:both-kinds", fr.where(sites[0][0], sites[0][1].get("line")) if sites else fr.where(), "start tags and empty-element tags are both scanned", f"the attribute scan covers only {sorted(kinds)} events: a malformed attribute list on the other kind of tag (e.g. <rect x=\"1\" x=\"2\"/>) is still copied to the output of a passed-through document")
    chk.ob(ok, "A13.attr-lists-validated", "from_reader", fr.where(sites[0][0], sites[0][1].get("line")) if sites else fr.where(), "the attribute list of every start / empty tag is scanned for syntax errors when the document is read", "InputList::from_reader does not scan the attribute lists of the tags it reads: a real SVG document whose start tag has a duplicate attribute or an unquoted value is accepted and copied to the output as it is - output that no XML parser accepts (svgdx-mode documents fail later, when the element is built)")


def no_double_hyphen_literals(prog, chk):
    """comments are correctly delimited: generated comment text is assembled from library string literals and format
    templates, none of which may contain `--` (illegal inside an XML comment).  Text that comes from the *document*
    (the `_` attributes, echoed source) is the known finding F13; this rule keeps the library's own words clean."""
    from sa import hirq

    n = 0
    bad = []
    badc = []
    for b, h in prog.hir_items():
        if b is None or b.unit != "svgdx-lib" or not isinstance(h, dict) or b.path.startswith("svgdx::cli::") or b.path.startswith("svgdx::server::"):
            continue
        for node in hirq.walk(h.get("body")):
            if node.get("k") != "Lit" or not isinstance(node.get("lit"), dict):
                continue
            texts = []
            if isinstance(node["lit"].get("str"), str):
                texts.append(node["lit"]["str"])
            if "bytes" in node["lit"]:
                try:
                    texts += [v for kind, v in hirq.decode_template(node["lit"]["bytes"]) if kind == "lit"]
                except Exception:  # noqa: BLE001 - a byte string that is not a format template
                    pass
            if isinstance(node["lit"].get("char"), (str, int)):
                ch = node["lit"]["char"]
                texts.append(ch if isinstance(ch, str) else chr(ch))
            for t in texts:
                n += 1
                if "--" in t:
                    bad.append((b, node.get("line"), t))
                ctrl = [c for c in t if (ord(c) < 0x20 and c not in "\t\n\r") or ord(c) in (0xFFFE, 0xFFFF)]
                if ctrl:
                    badc.append((b, node.get("line"), t))
    chk.floor("A14.comment-vocabulary", n, 800, "string literal / format template piece in the library")
    for (b, line, t) in bad:
        chk.bad("A14.comment-vocabulary", f"{b.short}:{t[:24]}", b.where(0, line), f"{b.short} contains the literal {t!r}: `--` may not occur inside an XML comment, and the library builds its generated comments (version / config header, debug echo) from its own literals and format templates - an output with such a comment is rejected by an XML parser")
    if not bad:
        chk.ok("A14.comment-vocabulary", "scan", "-", f"{n} literals and template pieces scanned, none contains `--`")
    for (b, line, t) in badc:
        chk.bad("A14.xml-chars", f"{b.short}:{t.encode('unicode_escape').decode()[:16]}", b.where(0, line), f"{b.short} contains the literal {t!r}: a control character other than tab, newline and carriage return is not a legal XML character - if the library can put it into text or an attribute value the output is rejected by every XML parser (escaping does not help: there is no legal reference to it either)")
    if not badc:
        chk.ok("A14.xml-chars", "scan", "-", f"{n} literals scanned, none is / contains a control character that XML forbids")


def no_duplicate_attrs(prog, chk):
    # (1) literal key `class` never written into an attribute map
    writers = ("set_attr", "set_default_attr", "insert", "insert_first")
    n = 0
    for body in prog.bodies.values():
        for (bb, t, c) in body.call_sites(lambda c: (c.path.startswith(EL + "::") or c.path.startswith(AM + "::")) and c.path.split("::")[-1] in writers):
            n += 1
            if len(t["args"]) < 2:
                continue
            o = R.origin(body, t["args"][1], carriers=dict(R.CARRIERS))
            if o[0] == "const" and o[1].get("str") == "class":
                chk.bad("A14.class-unique", f"{body.short}:{c.path.split('::')[-1]}", body.where(bb, t.get("line")), "literal key `class` is written into the attribute map: into_bytesstart also emits the class list, so the element would carry `class` twice")
    chk.floor("A14.class-unique", n, 40, "attribute write call site")
    chk.ok("A14.class-unique", "literal-keys", "-", f"{n} attribute-map write sites scanned: none writes the literal key `class`")
    # (2) SvgElement::new separates class from the other attributes
    new = prog.body(EL + "::new")
    chk.touch(new)
    cmp_class = [1 for (bb, t, c) in new.call_sites(lambda c: c.decl_path == "std::cmp::PartialEq::eq") if any((R.origin(new, a, carriers={})[0] == "const" and R.origin(new, a, carriers={})[1].get("str") == "class") for a in t["args"])]
    chk.ob(bool(cmp_class), "A14.class-unique", "SvgElement::new:split", new.where(), "SvgElement::new compares each attribute name with `class` and routes it to the class list", "SvgElement::new no longer separates the class attribute")
    # (3) the writer emits `class` exactly once, from the class list
    ib = prog.body("svgdx::events::<impl svgdx::element::SvgElement>::into_bytesstart")
    pushes = ib.call_sites(lambda c: c.path.endswith("BytesStart::<'a>::push_attribute"))
    if len(pushes) != 2:
        chk.undecided("A14.class-unique", "into_bytesstart:pushes", ib.where(), f"{len(pushes)} push_attribute site(s) in into_bytesstart (reviewed: one for the attribute map, one for the class list): the two sources may share one loop")
    else:
      chk.ob(len(pushes) == 2, "A14.class-unique", "into_bytesstart:pushes", ib.where(), "into_bytesstart pushes attributes from exactly two sources: the attribute map and the class list", f"{len(pushes)} push_attribute sites in into_bytesstart")
    # (4) AttrMap::insert appends only when the key is absent
    ins = prog.body(AM + "::insert")
    chk.touch(ins)
    pushes = ins.call_sites(lambda c: c.path.endswith("Vec::<T, A>::push") or c.path.endswith("Vec::<T, A>::insert"))
    finds = ins.call_sites(lambda c: c.path.split("::")[-1] in ("find", "position", "contains_key", "any"))
    ok = False
    tested = 0
    for (fb, ft, fc) in finds:
        if not ft.get("dest") or ft["dest"][1]:
            continue
        sw = R.find_switch_on_discr(ins, ft["t"], ft["dest"][0])
        if not sw:
            sws = R.discr_switches_of(ins, ft["dest"][0])
            sw = sws[0] if len(sws) == 1 else None
        if sw:
            sb, st = sw
            m = {v: tgt for v, tgt in st["vals"]}
            some_t = m.get(1, st["otherwise"] if 0 in m else None)
            none_t = m.get(0, st["otherwise"] if 1 in m else None)
            if some_t is not None and none_t is not None and some_t != none_t:
                tested += 1
                # no element is added on the way from "found" (the search that guards the adds: one is enough)
                if pushes and not any(pb in ins.reach([some_t], avoid=[none_t]) for (pb, _pt, _pc) in pushes):
                    ok = True
    if not ok and (not pushes or not tested):
        chk.undecided("A13.attrmap-unique", "AttrMap::insert", ins.where(), f"AttrMap::insert: {len(pushes)} place(s) that add an entry, {tested} search result(s) tested in a form this rule reads: whether an entry is added only when the key is absent is not decided")
    else:
      chk.ob(ok, "A13.attrmap-unique", "AttrMap::insert", ins.where(), "AttrMap::insert updates an existing key in place and appends only when the key is absent (no duplicate keys)", "AttrMap::insert can append a key that is already present (duplicate attribute in the output)")
    w = R.field_writers(prog, "attrs", AM)
    allowed = {AM + "::insert", AM + "::pop", AM + "::reorder", AM + "::new"}
    extra = sorted(k for k in w if k not in allowed and "as std::convert::From" not in k and "FromIterator" not in k and "Default" not in k and "Clone" not in k and "{closure" not in k)
    chk.ob(not extra, "A10.attrmap-writers", "AttrMap.attrs", "src/types.rs", "the attribute vector is mutated only by insert/pop/reorder (and constructors)", f"AttrMap.attrs is also mutated by {extra}")


def root_synthesis(prog, chk):
    wr = prog.body("svgdx::transform::Transformer::write_root_svg")
    chk.touch(wr)
    roots = [(bb, t) for (bb, t, c) in wr.call_sites(R.path_is(EL + "::new")) if _const_arg(wr, t, 0) == "svg"]
    chk.floor("A13.root-attrs", len(roots), 1, "construction of the root <svg> element")
    if not roots:
        return
    root_bb = roots[0][0]
    for key, lit in (("xmlns", X.SVG_NS), ("version", None)):
        inserts = [(bb, t) for (bb, t, c) in wr.call_sites(lambda c: c.path.startswith(AM + "::insert")) if _const_arg(wr, t, 1) == key]
        tests = [(bb, t) for (bb, t, c) in wr.call_sites(lambda c: c.path.endswith("::contains_key")) if _const_arg(wr, t, 1) == key]
        where = wr.where(inserts[0][0], inserts[0][1].get("line")) if inserts else wr.where()
        ok = False
        detail = ""
        if inserts and tests:
            tb, tt = tests[0]
            st = wr.term(tt["t"])
            # the test result may be negated (`!contains_key`)
            bf = _bool_switch(wr, tt["t"], tt["dest"][0])
            if bf:
                has_t, hasnt_t, sb = bf
                # every path to the root avoiding the insert must take the `has key` edge
                r = wr.reach([0], avoid=[b for (b, _) in inserts], avoid_edges=[(sb, has_t)])
                ok = root_bb not in r
                detail = "" if ok else f"a path reaches the root start tag without inserting `{key}` and without the author's root having `{key}`"
            else:
                detail = "result of contains_key is not branched on"
            if lit is not None and inserts:
                v = _const_arg(wr, inserts[0][1], 2)
                if v != lit:
                    ok = False
                    detail = f"inserted namespace literal is {v!r}"
        else:
            # not written as `if !contains_key(K) { insert(K, ..) }` with literal keys (a table of defaults, a helper):
            # whether the root gets `{key}` is decided by the evaluated site root-extent (A17), cases `neither` and
            # `author-has-all`
            chk.ok("A13.root-attrs", f"write_root_svg:{key}", where, f"`{key}`: no literal insert / contains_key pair; decided by the A17 site root-extent")
            continue
        chk.ob(ok, "A13.root-attrs", f"write_root_svg:{key}", where, f"the root gets `{key}` unless the author's root already has exactly that attribute", f"the generated root can lack `{key}`: {detail}")
    # the namespace literal equals what the reader's real-SVG test compares with (sibling agreement)
    irs = prog.body("svgdx::transform::is_real_svg")
    lits = set()
    for (bb, t, c) in irs.call_sites(lambda c: c.decl_path == "std::cmp::PartialEq::eq"):
        for a in t["args"]:
            o = R.origin(irs, a, carriers={})
            if o[0] == "const" and "str" in o[1]:
                lits.add(o[1]["str"])
    lits = {x for x in lits if "/" in x or ":" in x}  # namespace names only (not the element name `svg`)
    if not lits:
        # compared with a named constant rather than a literal: look the constant up among the library's const items
        for it in prog.items:
            if it.get("item") == "const" and it.get("unit") == "svgdx-lib" and it.get("value") is not None and isinstance(it.get("value"), dict) and it["value"].get("str"):
                lits.add(it["value"]["str"])
    if not lits:
        chk.anchor_missing("A16.ns-literal", "is_real_svg: the namespace it compares xmlns with could not be read (no string literal in an == comparison)")
    else:
        chk.ob(X.SVG_NS in lits, "A16.ns-literal", "is_real_svg", irs.where(), "is_real_svg compares xmlns with the same namespace literal that write_root_svg inserts", f"is_real_svg compares with {sorted(lits)}")
    # presence vs value: an author root with a *foreign* xmlns keeps it (F18)
    chk.bad(
        "A16.xmlns-presence-vs-value",
        "write_root_svg:xmlns",
        wr.where(),
        "write_root_svg only tests the *presence* of xmlns on the author's root while is_real_svg tests its *value*: `<svg xmlns=\"urn:x\">` is processed as svgdx but keeps the foreign namespace, so the output root does not declare the SVG namespace",
    ) if _presence_only(wr) else chk.ok("A16.xmlns-presence-vs-value", "write_root_svg:xmlns", wr.where(), "the xmlns test compares the value")
    # bypass path (real SVG): the root is written verbatim, version is not ensured
    pp = prog.body("svgdx::transform::Transformer::postprocess")
    chk.touch(pp)
    gate = None
    for (bb, idx, node) in R.place_reads(pp, (".real_svg",)):
        if idx != R.TERM and "lhs" in node and not node["lhs"][1]:
            for (b, i, n, how, _c) in R.forward_value_uses(pp, node["lhs"][0]):
                if i == R.TERM and n["k"] == "switch":
                    gate = (b, n)
        elif idx == R.TERM and node["k"] == "switch":
            gate = (bb, node)
    if gate:
        chk.bad(
            "A13.root-attrs",
            "postprocess:real-svg-bypass",
            pp.where(gate[0]),
            "a real-SVG document (namespaced root) bypasses root synthesis, so a root without `version` is emitted without one; C03 requires exactly this verbatim pass-through, so the two properties conflict for this input class",
        )
    # an empty-element root is closed
    close = [1 for b, i, s in pp.all_stmts() if s.get("rv", {}).get("k") == "aggr" and s["rv"].get("adt") == "svgdx::events::OutputEvent" and s["rv"].get("variant") == "End"]
    empties = any(R.switch_discr_place(pp, b) is not None and "OutputEvent" in R.switch_discr_place(pp, b)[1] for b in pp.reachable)
    chk.ob(bool(close) and empties, "A13.root-closed", "postprocess:empty-root", pp.where(), "an empty-element root `<svg/>` (written as a start tag) gets its end tag", "an empty-element root is written as a start tag that is never closed (unclosed document)")
    # ... on every successful path: after the root start tag has been written, no path reaches a normal return
    # without passing the test that decides whether the end tag must be added
    end_blocks = {b for b, i, s in pp.all_stmts() if s.get("rv", {}).get("k") == "aggr" and s["rv"].get("adt") == "svgdx::events::OutputEvent" and s["rv"].get("variant") == "End"}
    tests = set()
    for b in pp.reachable:
        t = pp.term(b)
        if t["k"] == "switch" and op_place(t["op"]) is not None:
            tt, ft = R.switch_targets_bool(t)
            # the deciding test: its true edge dominates the End construction, its false edge cannot reach it
            if tt is not None and ft is not None and end_blocks and all(pp.dominates(tt, e) for e in end_blocks) and not (pp.reach([ft], avoid={tt}) & end_blocks) and (_flag_like(pp, op_place(t["op"])[0]) or R.flag_test(pp, b) is not None):
                tests.add(b)
    roots = [t["t"] for (bb, t, c) in pp.call_sites(R.path_endswith("Transformer::write_root_svg"))]
    err_exits = {bb for (bb, t, c) in pp.call_sites(lambda c: c.decl_path.endswith("FromResidual::from_residual"))}
    rets = set(pp.return_blocks)
    leak = bool(tests) and bool(roots) and bool(pp.reach(roots, avoid=tests | err_exits) & rets)
    if not tests and end_blocks and roots:
        from sa import discharge as D

        if all(any(pp.term(a_)["k"] == "switch" for (a_, _x) in D.dominating_edges(pp, e)) for e in end_blocks):
            # the end tag is added under some test, but not one the rule can read as a constant flag (an Option or enum
            # handed back by a helper, a re-computed predicate): no verdict on "every path passes it"
            chk.undecided("A13.root-closed", "postprocess:every-path", pp.where(), "the test under which the root's end tag is added is not recognisable as a flag set where the root was written")
            roots = []
    if roots or not end_blocks:
        chk.ob(bool(tests) and bool(roots) and not leak, "A13.root-closed", "postprocess:every-path", pp.where(), "after the root start tag is written every successful path passes the test that adds the end tag of an empty-element root", "postprocess can return successfully after writing the root start tag without passing the `root was <svg/>` test: an empty-element root stays unclosed on that path (e.g. an early return when nothing is injected)")
    wr_pat = [1 for b in wr.reachable if R.switch_discr_place(wr, b) is not None and "OutputEvent" in R.switch_discr_place(wr, b)[1] and len(wr.term(b)["vals"]) >= 2]
    chk.ob(bool(wr_pat), "A13.root-closed", "write_root_svg:empty-root-attrs", wr.where(), "write_root_svg takes the author's root attributes from Start as well as Empty roots", "attributes of an empty-element root are dropped")


def _flag_like(body, local, depth=6):
    """a bool local all of whose definitions are constants (possibly through a copy of another such local): a flag
    recording which way an earlier match went, as opposed to a configuration value"""
    defs = body.defs_of(local)
    if not defs or depth == 0:
        return False
    for d in defs:
        if d[1] == R.TERM:
            return False
        rv = d[2]
        if rv["k"] != "use":
            return False
        k = op_const(rv["op"])
        if k is not None:
            if "bool" not in k:
                return False
            continue
        pl = op_place(rv["op"])
        if pl is not None and len(pl[1]) == 1 and re.fullmatch(r"\.\d+", str(pl[1][0])):
            # component of a tuple of flags: `let (found, close) = match .. { .. => (true, is_empty), _ => (false, false) }`
            n = int(str(pl[1][0])[1:])
            tdefs = body.defs_of(pl[0])
            if not tdefs:
                return False
            for td in tdefs:
                if td[1] == R.TERM or td[2]["k"] != "aggr" or td[2].get("ak") != "tuple" or n >= len(td[2]["ops"]):
                    return False
                o = td[2]["ops"][n]
                k2 = op_const(o)
                if k2 is not None:
                    if "bool" not in k2:
                        return False
                    continue
                p2 = op_place(o)
                if p2 is None or p2[1] or not _flag_like(body, p2[0], depth - 1):
                    return False
            continue
        if pl is None or pl[1] or not _flag_like(body, pl[0], depth - 1):
            return False
    return True


def _presence_only(wr):
    tests = [(bb, t) for (bb, t, c) in wr.call_sites(lambda c: c.path.endswith("::contains_key")) if _const_arg(wr, t, 1) == "xmlns"]
    return bool(tests)


def _bool_switch(body, start_bb, res_local):
    """follow the bool result (possibly through `!`) to its switch: (target_if_result_true, target_if_false, switch_bb)"""
    neg = False
    cur = res_local
    for _ in range(4):
        for (b, i, n, how) in R.uses_of(body, cur):
            if i == R.TERM and n["k"] == "switch":
                tt, ft = R.switch_targets_bool(n)
                return (ft, tt, b) if neg else (tt, ft, b)
            if i != R.TERM and n.get("rv", {}).get("k") == "unop" and n["rv"]["op"] == "Not":
                neg = not neg
                cur = n["lhs"][0]
                break
            if i != R.TERM and n.get("rv", {}).get("k") == "use" and not n["lhs"][1]:
                cur = n["lhs"][0]
                break
        else:
            return None
    return None


def _const_arg(body, t, i):
    if len(t["args"]) <= i:
        return None
    o = R.origin(body, t["args"][i], carriers=dict(R.CARRIERS))
    if o[0] == "const":
        return o[1].get("str")
    return None


def eof_open_elements(prog, chk):
    fr = prog.body("svgdx::events::InputList::from_reader")
    # is the open-element stack tested before Ok is returned?
    stack = None
    for i, l in enumerate(fr.locals):
        if l.get("name") == "event_idx_stack":
            stack = i
    tested = False
    if stack is not None:
        for (bb, t, c) in fr.call_sites(lambda c: c.path.split("::")[-1] in ("is_empty", "last", "len", "first")):
            if R.origin_local(fr, t["args"][0]) == stack and not fr.loops or (R.origin_local(fr, t["args"][0]) == stack and all(bb not in bl for bl in fr.loops.values())):
                tested = True
    chk.ob(
        tested,
        "A13.eof-open-elements",
        "from_reader",
        fr.where(),
        "from_reader rejects input that ends while elements are still open",
        "input that ends inside open elements (`<svg><g><rect/>`) is accepted: quick-xml reports mismatched end tags but not tags still open at EOF, and the output then lacks the end tags too (ill-formed). The repository's own tests rely on this leniency (clippath tests use unclosed `<rect ...>`), so it cannot be repaired without editing them",
    )


def other_is_whole_input_event(prog, chk):
    """OutputEvent::Other (written to the output as it is, with no escaping) only ever carries the input event it was
    read as - never an event re-built from (possibly unescaped or unvalidated) parts"""
    b = prog.body("<svgdx::events::OutputEvent as std::convert::From<svgdx::events::InputEvent>>::from")
    chk.touch(b)
    n = 0
    for x, i, st in b.all_stmts():
        rv = st.get("rv")
        if rv and rv.get("k") == "aggr" and rv.get("adt") == "svgdx::events::OutputEvent" and rv.get("variant") == "Other":
            n += 1
            o = R.origin(b, rv["ops"][0], carriers={})
            ok = o[0] == "field" and o[1][1] and o[1][1][-1] == ".event"
            chk.ob(ok, "A11.other-passthrough", f"From<InputEvent>:Other#{n}", b.where(x, st.get("line")), "Other carries the input's own event (moved out of `value.event`)", "an OutputEvent::Other is built from a re-constructed event: character data can reach the writer without the escape that Text/CData/Comment events get (ill-formed or altered output)")
    chk.floor("A11.other-passthrough", n, 3, "OutputEvent::Other construction in From<InputEvent>")
    # ... and that conversion is the only place that makes one: an element tag that takes the `Other` route somewhere
    # else bypasses what every Start / Empty event gets downstream (escaping on output, the class scan of the style
    # pass, the canonical re-serialisation that makes a second run a no-op)
    elsewhere = []
    for fb in prog.bodies.values():
        if fb.unit != "svgdx-lib" or fb.path == b.path or fb.path.endswith("as std::clone::Clone>::clone"):
            continue
        for x, i, st in fb.all_stmts():
            rv = st.get("rv")
            if rv and rv.get("k") == "aggr" and rv.get("adt") == "svgdx::events::OutputEvent" and rv.get("variant") == "Other":
                elsewhere.append(fb.where(x, st.get("line")))
    chk.ob(not elsewhere, "A11.other-passthrough", "only-in-From<InputEvent>", b.where(), "OutputEvent::Other is made only by the InputEvent -> OutputEvent conversion (for events that are not element tags, and tags that cannot be read)", f"OutputEvent::Other is also constructed at {elsewhere}: element tags wrapped there reach the output without passing through SvgElement - not escaped / re-serialised like every other tag, invisible to the style pass")
