"""C06 Determinism: same input and configuration give the same bytes, every time."""
import json
import os

from sa import rules as R
from sa.prog import P, Callee, op_place, op_const

EXPLANATION = (
    "Determinism is kept by the absence of order- and environment-dependent constructs, all visible in the resolved "
    "program: (1) every call that yields an iterator (or a Debug rendering) over a HashMap/HashSet is followed through "
    "its adapter chain to its consumer, which must be order-insensitive (any/all/count/min/max/contains, collect into a "
    "hash/BTree container, a loop that only inserts into such a container, a full-element sort) or carry a reviewed table "
    "line; (2) deny-listed nondeterminism sources (clock, env, pid, thread id, RandomState, unseeded RNG, read_dir, "
    "pointer formatting) occur only under config.use_local_styles, and local_style_id is reset whenever the "
    "configuration turns local styles off; (3) the only RNG is Pcg32 built by seed_from_u64, reseeded only by "
    "set_config, consumed only by the random()/randint() arms; (4) output is ordered by a BTreeMap<OrderIndex,_>; "
    "(5) no Debug rendering of a hash container reaches an error message or the output. Nothing is executed."
)
TRUSTED = ["std: HashMap/HashSet iteration order is unspecified; BTreeMap iteration is key-ordered; slice::sort is a total, stable sort by Ord"]
ASSUMPTIONS = ["floating-point determinism across platforms is outside the statement"]

CTX = "svgdx::context::TransformerContext"
HASH = ("std::collections::HashMap<", "std::collections::HashSet<", "std::collections::hash_map::", "std::collections::hash_set::")
ITER_PRODUCERS = {"iter", "iter_mut", "keys", "values", "values_mut", "into_iter", "drain", "into_keys", "into_values", "difference", "union", "intersection", "symmetric_difference"}
INSENSITIVE_TERMINALS = {"any", "all", "count", "min", "max", "contains", "is_empty", "len", "is_subset", "is_superset", "is_disjoint"}
ORDERED_SINKS = ("std::collections::HashMap<", "std::collections::HashSet<", "std::collections::BTreeMap<", "std::collections::BTreeSet<")
ADAPTERS = {"map", "filter", "filter_map", "cloned", "copied", "enumerate", "rev", "chain", "zip", "flat_map", "flatten", "skip", "take", "peekable", "inspect", "by_ref", "into_iter", "map_while", "take_while", "skip_while", "step_by", "fuse", "scan"}
SORTED = {"sorted", "sorted_unstable"}
SORTED_BY = {"sorted_by", "sorted_by_key", "sorted_unstable_by", "sorted_unstable_by_key", "sorted_by_cached_key"}
LOOP_PURE = {
    "insert", "clone", "deref", "deref_mut", "next", "into_iter", "borrow", "as_ref", "as_str", "eq", "ne", "to_string", "to_owned", "hash", "contains_key", "get",
    "drop", "from", "into", "as_mut", "index", "index_mut", "partial_cmp", "cmp", "branch", "from_residual",
}

TABLE = os.path.join(os.path.dirname(os.path.dirname(os.path.abspath(__file__))), "tables", "hash_iteration.json")

DENY = [
    "std::time::SystemTime::now", "std::time::Instant::now", "std::env::var", "std::env::vars", "std::env::var_os", "std::env::vars_os",
    "std::process::id", "std::thread::current", "std::hash::RandomState::new", "std::collections::hash_map::RandomState::new",
    "rand::rng", "rand::random", "rand::thread_rng", "rand::rngs::ThreadRng", "getrandom::", "std::fs::read_dir", "<*const T as std::fmt::Pointer>::fmt",
    "std::env::args", "std::env::current_dir", "std::env::temp_dir", "rand::rngs::OsRng", "rand::SeedableRng::from_os_rng", "rand::SeedableRng::from_entropy",
    "rand::SeedableRng::try_from_os_rng", "rand::SeedableRng::from_rng", "std::time::SystemTime::elapsed", "std::time::Instant::elapsed",
    # how much of the input a single read delivers depends on the pipe / scheduler, not on the input: a decision taken on
    # "what has arrived so far" differs between runs on the same bytes (the XML reader consumes these itself, inside quick-xml)
]
DENY_EXACT = ["std::io::BufRead::fill_buf", "std::io::Read::read", "std::io::Read::read_vectored", "std::io::BufRead::has_data_left"]

# transform-path functions are everything outside the CLI/server front-ends; the front-ends legitimately read args etc.
FRONTEND_PREFIX = ("svgdx::cli::", "svgdx::server::", "svgdx_server::", "svgdx::main", "<svgdx::cli::", "<svgdx::server::", "<svgdx_server::")


def is_hash_ty(ty):
    return any(h in ty for h in HASH)


def run(prog, chk):
    chk.rule(hash_iteration, prog, chk)
    chk.rule(debug_of_hash, prog, chk)
    chk.rule(deny_list, prog, chk)
    chk.rule(local_style_invariant, prog, chk)
    chk.rule(rng_discipline, prog, chk)
    chk.rule(output_order, prog, chk)
    chk.rule(reviewed_hash_loop_commutes, prog, chk)
    from props import C07
    chk.rule(C07.static_state, prog, chk)  # "repeating it in the same process": nothing a transform writes outlives it
    chk.rule(C07.io_discipline, prog, chk)  # the bytes in the output file are a function of input and configuration - not of what the file held before
    chk.rule(C07.frontend_verdicts, prog, chk)  # "the output bytes, or the error": the front-ends add nothing of their own (e.g. a temp-file name) to an error
    # F17 (an empty body becomes HTTP 400) is a difference *between* front-ends (C07), not a source of non-determinism
    chk.obs = [o for o in chk.obs if not (o["rule"] == "A6.frontend-verdict" and o["status"] == "violated" and "server::" in o["key"] and o["key"].endswith(":from"))]


# ---------------------------------------------------------------------------
def load_table():
    with open(TABLE) as fh:
        return json.load(fh)["entries"]


def hash_iteration(prog, chk):
    table = load_table()
    allowed = {}
    for e in table:
        allowed[(e["function"], e["consumer"])] = dict(e, used=0)
    n_sites = 0
    for body in prog.bodies.values():
        if body.path.startswith(FRONTEND_PREFIX) and False:
            continue
        for (bb, t, c) in body.call_sites(lambda c: True):
            last = c.path.split("::")[-1]
            recv_ty = c.self_ty or ""
            produces = False
            if last in ITER_PRODUCERS and (is_hash_ty(recv_ty) or is_hash_ty(c.inst.split("::" + last)[0])):
                produces = True
            if c.decl_path == "std::iter::IntoIterator::into_iter" and is_hash_ty(recv_ty):
                produces = True
            if not produces:
                continue
            # ignore re-wrapping of an iterator that is already a hash iterator adapter (counted at its origin)
            if c.decl_path == "std::iter::IntoIterator::into_iter" and ("hash_map::" in recv_ty or "hash_set::" in recv_ty) and not recv_ty.lstrip("&").lstrip("mut ").startswith("std::collections::Hash"):
                continue
            n_sites += 1
            chk.touch(body)
            where = body.where(bb, t.get("line"))
            consumer, detail = consumer_of(prog, body, t["dest"][0], bb)
            key = f"{body.short}:{last}->{consumer}"
            if consumer.startswith("insensitive"):
                chk.ok("A8.hash-iter", key, where, f"iteration over {short_ty(recv_ty)} is consumed order-insensitively: {detail}")
            else:
                ent = allowed.get((body.path, consumer))
                if ent is None:
                    # the reviewed loop may sit in a closure of its function now, or in a function split off from it
                    import re as _re
                    outer = _re.sub(r"(::\{closure#\d+\})+$", "", body.path)
                    for cand in [outer] + sorted(prog.owners_of(outer)):
                        if allowed.get((cand, consumer)) is not None:
                            ent = allowed[(cand, consumer)]
                            break
                if ent is not None and ent["used"] < ent.get("count", 1):
                    ent["used"] += 1
                    chk.ok("A8.hash-iter", key, where, f"order-sensitive consumer `{consumer}` allowed by reviewed table: {ent['reason']}", by="table")
                else:
                    chk.bad(
                        "A8.hash-iter",
                        key,
                        where,
                        f"iteration over {short_ty(recv_ty)} (unspecified order, differs between processes) reaches an order-sensitive consumer: {detail}. "
                        "If the order provably cannot reach the output, add a line to policy/tables/hash_iteration.json with the reason.",
                    )
    chk.floor("A8.hash-iter", n_sites, 5, "hash-container iteration site")


def short_ty(t):
    return t.replace("std::collections::", "").replace("std::string::", "").replace("svgdx::", "")[:90]


ORDER_SELECTING = {"take", "skip", "step_by", "take_while", "skip_while", "map_while", "enumerate", "zip", "chain", "scan", "dedup", "dedup_by", "dedup_by_key", "tuple_windows", "chunks", "nth", "interleave", "tuples"}


def consumer_of(prog, body, local, from_bb, depth=12):
    """classify what finally consumes the iterator held in `local`"""
    cur = local
    chain = []
    while depth > 0:
        depth -= 1
        # aliases of the iterator value: moves, `&mut it`, `&mut *r` reborrows
        aliases = {cur}
        work = [cur]
        nxt = None
        moved = None
        while work:
            a = work.pop()
            for (b, i, node, how) in R.uses_of(body, a):
                if how == "drop":
                    continue
                if i == R.TERM and node["k"] == "call" and "fn" in node:
                    c = Callee(node["fn"])
                    a0 = op_place(node["args"][0]) if node["args"] else None
                    if a0 is not None and a0[0] == a:
                        if c.decl_path == "std::iter::Iterator::next":
                            nxt = (b, node)
                        else:
                            moved = (b, node, c)
                elif i != R.TERM and how in ("ref", "operand") and not node["lhs"][1]:
                    rv = node["rv"]
                    if rv["k"] in ("ref", "use"):
                        l = node["lhs"][0]
                        if l not in aliases:
                            aliases.add(l)
                            work.append(l)
        if nxt is not None:
            return classify_loop(prog, body, nxt[0], chain)
        if moved is None:
            return "unknown", "iterator value is not consumed by a call (stored?)"
        b, node, c = moved
        last = c.path.split("::")[-1]
        chain.append(last)
        dty = node.get("dty", "")
        if last in INSENSITIVE_TERMINALS:
            return "insensitive:" + last, f".{'.'.join(chain)}()"
        if last in SORTED:
            return "insensitive:sorted", f".{'.'.join(chain)}() - full-element sort"
        if last in SORTED_BY:
            if _comparator_is_map_key(prog, body, node, recv_key_ty(body, local)):
                return "insensitive:sorted-by-map-key", f".{'.'.join(chain)}() with a comparator that is Ord::cmp on the map's key type (keys are distinct, so the order is total)"
            return "sorted_by", f".{'.'.join(chain)}() - order decided by a custom comparator/key (ties keep hash order)"
        if last == "collect" or last == "from_iter":
            if dty.startswith(ORDERED_SINKS):
                return "insensitive:collect-set", f"collected into {short_ty(dty)}"
            # collected into a Vec: insensitive only if fully sorted before any other use
            if dty.startswith("std::vec::Vec<"):
                where = []
                s = sorted_before_use(body, node["dest"][0], b, where)
                if s in ("sort_by", "sort_unstable_by", "sort_by_key", "sort_unstable_by_key", "sort_by_cached_key") and where and _comparator_is_map_key(prog, body, where[0], recv_key_ty(body, local)):
                    return "insensitive:collect-then-sort-by-key", f"collected into a Vec which is sorted by `Ord::cmp` on the container's key type before any other use (keys are distinct, so the order is total)"
                if s == "sort":
                    return "insensitive:collect-then-sort", "collected into a Vec which is sorted (full-element Ord) before any other use"
                if s:
                    return "collect-then-" + s, f"collected into a Vec then {s}: ties between distinct elements keep hash order"
            return "collect", f"collected into {short_ty(dty)} (sequence order = hash order)"
        if last == "extend" :
            return "extend", "extends a collection"
        if last in ORDER_SELECTING:
            # which elements survive (or how they are paired / numbered) depends on the visiting order: a later sort cannot repair it
            return "order-selecting:" + last, f".{'.'.join(chain)}() selects, pairs or numbers elements by visiting order before any sort"
        if last in ADAPTERS or "std::iter::" in dty or "itertools::" in dty or "hash_map::" in dty or "hash_set::" in dty:
            if node["dest"][1]:
                return "unknown", "adapter result stored in a projection"
            cur = node["dest"][0]
            continue
        if last in ("for_each", "fold", "try_fold", "try_for_each", "find", "find_map", "position", "last", "nth", "next", "sum", "product", "reduce", "join", "format"):
            return last, f".{'.'.join(chain)}() depends on visiting order"
        return "passed:" + c.path, f"iterator handed to {c.path}"
    return "unknown", "adapter chain too long"


def recv_key_ty(body, iter_local):
    """key type K of the HashMap the iterator in `iter_local` was produced from (None for sets/unknown)"""
    d = body.single_def(iter_local)
    if not d or d[1] != R.TERM or "fn" not in d[2]:
        return None
    c = Callee(d[2]["fn"])
    ty = c.self_ty or ""
    i = ty.find("HashMap<")
    if i < 0:
        i = ty.find("HashSet<")  # a set's elements are its keys
    if i < 0:
        return None
    rest = ty[i + len("HashMap<"):]
    depth = 0
    for j, ch in enumerate(rest):
        if ch in "<(":
            depth += 1
        elif ch in ">)":
            if depth == 0:
                return rest[:j].strip()
            depth -= 1
        elif ch == "," and depth == 0:
            return rest[:j].strip()
    return None


def _comparator_is_map_key(prog, body, call_term, key_ty):
    if key_ty is None or len(call_term["args"]) < 2:
        return False
    cid = R.closure_id_of_operand(body, call_term["args"][1])
    if cid is None or cid not in prog.bodies:
        return False
    cb = prog.bodies[cid]
    if "fn" in call_term and Callee(call_term["fn"]).path.split("::")[-1].endswith("by_key"):
        # sorted_by_key(|(k, _)| *k): the sort key is the map's key itself (a copy / clone / reference of item.0)
        rty = cb.locals[0]["ty"].lstrip("&").replace("'_ ", "").strip()
        if rty != key_ty:
            return False
        rets = [s_ for b_, i_, s_ in cb.all_stmts() if "lhs" in s_ and s_["lhs"][0] == 0 and not s_["lhs"][1]]
        calls0 = [t_ for b_, t_ in cb.calls() if t_.get("dest") and t_["dest"][0] == 0 and not t_["dest"][1]]
        ok = bool(rets or calls0)
        for s_ in rets:
            src = s_["rv"].get("op") if s_["rv"]["k"] == "use" else None
            if src is None or not (".0" in (op_place(src) or (0, ()))[1] or _from_field0(cb, src)):
                ok = False
        for t_ in calls0:
            if "fn" not in t_ or Callee(t_["fn"]).decl_path != "std::clone::Clone::clone" or not (".0" in (op_place(t_["args"][0]) or (0, ()))[1] or _from_field0(cb, t_["args"][0])):
                ok = False
        return ok
    cmps = cb.call_sites(lambda c: c.decl_path == "std::cmp::Ord::cmp")
    if len(cmps) != 1:
        return False
    (b, t, c) = cmps[0]
    # result of the single Ord::cmp on K is what the closure returns, both operands are the `.0` (key) of the items
    keyed = all(".0" in (op_place(a) or (0, ()))[1] or _from_field0(cb, a) for a in t["args"])
    return c.self_ty == key_ty and t["dest"][0] == 0 and keyed


def _from_field0(body, op):
    pl = op_place(op)
    if pl is None:
        return False
    d = body.single_def(pl[0])
    while d and d[1] != R.TERM:
        rv = d[2]
        src = op_place(rv.get("op")) if rv["k"] == "use" else (P(rv["place"]) if rv["k"] == "ref" else None)
        if src is None:
            return False
        if ".0" in src[1]:
            return True
        d = body.single_def(src[0])
    return False


def sorted_before_use(body, vec_local, def_bb, where=None):
    """is the Vec in `vec_local` sorted (slice::sort / sort_unstable / sort_by*) before any other use? -> kind or None"""
    # the Vec may first be moved into a named `let mut` local
    cur = vec_local
    for _ in range(4):
        uses = [u for u in R.uses_of(body, cur) if u[3] != "drop"]
        if len(uses) == 1 and uses[0][1] != R.TERM and uses[0][3] == "operand" and uses[0][2]["rv"]["k"] == "use" and not uses[0][2]["lhs"][1]:
            cur = uses[0][2]["lhs"][0]
            continue
        break
    sorts = []
    for (b, t, c) in body.call_sites(lambda c: c.path.split("::")[-1] in ("sort", "sort_unstable", "sort_by", "sort_by_key", "sort_unstable_by", "sort_unstable_by_key", "sort_by_cached_key")):
        o = R.origin_local(body, t["args"][0])
        if o == cur or _deref_mut_of(body, t["args"][0]) == cur:
            sorts.append((b, c.path.split("::")[-1]))
            if where is not None and not where:
                where.append(t)
    if not sorts:
        return None
    sb, kind = sorts[0]
    # every other use of the vec must be dominated by the sort
    for (b, i, node, how) in R.uses_of(body, cur):
        if how == "drop" or b == sb:
            continue
        if _is_sort_prep(body, b, i, node, sb):
            continue
        if not body.dominates(sb, b):
            return None
    return "sort" if kind in ("sort", "sort_unstable") else kind


def _deref_mut_of(body, op):
    o = R.origin(body, op, carriers={"deref_mut": 0, "deref": 0, "as_mut_slice": 0, "as_mut": 0})
    if o[0] == "call":
        return None
    pl = op_place(op)
    # follow: _a = deref_mut(&mut vec)
    d = body.single_def(pl[0]) if pl else None
    if d and d[1] == R.TERM and "fn" in d[2] and Callee(d[2]["fn"]).path.split("::")[-1] in ("deref_mut", "as_mut_slice"):
        return R.origin_local(body, d[2]["args"][0])
    return None


def _is_sort_prep(body, b, i, node, sb):
    # the `&mut vec` borrow feeding the deref_mut for the sort call
    return body.dominates(b, sb) and i != R.TERM and node.get("rv", {}).get("k") == "ref"


def classify_loop(prog, body, next_bb, chain):
    lp = R.loop_containing(body, next_bb)
    if lp is None:
        return "next", "Iterator::next outside a loop (first element of an unordered container)"
    header, blocks = lp
    effects = []
    for b in sorted(blocks):
        t = body.term(b)
        if t["k"] != "call" or "fn" not in t:
            continue
        c = Callee(t["fn"])
        last = c.path.split("::")[-1]
        if last in LOOP_PURE:
            if last == "insert" and not (c.path.startswith("std::collections::") or any(s in c.self_ty for s in ORDERED_SINKS)):
                effects.append(c.path)
            continue
        effects.append(c.path)
    if not effects:
        return "insensitive:loop-inserts-only", "`for` loop whose body only inserts into hash/BTree containers"
    return "for-loop", f"`for` loop with order-visible effects: {sorted(set(effects))[:6]}"


# ---------------------------------------------------------------------------
def adt_contains_hash(prog, ty, seen=None):
    seen = seen or set()
    if is_hash_ty(ty):
        return True
    base = ty.lstrip("&").replace("mut ", "").split("<")[0].strip()
    if base in seen:
        return False
    seen.add(base)
    it = prog.item(base, "adt")
    if it is None:
        return False
    for v in it["variants"]:
        for f in v["fields"]:
            if adt_contains_hash(prog, f["ty"], seen):
                return True
    return False


def debug_of_hash(prog, chk):
    n = 0
    for body in prog.bodies.values():
        if body.trait_item == "std::fmt::Debug::fmt":
            continue  # derive(Debug) bodies themselves; what matters is who renders them
        for (bb, t, c) in body.call_sites(lambda c: c.path.endswith("Argument::<'_>::new_debug") or c.path.endswith("::new_debug") or c.decl_path == "std::fmt::Debug::fmt"):
            ty = c.targs[0] if c.targs else c.self_ty
            n += 1
            where = body.where(bb, t.get("line"))
            bad = adt_contains_hash(prog, ty)
            chk.ob(
                not bad,
                "A8.debug-render",
                f"{body.short}:{short_ty(ty)}",
                where,
                f"{{:?}} rendering of {short_ty(ty)} involves no hash container",
                f"{{:?}} rendering of {short_ty(ty)} prints a HashMap/HashSet in its (per-process) iteration order - messages/outputs differ between runs",
            )
    chk.floor("A8.debug-render", n, 2, "Debug rendering site")
    # `fn main() -> Result<_, E>` prints E through Debug (Termination)
    for it in prog.items:
        if it["item"] == "fn" and it["path"].endswith("::main") and it["path"].count("::") == 1:
            out = it["output"]
            bad = out.startswith("std::result::Result<") and adt_contains_hash(prog, out.split(",", 1)[1].rstrip(">").strip() if "," in out else "")
            chk.ob(
                not bad,
                "A8.debug-render",
                f"{it['path']}:termination",
                f"{it['file']}:{it['line']}",
                f"main returns {short_ty(out)}: no Debug rendering of a hash container on exit",
                f"main returns {short_ty(out)}: the error is printed through Debug, which renders a HashMap in per-process order",
            )


# ---------------------------------------------------------------------------
def deny_list(prog, chk):
    hits = 0
    for body in prog.bodies.values():
        for (bb, t, c) in body.call_sites(lambda c: any(c.path.startswith(d) or c.decl_path.startswith(d) for d in DENY) or c.decl_path in DENY_EXACT or c.path in DENY_EXACT):
            where = body.where(bb, t.get("line"))
            if body.path.startswith(FRONTEND_PREFIX):
                # front-ends read their own arguments/environment; not part of a transform
                if any(c.path.startswith(x) for x in ("std::env::args", "std::env::current_dir", "std::time::Instant", "std::env::var")):
                    chk.ok("A8.deny", f"{body.short}:{c.path}", where, "front-end reads its process environment (not a transform path)", by="table")
                    continue
            hits += 1
            ok = False
            why = ""
            owners = prog.owners_of(body.path)
            if owners == {CTX + "::set_config"} and "{closure" not in body.path and _only_handed_to_then(prog, body, prog.body(CTX + "::set_config"), ".use_local_styles"):
                ok = True
                why = "only in a function that set_config hands to `config.use_local_styles.then(..)` (the permitted exception)"
            if body.path == CTX + "::set_config":
                # must be control dependent on config.use_local_styles == true
                gate = _bool_field_gate(body, ".use_local_styles")
                if gate:
                    sb, true_t, false_t = gate
                    ok = R.control_dependent_only_via(body, bb, (sb, true_t))
                why = "only under config.use_local_styles (the permitted exception)"
            chk.ob(
                ok,
                "A8.deny",
                f"{body.short}:{c.path}",
                where,
                f"{c.path} is reached {why}",
                f"nondeterminism source {c.path} is reachable on a transform path without being guarded by use_local_styles",
            )
    chk.floor("A8.deny", hits, 1, "deny-listed call (SystemTime::now under use_local_styles)")


def _bool_field_gate(body, field):
    for (bb, idx, node) in R.place_reads(body, (field,)):
        if idx == R.TERM and node["k"] == "switch":
            tt, ft = R.switch_targets_bool(node)
            return bb, tt, ft
        if idx != R.TERM and "lhs" in node and not node["lhs"][1]:
            for (b, i, n, how, _c) in R.forward_value_uses(body, node["lhs"][0]):
                if i == R.TERM and n["k"] == "switch":
                    tt, ft = R.switch_targets_bool(n)
                    return b, tt, ft
    return None


def _then_gate(body, field):
    """`<flag>.then(f)` / `.then_some(v)` calls of `body` whose flag is a read of `field`: [(bb, terminator)].
    The closure / function handed to then() runs only when the flag is true, and the result is None otherwise."""
    out = []
    for (bb, t, c) in body.call_sites(lambda c: c.path in ("core::bool::<impl bool>::then", "std::bool::<impl bool>::then", "core::bool::<impl bool>::then_some", "std::bool::<impl bool>::then_some") or (c.path.endswith("<impl bool>::then") or c.path.endswith("<impl bool>::then_some"))):
        if not t["args"]:
            continue
        ch = body.chase(t["args"][0])
        if ch[0] == "place" and ch[1][1] and str(ch[1][1][-1]) == field:
            out.append((bb, t))
    return out


def _only_handed_to_then(prog, fn_body, owner, field):
    """every mention of `fn_body` in `owner` is as the function argument of `<field>.then(..)`"""
    gates = _then_gate(owner, field)
    if not gates:
        return False
    mentions = 0
    for b in range(owner.n):
        t = owner.blocks[b]["t"]
        for i, a in enumerate(t.get("args", [])):
            k = op_const(a)
            if k is not None and "fn" in k and Callee(k["fn"]).path == fn_body.path:
                mentions += 1
                if not any(b == gb and i == 1 for (gb, gt) in gates):
                    return False
        if t.get("k") == "call" and "fn" in t and Callee(t["fn"]).path == fn_body.path:
            return False  # called directly: decided where it is called (after splicing), not here
        for st in owner.blocks[b]["s"]:
            rv = st.get("rv") or {}
            for o in [rv.get("op"), rv.get("a"), rv.get("b")] + list(rv.get("ops", [])):
                k = op_const(o) if isinstance(o, dict) else None
                if k is not None and "fn" in k and Callee(k["fn"]).path == fn_body.path:
                    return False
    return mentions > 0


def config_single_writer(prog, chk):
    """context.config is replaced only by set_config"""
    sc = prog.body(CTX + "::set_config")
    chk.touch(sc)
    wc = {k for k in R.field_writers(prog, "config", CTX) if not k.endswith("::default")}
    chk.ob(wc == {sc.path}, "A10.local-style-id", "config-writers", sc.where(), "context.config is written only by set_config", f"context.config is written by {sorted(wc)}: the configuration in force (limits, border, seed ...) can change behind set_config's back")


def local_style_invariant(prog, chk):
    """local_style_id is Some only while config.use_local_styles holds: both are written only by
    set_config, and the false edge always resets the id."""
    sc = prog.body(CTX + "::set_config")
    chk.touch(sc)
    w = {k for k in R.field_writers(prog, "local_style_id", CTX) if not k.endswith("::default")}
    chk.ob(w == {sc.path}, "A10.local-style-id", "writers", sc.where(), "local_style_id is written only by set_config", f"local_style_id writers: {sorted(w)}")
    wc = {k for k in R.field_writers(prog, "config", CTX) if not k.endswith("::default")}
    chk.ob(wc == {sc.path}, "A10.local-style-id", "config-writers", sc.where(), "context.config is written only by set_config", f"context.config is written by {sorted(wc)} - use_local_styles can change without resetting local_style_id")
    gate = _bool_field_gate(sc, ".use_local_styles")
    ok = False
    if gate:
        sb, true_t, false_t = gate
        resets = []
        for (b, i, s) in R.field_assigns(sc, (".local_style_id",)):
            rv = s["rv"]
            if rv["k"] == "aggr" and rv.get("variant") == "None":
                resets.append((b, i))
            elif rv["k"] == "use":
                ch = sc.chase(rv["op"])
                if ch[0] == "rv" and ch[1].get("variant") == "None":
                    resets.append((b, i))
        esc = R.escapes(sc, (sb, R.TERM), resets, closed_edges=[(sb, true_t)])
        ok = bool(resets) and not esc
    if not ok:
        # `self.local_style_id = config.use_local_styles.then(..)`: None whenever the flag is false, written on every path
        for (gb, gt) in _then_gate(sc, ".use_local_styles"):
            for (b, i, s) in R.field_assigns(sc, (".local_style_id",)):
                src = s["rv"].get("op") if s["rv"]["k"] == "use" else None
                ch = sc.chase(src) if src is not None else ("?",)
                if ch[0] == "call" and ch[1] == gb and all(sc.dominates(b, r) for r in sc.return_blocks):
                    ok = True
    chk.ob(
        ok,
        "A13.local-style-reset",
        "set_config",
        sc.where(),
        "whenever the new configuration has use_local_styles == false, local_style_id is reset to None (so the randomised id can only appear when local styles are requested)",
        "a configuration with use_local_styles == false can leave a previously generated (time-seeded) local_style_id in place: the random root id would be emitted although local styles are off",
    )


def rng_discipline(prog, chk):
    # construction
    n_ctor = 0
    for body in prog.bodies.values():
        for (bb, t, c) in body.call_sites(lambda c: "Pcg32" in (t_dty := "") or True):
            dty = t.get("dty", "")
            if not (dty.startswith("rand_pcg::") and "Lcg64Xsh32" in dty or dty.startswith("rand_pcg::pcg64::Lcg64Xsh32") or dty == "rand_pcg::Pcg32"):
                continue
            if c.path.split("::")[-1] in ("clone", "borrow", "deref", "into_inner", "replace", "take"):
                continue
            n_ctor += 1
            chk.ob(
                c.decl_path == "rand::SeedableRng::seed_from_u64",
                "A8.rng-ctor",
                f"{body.short}:{c.path.split('::')[-1]}",
                body.where(bb, t.get("line")),
                "Pcg32 is constructed by seed_from_u64",
                f"Pcg32 is constructed by {c.path} (not a fixed seed)",
            )
    chk.floor("A8.rng-ctor", n_ctor, 2, "Pcg32 construction")
    seed = prog.body(CTX + "::seed_rng")
    callers = sorted(x.path for x in prog.callers_of(seed))
    chk.ob(callers == [CTX + "::set_config"], "A10.rng", "seed_rng-callers", seed.where(), "seed_rng is called only from set_config (reseeded per configuration)", f"seed_rng callers: {callers}")
    # the seed passed is config.seed
    sc = prog.body(CTX + "::set_config")
    ok = False
    for (bb, t, c) in R.calls_to(sc, R.path_is(seed.path)):
        o = R.origin(sc, t["args"][1])
        ok = o[0] == "field" and o[1][1][-1] == ".seed"
    chk.ob(ok, "A10.rng", "seed-source", sc.where(), "the RNG seed is config.seed", "the RNG is not seeded from config.seed")
    w = {k for k in R.field_writers(prog, "rng", CTX) if not k.endswith("::default")}
    chk.ob(w <= {seed.path}, "A10.rng", "rng-writers", seed.where(), "context.rng is replaced only by seed_rng", f"context.rng writers: {sorted(w)}")
    # consumers: get_rng is called only inside eval_function
    users = set()
    for body in prog.bodies.values():
        for (bb, t, c) in body.call_sites(lambda c: c.decl_path == "svgdx::context::VariableMap::get_rng"):
            users.add(body.path)
    users = {u for u in users if "::tests::" not in u}
    chk.ob(
        users == {"svgdx::functions::eval_function"},
        "A10.rng",
        "get_rng-users",
        "src/functions.rs",
        "the RNG is consumed only by eval_function (random()/randint())",
        f"RNG consumers: {sorted(users)}",
    )
    ef = prog.maybe_body("svgdx::functions::eval_function")
    if ef is not None:
        n = len(R.calls_to(ef, lambda c: c.decl_path == "svgdx::context::VariableMap::get_rng"))
        chk.ob(n == 2, "A10.rng", "get_rng-count", ef.where(), "exactly two RNG draws sites (random, randint)", f"{n} RNG draw sites in eval_function (expected 2: Random, RandInt)")


def output_order(prog, chk):
    pe = prog.body("svgdx::transform::process_events")
    tys = [l["ty"] for l in pe.locals if "OrderIndex" in l["ty"] and "svgdx::events::OutputList" in l["ty"] and ("BTreeMap<" in l["ty"] or "HashMap<" in l["ty"] or "hash_map::" in l["ty"] or "btree_map::" in l["ty"])]
    ok = any("BTreeMap<svgdx::types::OrderIndex" in t for t in tys) and not any(is_hash_ty(t) or "hash_map::" in t for t in tys)
    chk.ob(ok, "A8.output-order", "process_events:idx_output", pe.where(), "output fragments are merged through a BTreeMap keyed by OrderIndex (document order)", f"output fragments are kept in {tys} (not an ordered map)")
    pt = prog.item("svgdx::transform::process_tags", "fn")
    ok2 = pt is not None and any("std::collections::BTreeMap<svgdx::types::OrderIndex" in i for i in pt["inputs"])
    chk.ob(ok2, "A8.output-order", "process_tags:idx_output", "src/transform.rs", "process_tags receives the ordered output map", "process_tags does not take a BTreeMap<OrderIndex,_>")
    # AttrMap keeps attributes in a Vec (insertion / priority order), never a hash container
    am = prog.adt("svgdx::types::AttrMap")
    ok3 = all(not is_hash_ty(f["ty"]) for v in am["variants"] for f in v["fields"])
    chk.ob(ok3, "A8.output-order", "AttrMap", "src/types.rs", "AttrMap stores attributes in an ordered container", "AttrMap stores attributes in a hash container")
    cl = prog.adt("svgdx::types::ClassList")
    ok4 = all(not is_hash_ty(f["ty"]) for v in cl["variants"] for f in v["fields"])
    chk.ob(ok4, "A8.output-order", "ClassList", "src/types.rs", "ClassList stores classes in an ordered container", "ClassList stores classes in a hash container")


def reviewed_hash_loop_commutes(prog, chk):
    """the one order-visible loop over a HashMap that the table accepts (the <reuse> attribute override loop) is
    accepted because its passes commute: every pass writes only the key it is visiting.  That reason is checked: each
    attribute write inside the loop uses the loop's key variable, or a literal that is one of the literal patterns of
    the arm it stands in (`"transform" => .. set_attr("transform", ..)`)"""
    from sa import hirq

    b = prog.body("<svgdx::reuse::ReuseElement as svgdx::transform::EventGen>::generate_events")
    h = prog.hir[b.id]
    n = 0
    for lp in hirq.exprs(h["body"], "Loop"):
        if lp.get("src") != "ForLoop":
            continue
        # loop variables: binds of the Some(..) arm of the desugared match
        binds = []
        arms_body = None
        for m in hirq.exprs(lp, "Match"):
            if m.get("src") == "ForLoopDesugar":
                for a in m["arms"]:
                    bs = [q["name"] for q in hirq.walk(a["pat"]) if isinstance(q, dict) and q.get("p") == "bind"]
                    if bs:
                        binds = bs
                        arms_body = a["body"]
                break
        if not binds or arms_body is None:
            chk.anchor_missing("A8.hash-loop-commutes", "ReuseElement: loop variables of the override loop not found")
            continue
        keyvar = binds[0]
        # the override loop is the one whose body dispatches on the key: `match <key>.as_str() { .. }`
        if len(binds) != 2 or not any(m.get("src") == "Normal" and hirq.field_chain(m["scrut"].get("recv", {})) == [keyvar] for m in hirq.exprs(arms_body, "Match") if m["scrut"].get("k") == "MethodCall"):
            continue
        # arms of the match over the key
        for m in hirq.exprs(arms_body, "Match"):
            if m.get("src") != "Normal":
                continue
            for arm in m["arms"]:
                lits = hirq.pat_strs(arm["pat"])
                for mc in hirq.exprs(arm["body"], "MethodCall"):
                    if mc["name"] not in ("set_attr", "insert", "insert_first", "set_default_attr", "pop_attr", "remove_attrs") or not mc["args"]:
                        continue
                    n += 1
                    k = mc["args"][0]
                    lit = hirq.lit_str(k)
                    fc = hirq.field_chain(k)
                    ok = (fc == [keyvar]) or (lit is not None and lit in lits)
                    chk.ob(ok, "A8.hash-loop-commutes", f"ReuseElement:{mc['name']}#{n}", b.where(line=mc.get("line")), f"writes the key being visited ({lit or keyvar})", f"a pass of the <reuse> override loop (iterating a HashMap, order differs between processes) writes an attribute other than the one it is visiting ({lit or hirq.render_string_expr(k) or '?'}): two passes can now write the same attribute, so the result depends on the iteration order")
            break
    chk.floor("A8.hash-loop-commutes", n, 2, "attribute write in the <reuse> override loop")
