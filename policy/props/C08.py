"""C08 Root extent: viewBox, width and height enclose exactly the drawn content (synthesis discipline)."""
from sa import rules as R, hirq
from sa import discharge as D
from sa.prog import P, Callee, op_place, op_const, const_str

EXPLANATION = (
    "Decides the synthesis discipline around the (numeric, undecided) extent: (1) author values win - in write_root_svg every "
    "insertion of width, height, viewBox, version, xmlns or id into the new root is control-dependent on the author's root "
    "lacking exactly that attribute, and `style` is written only when svg_style is configured; (2) border, then outward "
    "rounding, then reading: expand(border, border) dominates round(), which dominates every width()/height()/locspec() "
    "read that feeds viewBox/width/height/aspect ratio; the `mm` unit and the scale factor are used only when neither width "
    "nor height was supplied; (3) non-contributors: specs, var, config and defaults return no bounding box on every exit; "
    "defs/symbol containers, symbol groups and point elements reset their box to None; generated text is not consulted for "
    "the box; (4) zero-area content still counts: BoundingBox::intersect yields a box when the intersection has zero width or "
    "height (comparisons evaluated at equality), so a clipped horizontal/vertical line keeps contributing; (5) a <use>/<reuse> "
    "carrying only one of x / y is still translated (the translation is reachable with either attribute absent). "
    "Undecided: the extent value itself (union over the bbox rules, transform/clip arithmetic, aspect-ratio derivation)."
    " A17 (affine abstract evaluation against policy/spec/geometry_algebra.json): the box of each shape from its attributes, combine/intersect/expand/round/translated/width/height are the reference terms."
)
TRUSTED = ["BoundingBox::expand/round arithmetic"]
ASSUMPTIONS = []

WR = "svgdx::transform::Transformer::write_root_svg"
AM = "svgdx::types::AttrMap"
BB = "svgdx::position::BoundingBox"


def run(prog, chk):
    chk.rule(author_wins, prog, chk)
    # border-before-rounding, rounding before every read, `mm` and scale only when neither size is given: all of it is
    # part of the values the evaluated site root-extent (A17) compares with the reference, case by case
    chk.rule(non_contributors, prog, chk)
    chk.rule(degenerate_boxes, prog, chk)
    chk.rule(builder_accumulates, prog, chk)
    chk.rule(path_subpath_start, prog, chk)
    chk.rule(path_arity, prog, chk)
    chk.rule(points_parity, prog, chk)
    chk.rule(use_translation, prog, chk)
    chk.rule(translation_before_clip, prog, chk)
    chk.rule(clip_failure_modes, prog, chk)
    chk.rule(clip_result_stored_whole, prog, chk)
    from props import C16
    chk.rule(C16.extent_accumulation, prog, chk)  # repeated bodies: every rendered pass is counted in the extent
    from props import C10
    chk.rule(C10.error_swallow, prog, chk)  # a clip-path / reference that cannot be parsed or resolved is an error, not "no clip"
    chk.rule(C10.registration, prog, chk)  # an element placed against a target that is not resolved yet has no (or a wrong) box in the extent
    chk.rule(C10.registry_discipline, prog, chk)  # ... and stays invisible until it is: withdrawn unconditionally, never found again as written
    # the fold of a box through the transform list is decided by the evaluated site `transform-fold` (A17)
    chk.rule(config_is_incremental, prog, chk)
    from props import C07
    chk.rule(C07.cli_config_mapping, prog, chk)  # border / scale given on the command line reach the configuration the extent is computed with
    from props import geomalg
    chk.rule(geomalg.check_sites, prog, chk, "C08")
    chk.rule(geomalg.check_float_truncation, prog, chk)  # no float is cut down to an integer on the way (a truncated distance / coordinate makes different candidates tie)
    chk.rule(geomalg.check, prog, chk, "C08", floor=27)
    from props import strops
    chk.rule(strops.check_for, prog, chk, "C08")  # A14.str-ops: how this property's strings are cut up is a reviewed, frozen inventory
    chk.rule(strops.blank_only_separators, prog, chk)  # a pair / list cut at blanks is cut at tabs and newlines too
    chk.rule(strops.empty_test_before_trim, prog, chk)  # pieces are tested for emptiness after trimming, not before
    from props import C19 as _C19
    chk.rule(_C19.text_not_altered, prog, chk)  # what decides whether an element's content is "only text" (and the shape is then laid out and counted) reads the text as written: a trimmed / filtered copy sends `<rect ..>NEWLINE</rect>` down the container path, where it has no box
    from props import geomalg as _ga
    chk.rule(_ga.check_extent_seeds, prog, chk)  # the extent of a polyline / polygon covers points at negative coordinates
    from props import C03 as _C03g
    chk.rule(_C03g.graphics_vocabulary, prog, chk)  # an <image> / shape written with a separate end tag is laid out, and counted in the extent, like its empty-element form
    chk.rule(path_relative_commands, prog, chk)


def _lit(body, t, i):
    if len(t["args"]) <= i:
        return None
    o = R.origin(body, t["args"][i], carriers=dict(R.CARRIERS))
    return o[1].get("str") if o[0] == "const" else None


def _absent_guards(body, bb, key):
    """is block bb only reachable when the author's root lacks `key`?"""
    for (a, x) in D.dominating_edges(body, bb):
        st = body.term(a)
        if st["k"] != "switch":
            continue
        tt, ft = R.switch_targets_bool(st)
        if x not in (tt, ft) or tt == ft:
            continue
        truth = x == tt
        o = R.origin(body, st["op"], carriers={})
        neg = False
        if o[0] == "rv" and o[1].get("k") == "unop" and o[1].get("op") == "Not":
            neg = True
            o = R.origin(body, o[1]["a"], carriers={})
        if neg:
            truth = not truth
        if o[0] == "call" and "fn" in o[2]:
            c = Callee(o[2]["fn"])
            last = c.path.split("::")[-1]
            if last == "contains_key" and _lit(body, o[2], 1) == key and not truth:
                return True
            if last in ("is_none", "is_some") and o[2]["args"]:
                # the tested Option comes from get(key)
                src = R.origin(body, o[2]["args"][0], carriers={})
                if src[0] == "call" and "fn" in src[2] and Callee(src[2]["fn"]).path.split("::")[-1] == "get" and _lit(body, src[2], 1) == key:
                    if (last == "is_none") == truth:
                        return True
    return False


def author_wins(prog, chk):
    b = prog.body(WR)
    chk.touch(b)
    inserts = [(bb, t, _lit(b, t, 1)) for (bb, t, c) in b.call_sites(lambda c: c.path.startswith(AM + "::insert"))]
    chk.floor("A13.author-wins", len(inserts), 7, "insert into the new root attribute map")
    for (bb, t, key) in inserts:
        where = b.where(bb, t.get("line"))
        if key in ("width", "height", "viewBox"):
            # whether the author's width / height / viewBox survive is decided, case by case (neither, width only,
            # height only, both, viewBox given), by the evaluated site root-extent (A17) - not by the shape of the guards
            chk.ok("A13.author-wins", f"write_root_svg:{key}", where, f"`{key}`: decided by the A17 site root-extent")
        elif key in ("version", "xmlns", "id"):
            chk.ob(_absent_guards(b, bb, key), "A13.author-wins", f"write_root_svg:{key}", where, f"`{key}` is synthesised only when the author's root has no `{key}`", f"`{key}` can be written although the author's root supplies `{key}`: the author's value would be replaced")
        elif key == "style":
            conds = D.dominating_edges(b, bb)
            ok = False
            for (a, x) in conds:
                sd = R.switch_discr_place(b, a)
                if sd:
                    npl = D._norm(b, sd[0])
                    if npl[1] and ".svg_style" in npl[1]:
                        ok = True
            chk.ob(ok, "A13.author-wins", "write_root_svg:style", where, "`style` is written only when svg_style is configured", "`style` is written without svg_style being configured")
        elif key is None:
            # a key that is not a literal here (table of defaults): which attributes are written in which presence case
            # is decided by the evaluated site root-extent (A17)
            chk.ok("A13.author-wins", "write_root_svg:computed-key", where, "insert with a computed key: decided by the A17 site root-extent")
        else:
            chk.bad("A13.author-wins", f"write_root_svg:{key}", where, f"root attribute `{key}` is synthesised but is not in the reviewed list")


def ordering(prog, chk):
    b = prog.body(WR)
    exp = b.call_sites(R.path_is(BB + "::expand"))
    rnd = b.call_sites(R.path_is(BB + "::round"))
    reads = b.call_sites(lambda c: c.path in (BB + "::width", BB + "::height", BB + "::locspec", BB + "::center", BB + "::scalarspec"))
    chk.floor("A13.expand-round", min(len(exp), len(rnd)), 1, "expand()/round() call in write_root_svg")
    chk.floor("A13.expand-round.reads", len(reads), 6, "extent read in write_root_svg")
    if not exp or not rnd:
        return
    eb, et, _ = exp[0]
    rb, rt, _ = rnd[0]
    border = all((R.origin(b, a, carriers={})[0] == "rv" or True) for a in et["args"][1:])
    srcs = []
    for a in et["args"][1:]:
        o = R.origin(b, a, carriers={})
        # `self.context.config.border as f32`
        pl = None
        if o[0] == "rv" and o[1].get("k") == "cast":
            ch = b.chase(o[1]["op"])
            pl = ch[1] if ch[0] == "place" else None
        elif o[0] == "field":
            pl = o[1]
        srcs.append(pl[1][-1] if pl and pl[1] else None)
    chk.ob(srcs == [".border", ".border"], "A13.expand-round", "expand-args", b.where(eb, et.get("line")), "the extent is expanded by config.border in both directions", f"expand() is called with {srcs}")
    chk.ob(b.dominates(eb, rb) and eb != rb, "A13.expand-round", "expand-before-round", b.where(rb, rt.get("line")), "border expansion precedes the outward rounding", "round() is not preceded by expand(): the border would be applied to an already rounded box")
    bad = [b.where(x, t.get("line")) for (x, t, c) in reads if not (b.dominates(rb, x) and x != rb)]
    chk.ob(not bad, "A13.expand-round", "round-before-reads", b.where(rb, rt.get("line")), f"all {len(reads)} reads of the extent (width/height/top-left) use the expanded and rounded box", f"extent reads at {bad} are not dominated by round(): values derived from them (aspect ratio, viewBox, width/height) use the unrounded box")
    # unit and scale only on the neither-supplied arm
    h = prog.hir[b.id]
    ok = False
    n_mm = 0
    for iff in hirq.exprs(h["body"], "If"):
        c = iff["cond"]
        names = sorted(hirq.field_chain(m["recv"])[0] for m in hirq.exprs(c, "MethodCall") if m["name"] == "is_none" and hirq.field_chain(m["recv"]))
        inner = " ".join(filter(None, [hirq.render_string_expr(x) if x.get("k") in ("Call",) and "must_use" in hirq.callee_path(x) else None for x in hirq.exprs(iff["then"], "Call")]))
        nested = any("mm" in " ".join(filter(None, [hirq.render_string_expr(x) if "must_use" in hirq.callee_path(x) else None for x in hirq.exprs(sub["then"], "Call")])) for sub in hirq.exprs(iff["then"], "If"))
        if "mm" in inner and not nested:
            n_mm += 1
            ok = names == ["orig_height", "orig_width"] and c.get("k") == "Binary" and c.get("op") == "And"
    scale_reads = [hirq.field_chain(f) for f in hirq.exprs(h["body"], "Field") if f["name"] == "scale"]
    chk.ob(ok and n_mm == 1, "A13.unit-scale", "write_root_svg:mm", b.where(), "`mm` and the scale factor are applied only when the author supplied neither width nor height", "the mm unit / scale are not confined to the branch where both width and height are missing")


def _bbox_components(b, op):
    """the Option<BoundingBox> component(s) of a generated result - a pair (events, box), or a struct that carries the
    two - as chased values"""
    pl = op_place(op)
    d = b.single_def(pl[0]) if pl is not None and not pl[1] else None
    for _ in range(3):
        if d and d[1] != R.TERM and d[2]["k"] == "use" and op_place(d[2]["op"]) is not None and not op_place(d[2]["op"])[1]:
            d = b.single_def(op_place(d[2]["op"])[0])
        else:
            break
    if not d or d[1] == R.TERM or d[2]["k"] != "aggr":
        return []
    out = []
    for o in d[2].get("ops", []):
        opl = op_place(o)
        ty = b.local_ty(opl[0]) if opl is not None and not opl[1] else ((o.get("k") or {}).get("ty") if isinstance(o, dict) else "")
        if "Option<svgdx::position::BoundingBox>" in str(ty):
            out.append(b.chase(o))
    return out


def non_contributors(prog, chk):
    for ty in ("SpecsElement", "VarElement", "ConfigElement", "DefaultsElement"):
        b = prog.body(f"<svgdx::transform::{ty} as svgdx::transform::EventGen>::generate_events")
        chk.touch(b)
        oks = 0
        good = True
        for x, i, s in b.all_stmts():
            if "lhs" in s and s["lhs"][0] in b.ret_locals and not s["lhs"][1] and s["rv"].get("variant") == "Ok":
                comps = _bbox_components(b, s["rv"]["ops"][0])
                if not comps:
                    continue  # the Ok of something else (a spliced helper's `Ok(())`)
                oks += 1
                is_none = bool(comps) and all(o1[0] == "rv" and o1[1].get("variant") == "None" for o1 in comps)
                good = good and is_none
        if oks == 0:
            chk.undecided("A15.non-contributors", ty, b.where(), f"<{ty[:-7].lower()}>: no successful exit that carries an Option<BoundingBox> is found in a form this rule reads")
            continue
        chk.ob(oks >= 1 and good, "A15.non-contributors", ty, b.where(), f"<{ty[:-7].lower()}> returns no bounding box on every successful exit", f"<{ty[:-7].lower()}> can return a bounding box")
    # conditional resets
    for ty, names in (("Container", {"defs", "symbol"}), ("GroupElement", {"symbol"}), ("OtherElement", {"point"})):
        b = prog.body(f"<svgdx::transform::{ty} as svgdx::transform::EventGen>::generate_events")
        h = prog.hir[b.id]
        found = set()
        for iff in hirq.exprs(h["body"], "If"):
            lits = {hirq.lit_str(x) for x in hirq.exprs(iff["cond"], "Lit")} - {None}
            eqs = [x for x in hirq.exprs(iff["cond"], "Binary") if x["op"] == "Eq"]
            if not eqs or not lits:
                continue
            then = iff["then"]
            nones = [p for p in hirq.exprs(then, "Path") if (p.get("res") or {}).get("path", "").split("::")[-1] == "None"]
            if nones:
                found |= lits
        is_none = lambda n: [p for p in hirq.exprs(n, "Path") if (p.get("res") or {}).get("path", "").split("::")[-1] == "None"]
        # the same exclusion written as a match arm (`"symbol" => None`) ...
        for _m, arms in hirq.str_matches(h):
            for ls, a in arms:
                if is_none(a["body"]):
                    found |= set(ls)
        # ... or as a filter over the box (`bbox.filter(|_| name != "defs" && name != "symbol")`)
        for mc in hirq.method_calls(h["body"], "filter"):
            for cl in hirq.exprs(mc, "Closure"):
                nes = [x for x in hirq.exprs(cl, "Binary") if x["op"] == "Ne"]
                eqs = [x for x in hirq.exprs(cl, "Binary") if x["op"] == "Eq"]
                if nes and not eqs:
                    found |= {hirq.lit_str(x) for e in nes for x in hirq.exprs(e, "Lit")} - {None}
        if not names <= found:
            present = {hirq.lit_str(x) for x in hirq.exprs(h["body"], "Lit")} - {None}
            if names - found <= present:
                chk.undecided("A15.non-contributors", f"{ty}:{'/'.join(sorted(names))}", b.where(), f"{ty}: the names {sorted(names - found)} are still tested but the exclusion is written in a form this rule does not read")
                continue
        chk.ob(names <= found, "A15.non-contributors", f"{ty}:{'/'.join(sorted(names))}", b.where(), f"{'/'.join(sorted(names))} elements contribute no bounding box (reset to None)", f"{ty}: elements named {sorted(names - found)} are no longer excluded from the extent")
    # generated text is not consulted: OtherElement's bbox comes from get_element_bbox only
    oe = prog.body("<svgdx::transform::OtherElement as svgdx::transform::EventGen>::generate_events")
    ok = False
    for x, i, s in oe.all_stmts():
        if "lhs" in s and s["lhs"][0] in oe.ret_locals and not s["lhs"][1] and s["rv"].get("variant") == "Ok":
            pl0 = op_place(s["rv"]["ops"][0])
            tup = oe.single_def(pl0[0]) if pl0 else None
            for _ in range(3):
                if tup and tup[1] != R.TERM and tup[2]["k"] == "use" and op_place(tup[2]["op"]) is not None and not op_place(tup[2]["op"])[1]:
                    tup = oe.single_def(op_place(tup[2]["op"])[0])
                else:
                    break
            if tup and tup[1] != R.TERM and tup[2]["k"] == "aggr" and len(tup[2]["ops"]) >= 2:
                boxes = [o_ for o_ in tup[2]["ops"] if op_place(o_) is not None and not op_place(o_)[1] and "Option<svgdx::position::BoundingBox>" in str(oe.local_ty(op_place(o_)[0]))]
                l = R.origin_local(oe, boxes[0]) if len(boxes) == 1 else None
                if l is not None:
                    srcs = set()
                    for d in oe.defs_of(l):
                        if d[1] == R.TERM:
                            srcs.add("call")
                        elif d[2]["k"] == "use":
                            p, o = R.call_origin_path(oe, d[2]["op"])
                            srcs.add(p.split("::")[-1] if p else ("None" if oe.chase(d[2]["op"])[0] == "rv" else "?"))
                        elif d[2]["k"] == "aggr":
                            srcs.add(d[2].get("variant"))
                    ok = srcs <= {"get_element_bbox", "None"} and "get_element_bbox" in srcs
    chk.ob(ok, "A15.non-contributors", "OtherElement:text", oe.where(), "an element's contribution is its own bounding box (get_element_bbox); generated text events are not consulted", "the bounding box returned by OtherElement does not come only from get_element_bbox")


def _is_zero(v):
    try:
        return v is not None and float(v) == 0.0
    except (TypeError, ValueError):
        return False


def degenerate_boxes(prog, chk):
    """a zero-width / zero-height intersection is still a box (a clipped horizontal line contributes its extent)"""
    b = prog.body(BB + "::intersect")
    chk.touch(b)
    somes = {x for x, i, s in b.all_stmts() if "lhs" in s and s["lhs"][0] == 0 and not s["lhs"][1] and s["rv"].get("variant") == "Some"}
    n = [0]

    def subject(a, c):
        for u, v in ((a, c), (c, a)):
            k = op_const(v)
            if k is not None and (_is_zero(k.get("float")) or k.get("int") == 0):
                o = R.origin(b, u, carriers={})
                if o[0] == "call" and "fn" in o[2] and Callee(o[2]["fn"]).path.split("::")[-1] in ("width", "height"):
                    n[0] += 1
                    return True
        return False

    for x, i, st in b.all_stmts():
        rv = st.get("rv")
        if rv and rv["k"] == "binop" and rv["op"] in ("Ge", "Le", "Eq", "Gt", "Lt", "Ne"):
            subject(rv["a"], rv["b"])
    chk.floor("A7.degenerate-box", n[0], 2, "comparison of an intersection's width()/height() with 0")
    ok = bool(somes) and R.may_reach(b, somes, R.equality_assumption(b, subject))
    if not somes and b.call_sites(lambda c: c.path.split("::")[-1] in ("then_some", "then", "filter")):
        # the Some / None decision is made by a combinator (`cond.then_some(box)`), not by a branch: no verdict here
        # (the value is still compared by A17.algebra BoundingBox::intersect)
        chk.undecided("A7.degenerate-box", "intersect", b.where(), "BoundingBox::intersect decides Some / None with a combinator rather than a branch on its size tests")
        return
    chk.ob(ok, "A7.degenerate-box", "intersect", b.where(), "an intersection of zero width or height is still returned as a box (both size tests admit equality)", "BoundingBox::intersect returns None for a zero-width or zero-height intersection: a clipped horizontal/vertical line (or text anchor) stops contributing to the root extent")


def builder_accumulates(prog, chk):
    """BoundingBoxBuilder::extend takes every box it is given into the accumulated box: no path returns without
    writing `self.bbox` (a box of zero width and height - a text anchor, a point-like shape - still has a position)"""
    b = prog.maybe_body("svgdx::position::BoundingBoxBuilder::extend")
    if b is None:
        chk.anchor_missing("A10.builder-accumulates", "BoundingBoxBuilder::extend not found")
        return
    chk.touch(b)
    # references to places under (*self).bbox
    refs = set()
    for x, i, st in b.all_stmts():
        rv = st.get("rv") or {}
        if rv.get("k") == "ref" and st.get("lhs") and not st["lhs"][1]:
            pl = P(rv["place"])
            if pl[0] == 1 and ".bbox" in [str(z) for z in pl[1]]:
                refs.add(st["lhs"][0])

    def writes_acc(pl):
        pl = P(pl)
        return (pl[0] == 1 and ".bbox" in [str(z) for z in pl[1]]) or (pl[0] in refs and pl[1] and pl[1][0] == "*")

    wblocks = set()
    for x, i, st in b.all_stmts():
        if st.get("lhs") and writes_acc(st["lhs"]):
            wblocks.add(x)
    for x, t in b.calls():
        if t.get("dest") and writes_acc(t["dest"]):
            wblocks.add(t.get("t", x))
            wblocks.add(x)
    rets = [x for x in b.reachable if b.term(x)["k"] == "ret"]
    chk.floor("A10.builder-accumulates", len(wblocks), 2, "write of the accumulated box in BoundingBoxBuilder::extend")
    skip = [x for x in rets if x in b.reach([0], avoid=wblocks)] if 0 not in wblocks else []
    chk.ob(not skip, "A10.builder-accumulates", "BoundingBoxBuilder::extend", b.where(), "extend() takes every box it is given into the accumulated box (no early return)", "BoundingBoxBuilder::extend can return without updating the accumulated box: some boxes (e.g. zero-size ones: a standalone text anchor, a degenerate shape) are left out of the extent they belong to")


def path_subpath_start(prog, chk):
    """path data: closepath returns to the start of the *current* subpath, so the point a `z` goes back to is (re)set by
    every moveto and by nothing else (SVG 1.1 8.3.2/8.3.3) - a later relative command continues from there, and the
    extent of the path follows"""
    b = prog.maybe_body("svgdx::path::PathParser::process_instruction")
    if b is None:
        chk.anchor_missing("A15.path-subpath", "PathParser::process_instruction not found")
        return
    chk.touch(b)
    sw = [(x, b.term(x)) for x in b.reachable if b.term(x)["k"] == "switch" and b.term(x).get("ty") == "char" and len(b.term(x)["vals"]) >= 2]
    if not sw:
        chk.anchor_missing("A15.path-subpath", "process_instruction: no dispatch on the command letter found")
        return
    sx = min(x for x, _t in sw)
    # every (letter, arm) edge of the dispatches on the command letter (one `match`, or several on the same letter)
    arms = [(v, tgt) for _x, st_ in sw for v, tgt in st_["vals"]]
    # a dispatch on the case-folded letter (`match cmd.to_ascii_uppercase()`, with `relative = cmd.is_ascii_lowercase()`)
    # has one arm for both spellings
    for x_, st_ in sw:
        o_ = R.origin(b, st_["op"], carriers={})
        if o_[0] == "call" and "fn" in o_[2] and Callee(o_[2]["fn"]).path.split("::")[-1] in ("to_ascii_uppercase", "to_ascii_lowercase"):
            arms += [(ord(chr(v).swapcase()), tgt) for v, tgt in st_["vals"] if 0 < v < 128 and chr(v).isalpha()]

    def resets(body):
        """does every path through this PathParser method assign self.start_pos?"""
        w = {x for x, i, s_ in body.all_stmts() if s_.get("lhs") and P(s_["lhs"])[0] == 1 and ".start_pos" in [str(z) for z in P(s_["lhs"])[1]]}
        rets = [x for x in body.reachable if body.term(x)["k"] == "ret"]
        return bool(w) and not [x for x in rets if x in body.reach([0], avoid=w)] and 0 not in w or (bool(w) and 0 in w)

    sites = []
    for x, i, s_ in b.all_stmts():
        if s_.get("lhs") and P(s_["lhs"])[0] == 1 and ".start_pos" in [str(z) for z in P(s_["lhs"])[1]]:
            sites.append(x)
    for (x, t, c) in b.call_sites(lambda c: c.path.startswith("svgdx::path::PathParser::")):
        cb = prog.maybe_body(c.path)
        if cb is not None and resets(cb):
            sites.append(x)
    letters = set()
    bad = []
    for x in sites:
        vs = {v for v, tgt in arms if tgt == x or b.dominates(tgt, x)}
        if not vs:
            bad.append(b.where(x))
        letters |= vs
    names = "".join(sorted(chr(v) for v in letters))
    if sites and bad and letters <= {ord("M"), ord("m")}:
        # a reset that is not inside an arm of a dispatch on the letter (it may hang on a value derived from the letter)
        chk.undecided("A15.path-subpath", "process_instruction:start", b.where(sx), f"the subpath start is also reset outside the arms of the dispatch on the command letter ({', '.join(bad)}): which commands reach it is not read here")
    else:
        chk.ob(bool(sites) and not bad and letters == {ord("M"), ord("m")},     "A15.path-subpath", "process_instruction:start", b.where(sx), "the point closepath returns to is reset by M and m, and by no other command", f"the subpath start that `z` returns to is reset under the commands '{names}' ({len(sites)} site(s){', outside the dispatch: ' + ', '.join(bad) if bad else ''}) - it must be every moveto (M, m) and nothing else: after a second subpath (or a lineto) `z` returns to the wrong point, and a following relative command moves the path's extent")
    # the closepath arm takes its target from start_pos
    zt = {tgt for v, tgt in arms if v in (ord("Z"), ord("z"))}
    all_reads = [x for (x, i, node) in R.place_reads(b, (".start_pos",))]
    reads = [x for x in all_reads if any(x == z or b.dominates(z, x) for z in zt)]
    other_arm = [x for x in all_reads if x not in reads and any((tgt == x or b.dominates(tgt, x)) for v, tgt in arms if v not in (ord("Z"), ord("z")))]
    if not reads and all_reads and not other_arm:
        # the start is read, but not inside an arm of the letter dispatch (e.g. under a value the Z arm produced)
        chk.undecided("A15.path-subpath", "process_instruction:close", b.where(sx), "the recorded subpath start is read outside the arms of the dispatch on the command letter: which command that read serves is not read here")
        return
    chk.ob(bool(reads), "A15.path-subpath", "process_instruction:close", b.where(sx), "Z / z move to the recorded subpath start", "the closepath arm no longer reads the recorded subpath start")


PATH_ARITY = {"M": 2, "L": 2, "T": 2, "H": 1, "V": 1, "C": 6, "S": 4, "Q": 4, "A": 7, "Z": 0}


def path_arity(prog, chk):
    """path data: each command letter is followed by the number of numbers SVG 1.1 (8.3) gives it - moveto / lineto /
    smooth quadratic 2, horizontal / vertical lineto 1, curveto 6, smooth curveto and quadratic 4, arc 7, closepath
    none - lower case as upper case.  Counted per arm of the dispatch on the letter: reads of one number / of a
    coordinate pair on the way from the arm to where the arms meet again.  One pair too many and the next command's
    numbers are eaten (or the data runs out); one too few and the rest is read as the wrong command"""
    b = prog.maybe_body("svgdx::path::PathParser::process_instruction")
    if b is None:
        chk.anchor_missing("A15.path-arity", "PathParser::process_instruction not found")
        return
    chk.touch(b)
    sws = [(x, b.term(x)) for x in b.reachable if b.term(x)["k"] == "switch" and b.term(x).get("ty") == "char" and len(b.term(x)["vals"]) >= 10]
    if not sws:
        chk.anchor_missing("A15.path-arity", "process_instruction: no dispatch on the command letter with an arm per command")
        return
    sx, st = max(sws, key=lambda z: len(z[1]["vals"]))
    targets = sorted({tgt for _v, tgt in st["vals"]})
    reach = {tgt: b.reach([tgt]) for tgt in targets}
    # where the arms meet again: blocks every arm reaches (errors leave through `?`, which also every arm reaches - the
    # reads are what tells the arms apart)
    common = set.intersection(*[set(r) for r in reach.values()]) if reach else set()
    n = 0
    for v, tgt in sorted(st["vals"]):
        letter = chr(v)
        want = PATH_ARITY.get(letter.upper())
        if want is None:
            continue
        own = [x for x in reach[tgt] if x not in common]
        got = 0
        unknown = False
        for x in own:
            t = b.term(x)
            if t["k"] in ("call", "tailcall") and "fn" in t:
                last = Callee(t["fn"]).path.split("::")[-1]
                if last == "read_coord":
                    got += 2
                elif last == "read_number":
                    got += 1
                elif Callee(t["fn"]).local and last not in ("update_position", "begin_subpath", "from_residual", "branch", "at_end", "at_command", "unwrap_or", "ok_or_else", "into", "from", "to_owned", "min", "max"):
                    unknown = unknown or last.startswith(("read_", "skip_", "parse_"))
        # a loop inside the arm or reads on alternative paths make the count meaningless
        if any(x in b.loops for x in own) or unknown:
            chk.undecided("A15.path-arity", f"process_instruction:{letter}", b.where(tgt), f"the numbers read for `{letter}` are not a straight run of read_number / read_coord calls in its arm")
            continue
        n += 1
        chk.ob(got == want, "A15.path-arity", f"process_instruction:{letter}", b.where(tgt), f"`{letter}` reads {want} number(s)", f"the arm of path command `{letter}` reads {got} number(s); SVG gives it {want}: the numbers of the following command are consumed (or the data runs out: 'Ran out of data'), so valid path data fails or gives a wrong extent")
    chk.floor("A15.path-arity", n, 18, "path command letter with a counted arm")


def points_parity(prog, chk):
    """`points` of a polyline / polygon is a flat list of numbers, alternately x and y whatever mixture of commas and
    blanks separates them (SVG 1.1 9.7): the counter whose parity tells x from y is set to 0 once, before the scan, and
    afterwards only incremented per number"""
    b = prog.body("svgdx::element::SvgElement::bbox_raw")
    chk.touch(b)
    # the separators: a split on a literal set of characters that counts the blank as a separator must count the
    # other white space characters too (tab, newline, carriage return) - or the list is cut with split_whitespace
    scope = [b] + [c_ for c_ in prog.closures_of(b)]
    ws_split = any(bd.call_sites(lambda c: c.path.split("::")[-1] in ("split_whitespace", "split_ascii_whitespace") or c.path.endswith(("char::is_whitespace", "char::is_ascii_whitespace", "<impl char>::is_whitespace", "<impl char>::is_ascii_whitespace"))) for bd in scope)
    for bd in scope:
        for (x, t, c) in bd.call_sites(lambda c: c.path.startswith(("core::str::<impl str>::split", "core::str::<impl str>::rsplit")) and "char" in c.inst):
            if len(t["args"]) < 2:
                continue
            ch = bd.chase(t["args"][1])
            chars = None
            if ch[0] == "rv" and ch[1].get("k") == "aggr" and ch[1].get("ak") == "array":
                chars = {(op_const(o) or {}).get("char") for o in ch[1]["ops"]}
            elif ch[0] == "const" and "char" in ch[1]:
                chars = {ch[1]["char"]}
            if chars and None not in chars and " " in chars and len(chars) > 1:
                missing = sorted({"\t", "\n", "\r"} - chars)
                chk.ob(not missing or ws_split, "A13.points-parity", "bbox_raw:separators", bd.where(x, t.get("line")), "a list cut at blanks is cut at every white space character", f"a number list in bbox_raw is cut at {sorted(chars)} only: a blank separates numbers but {missing!r} (tab / newline / carriage return, which SVG allows wherever a blank is allowed) do not - such a `points` list fails to parse, and the transform fails on plain SVG content")
    cands = set()
    for x, i, st in b.all_stmts():
        rv = st.get("rv") or {}
        if rv.get("k") == "binop" and rv.get("op") == "Rem":
            k = op_const(rv.get("b")) or {}
            if k.get("int") == 2:
                o = R.origin_local(b, rv["a"])
                if o is not None:
                    cands.add(o)
    chk.floor("A13.points-parity", len(cands), 1, "counter tested with `% 2` in bbox_raw")
    for l in sorted(cands):
        resets, incs, other = [], 0, []
        for d in b.defs_of(l):
            blk, idx, node = d
            lp = R.loop_containing(b, blk)
            if idx != R.TERM and node.get("k") == "use" and (op_const(node.get("op")) or {}).get("int") == 0:
                (resets if lp is not None else []).append(b.where(blk))
                continue
            src = node
            if idx != R.TERM and node.get("k") == "use":
                pl = op_place(node.get("op"))
                sd = b.single_def(pl[0]) if pl else None
                if sd and sd[1] != R.TERM:
                    src = sd[2]
            if idx != R.TERM and src.get("k") == "binop" and src.get("op") in ("Add", "AddWithOverflow") and (op_const(src.get("b")) or {}).get("int") == 1:
                incs += 1
                continue
            other.append(b.where(blk))
        name = b.local_name(l) or f"_{l}"
        if other and not resets:
            # the counter is not maintained by hand (`idx += 1`) but handed out by something else (enumerate(), a fold):
            # it is not reset inside the scan; how it advances is not read here
            chk.undecided("A13.points-parity", f"bbox_raw:{name}", b.where(), f"the parity counter `{name}` is defined by something other than `= 0` / `+= 1` ({', '.join(other)}), e.g. an enumerate() index")
            continue
        chk.ob(not resets and not other and incs >= 1, "A13.points-parity", f"bbox_raw:{name}", b.where(), f"`{name}` starts at 0 and is only incremented, once per number", f"the x/y parity counter `{name}` of the points scan is also reset / reassigned inside the scan ({', '.join(resets + other)}): after some separator sequences (e.g. `5, 5, 40, 30`) x and y values are told apart wrongly and the polyline's box - and the root extent - is wrong or missing")


def use_translation(prog, chk):
    """in get_clipped_bbox the use/reuse translation must be reachable when only one of x / y is present"""
    b = prog.body("svgdx::context::TransformerContext::get_clipped_bbox")
    chk.touch(b)
    gets = {}
    for (bb, t, c) in b.call_sites(R.path_endswith("SvgElement::get_attr")):
        k = _lit(b, t, 1)
        if k in ("x", "y"):
            gets.setdefault(k, []).append(bb)
    tr = {bb for (bb, t, c) in b.call_sites(R.path_endswith("BoundingBox::translated"))}
    if not tr or set(gets) != {"x", "y"}:
        chk.anchor_missing("A13.use-translation", f"get_clipped_bbox: translated() call or get_attr(\"x\"/\"y\") not found (found {sorted(gets)}, {len(tr)} translated calls)")
        return
    # sanity of the decider: with both absent the translation must be unreachable (otherwise the rule decides nothing)
    both = {bb: 0 for k in gets for bb in gets[k]}
    if R.may_reach(b, tr, R.option_assumption(b, both)):
        chk.undecided("A13.use-translation", "get_clipped_bbox", b.where(), "the presence tests on x / y are not in a form the rule understands (the translation looks reachable with both absent)")
        return
    chk.ok("A13.use-translation", "get_clipped_bbox:decider-sanity", b.where(), "decider sanity: with neither x nor y the translation is not reached")
    for absent in ("x", "y"):
        assume = {bb: 0 for bb in gets[absent]}
        other = "y" if absent == "x" else "x"
        assume.update({bb: 1 for bb in gets[other]})
        ok = R.may_reach(b, tr, R.option_assumption(b, assume))
        chk.ob(ok, "A13.use-translation", f"get_clipped_bbox:only-{other}", b.where(), f"a <use>/<reuse> with `{other}` but no `{absent}` still has its bounding box translated", f"with `{absent}` absent the translation of a <use>/<reuse> bounding box is unreachable: `<use href=.. {other}=..>` contributes its target's untranslated box to the extent")


def translation_before_clip(prog, chk):
    """a <use> is drawn where its x / y put it, and its clip-path applies to it there: in get_clipped_bbox the box is
    translated before it is intersected with the clip box (no path runs from the intersection to the translation)"""
    b = prog.body("svgdx::context::TransformerContext::get_clipped_bbox")
    chk.touch(b)
    tr = {bb for (bb, t, c) in b.call_sites(R.path_endswith("BoundingBox::translated"))}
    ix = [(bb, t) for (bb, t, c) in b.call_sites(R.path_endswith("BoundingBox::intersect"))]
    if not tr or not ix:
        chk.undecided("A13.translate-then-clip", "get_clipped_bbox", b.where(), f"translated() / intersect() calls not found in get_clipped_bbox ({len(tr)}, {len(ix)})")
        return
    late = [b.where(bb, t.get("line")) for (bb, t) in ix if tr & b.reach([t["t"]])]
    chk.ob(not late, "A13.translate-then-clip", "get_clipped_bbox", b.where(), "the use / reuse offset is applied before the clip box is intersected", f"the clip box is intersected (at {late}) before the use / reuse offset is applied: the clip region - given in the coordinates where the content is drawn - cuts the untranslated box, and the wrong part of the element counts towards the extent")


CLIP_ERRORS_OK = {"CircularRefError", "InvalidData", "ReferenceError"}


def clip_failure_modes(prog, chk):
    """following clip-path references fails only for the reviewed reasons (a cycle, a malformed url(), an unknown id): a
    clip path that merely has no box of its own leaves the element unclipped - it is not an error"""
    b = prog.body("svgdx::context::TransformerContext::get_clipped_bbox")
    chk.touch(b)
    made = set()
    for cb in [b] + [x for x in prog.bodies.values() if x.root == b.id]:
        for x, i, st in cb.all_stmts():
            rv = st.get("rv") or {}
            if rv.get("k") == "aggr" and rv.get("adt") == "svgdx::errors::SvgdxError" and rv.get("variant"):
                made.add(rv["variant"])
    extra = sorted(made - CLIP_ERRORS_OK)
    chk.ob(not extra, "A6.clip-failure-modes", "get_clipped_bbox", b.where(), f"get_clipped_bbox raises only {sorted(CLIP_ERRORS_OK)}", f"get_clipped_bbox can now fail with {extra}: an element whose clip path has no computable box (an empty <clipPath>, one holding only unsupported content) makes the transform fail instead of being left unclipped", by="table")


def clip_result_stored_whole(prog, chk):
    """when an element has a clip path, its contribution *is* the intersection with the clip box - including `None`
    when the two are disjoint: the Option returned by intersect() is stored as it is, never tested and re-wrapped"""
    b = prog.body("<svgdx::element::SvgElement as svgdx::transform::EventGen>::generate_events")
    chk.touch(b)
    calls = b.call_sites(R.path_endswith("BoundingBox::intersect"))
    chk.floor("A13.clip-none", len(calls), 1, "BoundingBox::intersect call in SvgElement::generate_events")
    for (bb, t, c) in calls:
        dest = t["dest"][0]
        tested = False
        work, seen = [dest], set()
        while work:
            l = work.pop()
            if l in seen:
                continue
            seen.add(l)
            for (ub, ui, node, how) in R.uses_of(b, l):
                if ui != R.TERM and "rv" in node:
                    rv = node["rv"]
                    if rv["k"] == "discr":
                        tested = True
                    elif rv["k"] in ("use", "ref") and not node["lhs"][1] and op_place(rv.get("op")) and not op_place(rv.get("op"))[1]:
                        # whole-value copy / move into a temporary (not into the element's named field)
                        if b.local_name(node["lhs"][0]) is None:
                            work.append(node["lhs"][0])
                elif ui == R.TERM and node.get("k") == "call" and "fn" in node and Callee(node["fn"]).path.split("::")[-1] in ("is_some", "is_none", "map", "and_then", "or", "unwrap_or", "filter"):
                    tested = True
        chk.ob(not tested, "A13.clip-none", "SvgElement:generate_events:intersect", b.where(bb, t.get("line")), "the clipped box is the result of intersect() as returned (None when element and clip path are disjoint)", "the result of intersect() is tested before it is stored: when element and clip path are disjoint the unclipped box is kept, so invisible content enlarges the root extent")


def transform_fold(prog, chk):
    """TransformAttr::apply maps the box through the transform list from the innermost (last) entry outwards, each entry
    applied to the running result by xfrm_translate / xfrm_scale (whose algebra is checked separately)"""
    b = prog.body("svgdx::transform_attr::TransformAttr::apply")
    chk.touch(b)
    nx = [(bb, t, c) for (bb, t, c) in b.call_sites(lambda c: c.decl_path == "std::iter::Iterator::next")]
    rev = any("std::iter::Rev<" in (c.self_ty or "") for (_, _, c) in nx)
    loops = b.loops
    ok_calls = True
    n = 0
    for name in ("xfrm_translate", "xfrm_scale"):
        cs = b.call_sites(lambda c, name=name: c.path.endswith("::" + name))
        if not cs:
            ok_calls = False
        for (bb, t, c) in cs:
            n += 1
            in_loop = any(bb in blocks for blocks in loops.values())
            recv = R.origin_local(b, t["args"][0])
            # result = result.xfrm(..): the destination flows back into the receiver local
            back = False
            if recv is not None:
                for (ub, ui, node, how) in R.uses_of(b, t["dest"][0]):
                    if ui != R.TERM and "lhs" in node and node["lhs"][0] == recv and not node["lhs"][1]:
                        back = True
            ok_calls = ok_calls and in_loop and back
    chk.floor("A13.transform-fold", n, 2, "xfrm_* call in TransformAttr::apply")
    chk.ob(rev and ok_calls, "A13.transform-fold", "TransformAttr::apply", b.where(), "the box is folded through the transform list in reverse order, each translate/scale applied to the running result", f"TransformAttr::apply no longer folds the box through xfrm_translate/xfrm_scale in reverse list order (reverse iteration: {rev}, per-entry application to the running result: {ok_calls}): a translate that precedes a scale is scaled as well (or applied in the wrong order)")


def config_is_incremental(prog, chk):
    """<config> changes only what it mentions: the new configuration starts as a clone of the one in force (border and
    scale given on the command line survive a <config> that sets something else)"""
    b = prog.body("<svgdx::transform::ConfigElement as svgdx::transform::EventGen>::generate_events")
    chk.touch(b)
    sc = b.call_sites(R.path_endswith("TransformerContext::set_config"))
    if len(sc) != 1:
        chk.anchor_missing("A10.config-incremental", f"ConfigElement: expected one set_config call, found {len(sc)}")
        return
    bb, t, c = sc[0]
    l = R.origin_local(b, t["args"][1])
    ok = False
    src = None
    if l is not None:
        for d in b.defs_of(l):
            if d[1] == R.TERM and "fn" in d[2]:
                cal = Callee(d[2]["fn"])
                src = cal.path
                if cal.decl_path == "std::clone::Clone::clone":
                    o = R.origin(b, d[2]["args"][0], carriers={})
                    ok = o[0] == "field" and o[1][1] and o[1][1][-1] == ".config"
    chk.ob(ok, "A10.config-incremental", "ConfigElement", b.where(bb, t.get("line")), "the configuration handed to set_config is a clone of context.config with the mentioned keys replaced", f"the configuration built by <config> does not start from the configuration in force (it starts from {src}): settings it does not mention - border, scale ... - are reset, so the root extent/size no longer follow the given configuration")



def path_relative_commands(prog, chk):
    """path data: a lower-case command takes its coordinates relative to the current point, its upper-case twin takes
    them as they are (SVG 1.1 8.3.1).  An arm of the dispatch on the command letter that serves both spellings of a
    letter (`'A' | 'a' =>`) treats them alike - unless the function asks which of the two it has
    (`is_ascii_lowercase()`, a comparison with the folded letter).  `Z` / `z` are the same command"""
    b = prog.maybe_body("svgdx::path::PathParser::process_instruction")
    if b is None:
        chk.anchor_missing("A15.path-relative", "PathParser::process_instruction not found")
        return
    chk.touch(b)
    sw = [(x, b.term(x)) for x in b.reachable if b.term(x)["k"] == "switch" and b.term(x).get("ty") == "char" and len(b.term(x)["vals"]) >= 4]
    if not sw:
        chk.undecided("A15.path-relative", "process_instruction", b.where(), "no dispatch on the command letter found")
        return
    asks = bool(b.call_sites(lambda c: c.path.split("::")[-1] in ("is_ascii_lowercase", "is_ascii_uppercase", "is_lowercase", "is_uppercase", "to_ascii_uppercase", "to_ascii_lowercase")))
    n = 0
    for x, st in sw:
        by_t = {}
        for v, tgt in st["vals"]:
            by_t.setdefault(tgt, set()).add(v)
        for tgt, vs in sorted(by_t.items()):
            both = sorted(chr(v) for v in vs if 0 < v < 128 and chr(v).isalpha() and chr(v).upper() not in ("Z",) and ord(chr(v).swapcase()) in vs and chr(v).isupper())
            n += 1
            if both and not asks:
                chk.bad("A15.path-relative", "process_instruction:" + "".join(both), b.where(tgt), f"one arm serves both `{both[0]}` and `{both[0].lower()}` and nothing in the function asks which spelling it has: the relative form is read as absolute (or the other way round) - the end point of `a 5 5 0 0 1 10 10` is 10,10 instead of current + 10,10, and the box of the path, the anchor of its text with it, is wrong")
    chk.ok("A15.path-relative", "scan", b.where(), f"{n} arm(s) of the command dispatch examined: none serves both spellings of a letter without asking which")
