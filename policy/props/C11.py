"""C11 Uniform positioning: equivalent constraints give identical geometry (attribute hygiene and wiring)."""
import re
from props import geomalg

from sa import rules as R, hirq, algebra as A
from sa.prog import P, Callee, op_place, op_const, const_str

EXPLANATION = (
    "(1) only native geometry survives: in each shape arm of set_position_attrs the removed names together with the shape's "
    "native attributes cover the whole geometry vocabulary {x,y,x1,y1,x2,y2,cx,cy,r,rx,ry,width,height,dx,dy,dw,dh}; (2) "
    "every shorthand (xy, cxy, xy1, xy2, wh, rxy, dxy, dwh, xy-loc) is popped, and its two components are inserted, first "
    "component to the x-like longhand and second to the y-like longhand of the reference table; (3) axis consistency: in the "
    "geometry code every value written to an x-axis attribute is computed only from x-axis quantities (and likewise for y), "
    "so an offset or coordinate of the other axis cannot leak in. (4) constraint algebra: every arm of Position::extent / three_point is an affine form of the "
    "constraints it binds and satisfies each of them (start = A, end = B, middle = (A+B)/2, length = B-A, checked exactly over "
    "the rationals on the syntax tree), all six constraint pairs are covered, and x_def / y_def / to_bbox pass the fields in "
    "the matching roles - so any two spellings that describe the same box produce the same box (up to float rounding); (5) "
    "every shorthand value is split by the one shared tokenizer (attr_split_cycle), so separators are understood alike. "
    "Undecided: float rounding, and which constraint wins when a shape is over-determined."
)
TRUSTED = []
ASSUMPTIONS = ["identifiers x*, cx, width, w, rx, dx, dw name x-axis quantities and y*, cy, height, h, ry, dy, dh y-axis quantities in the geometry code (the code base's own vocabulary)"]

EL = "svgdx::element::SvgElement"
G = {"x", "y", "x1", "y1", "x2", "y2", "cx", "cy", "r", "rx", "ry", "width", "height", "dx", "dy", "dw", "dh"}
NATIVE = {
    "rect": {"x", "y", "width", "height", "rx", "ry"},
    "circle": {"cx", "cy", "r"},
    "ellipse": {"cx", "cy", "rx", "ry"},
    "line": {"x1", "y1", "x2", "y2"},
}
SHORTHANDS = {"xy": None, "cxy": ("cx", "cy"), "xy1": ("x1", "y1"), "xy2": ("x2", "y2"), "dxy": ("dx", "dy"), "wh": ("width", "height"), "rxy": ("rx", "ry"), "dwh": ("dw", "dh")}
XAX = re.compile(r"^(x\d?|cx|width|w|rx|dx|dw|x_attr|new_w|tdx|t_dx|exp_x)$")
YAX = re.compile(r"^(y\d?|cy|height|h|ry|dy|dh|y_attr|new_h|tdy|t_dy|exp_y)$")


def axis(name):
    if name is None:
        return None
    if XAX.match(name):
        return "x"
    if YAX.match(name):
        return "y"
    return None


def run(prog, chk):
    chk.rule(native_only, prog, chk)
    chk.rule(shorthands, prog, chk)
    chk.rule(axis_consistency, prog, chk)
    chk.rule(constraint_algebra, prog, chk)
    chk.rule(single_tokenizer, prog, chk)
    chk.rule(number_reader_rejects_only_what_parse_rejects, prog, chk)
    from props import geomalg
    chk.rule(geomalg.check_sites, prog, chk, "C11")
    chk.rule(geomalg.check_float_truncation, prog, chk)  # no float is cut down to an integer on the way (a truncated distance / coordinate makes different candidates tie)
    chk.rule(emission_algebra, prog, chk)
    chk.rule(extraction_algebra, prog, chk)
    chk.rule(shape_pipeline, prog, chk)
    from props import geomalg as _g
    chk.rule(_g.check, prog, chk, "C11", floor=20)  # the box primitives the constraint algebra is written in
    from props import strops
    chk.rule(strops.check_for, prog, chk, "C11")
    chk.rule(strops.blank_only_separators, prog, chk)  # a pair / list cut at blanks is cut at tabs and newlines too
    from props import C04 as _C04
    chk.rule(_C04.formatter_integer_shortcut_is_exact, prog, chk)
    chk.rule(_C04.formatter_trims_one_character_class_at_a_time, prog, chk)  # what is written is the computed number: its integer digits survive the formatter
    chk.rule(strops.check_number_formatting, prog, chk)  # results are exact up to the 3-decimal *output* rounding  # A14.str-ops: how this property's strings are cut up is a reviewed, frozen inventory
    from props import C03 as _C03
    chk.rule(_C03.graphics_vocabulary, prog, chk)  # each of rect / circle / ellipse / line is laid out also when written with a separate end tag
    from props import strops as _so
    chk.rule(_so.affix_test_sees_what_parser_sees, prog, chk)  # `dw="50% "` and `dw="50%"` are the same shorthand value
    from props import C19 as _C19t
    chk.rule(_C19t.text_not_altered, prog, chk)  # `<rect xy=.. wh=..>NEWLINE</rect>` is the rect: what decides "only text inside" reads the text as written


def _arms(owner):
    arms = {}
    for m, lst in hirq.str_matches(owner):
        for ls, a in lst:
            for l in ls:
                if l != hirq.WILD:
                    arms.setdefault(l, a["body"])
    return arms


def native_only(prog, chk):
    sp = prog.body("svgdx::position::Position::set_position_attrs")
    chk.touch(sp)
    arms = _arms(prog.hir[sp.id])
    for shape, native in NATIVE.items():
        arm = arms.get(shape)
        removed = set()
        if arm:
            for n in hirq.exprs(arm, "MethodCall"):
                if n["name"] == "remove_attrs":
                    for l in hirq.exprs(n["args"][0], "Lit"):
                        s = hirq.lit_str(l)
                        if s:
                            removed.add(s)
        if not removed:
            # not written as remove_attrs(&[..]) inside the shape's own match arm (per-shape helpers): ask the evaluator
            # which literal names reach remove_attrs when the element is of this shape
            try:
                ev = A.Evaluator(prog, watch=("remove_attrs",), name_case=shape, transparent=("strp", "fstr"))
                ev.summary("svgdx::position::Position::set_position_attrs")
                for c_ in ev.calls:
                    a0 = c_["args"][0] if c_["args"] else None
                    if a0 is not None and not A.is_form(a0) and a0[0] == "tup":
                        removed |= {x[1] for x in a0[1] if x is not None and not A.is_form(x) and x[0] == "str"}
            except Exception:  # noqa: BLE001
                pass
            if not removed:
                chk.undecided("A14.native-only", shape, sp.where(), f"{shape}: the names handed to remove_attrs cannot be read (neither from the shape's match arm nor by evaluation)")
                continue
            arm = arm or True
        left = sorted(G - native - removed)
        chk.ob(arm is not None and not left, "A14.native-only", shape, sp.where(), f"{shape}: every non-native geometry attribute is removed ({len(removed)} names)", f"{shape}: geometry attributes {left} are neither native nor removed: they would be left on the output element")
        wrong = sorted(removed & native)
        chk.ob(not wrong, "A14.native-only", shape + ":keeps-native", sp.where(), f"{shape}: no native attribute is removed", f"{shape}: native attributes {wrong} are removed")


def shorthands(prog, chk):
    popped = {}
    pairs = {}
    for fn in ("expand_compound_pos", "expand_compound_size", "resolve_size_delta"):
        b = prog.body(EL + "::" + fn)
        chk.touch(b)
        h = prog.hir[b.id]
        for iff in hirq.exprs(h["body"], "If"):
            c = iff["cond"]
            keys = []
            for m in hirq.exprs(c, "MethodCall"):
                if m["name"] in ("pop_attr", "pop") and m["args"]:
                    s = hirq.lit_str(m["args"][0])
                    if s:
                        keys.append(s)
            if not keys:
                continue
            for k in keys:
                popped[k] = fn
            # let (a, b) = split(..); insert_first(K1, a); insert_first(K2, b)
            tup = None
            for st in hirq.walk(iff["then"]):
                if st.get("k") == "Let" and st.get("pat", {}).get("p") == "tuple" and len(st["pat"]["pats"]) == 2:
                    names = [p.get("name") for p in st["pat"]["pats"]]
                    if all(names) and tup is None:
                        tup = names
            ins = []
            for m in hirq.exprs(iff["then"], "MethodCall"):
                if m["name"] in ("insert_first", "insert", "set_attr", "set_default_attr") and len(m["args"]) == 2:
                    k = hirq.lit_str(m["args"][0])
                    fc = hirq.field_chain(m["args"][1])
                    ins.append((k, fc[0] if fc else None, hirq.field_chain(m["args"][0])))
            if tup and len(ins) >= 2:
                pairs[keys[0]] = (tup, ins)
        for m in hirq.exprs(h["body"], "MethodCall"):
            if m["name"] in ("pop_attr", "pop") and m["args"]:
                s = hirq.lit_str(m["args"][0])
                if s:
                    popped.setdefault(s, fn)
    # the same question asked of the evaluated functions (helpers inlined, table-driven loops run): which literal
    # attribute names reach pop / pop_attr when every attribute is present
    per_shape = {}
    for nm in ("rect", "ellipse", "line"):
        per_shape[nm] = set()
        for fn in ("expand_compound_pos", "expand_compound_size", "resolve_size_delta"):
            ev = A.Evaluator(prog, watch=("pop", "pop_attr"), opaque=[EL + "::split_compound_attr"], name_case=nm)
            try:
                ev.summary(EL + "::" + fn)
            except Exception:
                per_shape[nm] = None
                break
            for c in ev.calls:
                a0 = c["args"][0] if c["args"] else None
                if a0 is not None and not A.is_form(a0) and a0[0] == "str":
                    popped.setdefault(a0[1], fn)
                    per_shape[nm].add(a0[1])
    need = set(SHORTHANDS) | {"xy-loc", "dw", "dh"}
    missing = sorted(need - set(popped))
    # a shorthand is consumed on every kind of element - also where it has no meaning (rxy on a rect): otherwise it
    # is copied to the output as an unknown attribute
    for nm, got in sorted(per_shape.items()):
        if got is None or not got:
            continue
        gone = sorted(need - got)
        chk.ob(not gone, "A14.shorthand-consumed", nm, "src/element.rs", f"<{nm}>: every shorthand is removed from the element", f"<{nm}> keeps the shorthand attribute(s) {gone}: they are only consumed for some element names and reach the output as they are for the others")
    chk.ob(not missing, "A14.shorthand-consumed", "all", "src/element.rs", f"every shorthand ({sorted(need)}) is popped from the element", f"shorthand attributes never consumed: {missing}")
    for sh, ref in SHORTHANDS.items():
        got = pairs.get(sh)
        if got is None:
            # not written as `let (a, b) = split(..); insert(K1, a); insert(K2, b)`: the wiring of this shorthand is
            # decided by the evaluated sites shorthand-positions / shorthand-sizes (A17) alone
            chk.ok("A15.shorthand-wiring", sh, "src/element.rs", f"`{sh}`: no literal (first, second) insertion pair in the source; decided by the A17 sites shorthand-positions / shorthand-sizes")
            continue
        tup, ins = got
        first = [k for (k, src, kvar) in ins if src == tup[0]]
        second = [k for (k, src, kvar) in ins if src == tup[1]]
        if ref is None:
            # xy: keys come from the xy-loc table (x_attr, y_attr): first component -> x_attr, second -> y_attr
            kv1 = [kvar for (k, src, kvar) in ins if src == tup[0]]
            kv2 = [kvar for (k, src, kvar) in ins if src == tup[1]]
            ok = kv1 == [["x_attr"]] and kv2 == [["y_attr"]]
            chk.ob(ok, "A15.shorthand-wiring", sh, "src/element.rs", "xy: first value goes to the x-anchor attribute, second to the y-anchor attribute selected by xy-loc", f"xy: first -> {kv1}, second -> {kv2}")
        else:
            chk.ob(first == [ref[0]] and second == [ref[1]], "A15.shorthand-wiring", sh, "src/element.rs", f"{sh}: first value -> {ref[0]}, second -> {ref[1]}", f"{sh}: first value -> {first}, second -> {second} (expected {ref})")


def let_table(owner):
    """{local name: (init expr, tuple position or None)} for `let` / `if let` bindings of the function"""
    tbl = {}

    def bind(pat, init, pos=None):
        p = pat.get("p")
        if p == "bind":
            tbl.setdefault(pat["name"], (init, pos))
        elif p == "tuple":
            for i, sub in enumerate(pat["pats"]):
                if isinstance(init, dict) and init.get("k") == "Tup" and i < len(init["items"]):
                    bind(sub, init["items"][i], None)
                else:
                    bind(sub, init, i)
        elif p in ("tstruct",):
            for sub in pat.get("pats", []):
                bind(sub, init, pos)
        elif p == "ref":
            bind(pat["sub"], init, pos)

    for st in hirq.walk(owner["body"]):
        if st.get("k") in ("Let", "LetCond") and isinstance(st.get("init"), dict) and isinstance(st.get("pat"), dict):
            bind(st["pat"], st["init"])
    # closure parameters are bound to whatever the closure is applied to: neutral
    for cl in hirq.exprs(owner["body"], "Closure"):
        for p in cl.get("params", []):
            for q in hirq.walk(p):
                if q.get("p") == "bind":
                    tbl[q["name"]] = ({"k": "Neutral"}, None)
    return tbl


def axis_of_expr(n, lets, depth=4, seen=None):
    """set of axes ('x','y') an expression depends on, resolving locals through their let bindings"""
    seen = seen or set()
    out = set()
    for name in _idents(n):
        a = None
        if name in lets and name not in seen and depth > 0:
            init, pos = lets[name]
            if isinstance(init, dict) and init.get("k") == "Neutral":
                continue
            ty = init.get("ty", "") if isinstance(init, dict) else ""
            pairish = ty.startswith("(") and ty.count(",") == 1 and ("f32" in ty or "String" in ty or "str" in ty)
            if pos is not None and pairish:
                a = {"x"} if pos == 0 else {"y"}
            else:
                sub = axis_of_expr(init, lets, depth - 1, seen | {name})
                a = sub if sub else None
        if a is None:
            ax = axis(name)
            a = {ax} if ax else set()
        out |= a
    return out


def _idents(n):
    """axis-carrying identifiers used in an expression: locals and last field names"""
    out = []
    for p in hirq.exprs(n, "Path"):
        l = (p.get("res") or {}).get("local")
        if l:
            out.append(l)
    for f in hirq.exprs(n, "Field"):
        out.append(f["name"])
    # attribute names read
    for m in hirq.exprs(n, "MethodCall"):
        if m["name"] in ("get_attr", "get", "pop_attr") and m["args"]:
            s = hirq.lit_str(m["args"][0])
            if s:
                out.append(s)
    return out


def axis_consistency(prog, chk):
    fns = [
        "svgdx::position::Position::set_position_attrs",
        EL + "::position_from_bbox",
        EL + "::resolve_size_delta",
        EL + "::expand_compound_pos",
        EL + "::expand_compound_size",
    ]
    n = 0
    for fn in fns:
        b = prog.maybe_body(fn)
        if b is None:
            chk.anchor_missing("A15.axis-consistency", fn + " not found")
            continue
        chk.touch(b)
        h = prog.hir[b.id]
        seen_keys = {}
        for m in hirq.exprs(h["body"], "MethodCall"):
            if m["name"] not in ("set_attr", "insert", "insert_first", "set_default_attr") or len(m["args"]) != 2:
                continue
            key = hirq.lit_str(m["args"][0])
            kfc = hirq.field_chain(m["args"][0])
            ka = axis(key) or (axis(kfc[-1]) if kfc else None)
            if ka is None:
                continue
            n += 1
            kname = key or kfc[-1]
            seen_keys[kname] = seen_keys.get(kname, 0) + 1
            ids = _idents(m["args"][1])
            lets = let_table(h)
            axes = axis_of_expr(m["args"][1], lets)
            wrong = sorted(axes - {ka})
            chk.ob(
                not wrong,
                "A15.axis-consistency",
                f"{b.short}:{kname}#{seen_keys[kname]}",
                b.where(line=m.get("line")),
                f"`{key or kfc[-1]}` ({ka}-axis) is computed from {ka}-axis quantities only ({sorted(set(i for i in ids if axis(i)))})",
                f"`{key or kfc[-1]}` is a {ka}-axis attribute but its value depends on {wrong}-axis quantities (identifiers {sorted(set(ids))}, resolved through their let bindings): a quantity of the other axis leaks in",
            )
    chk.floor("A15.axis-consistency", n, 30, "geometry attribute write with a literal axis key")


ROLE_OF_PARAM = {"start": "start", "end": "end", "middle": "middle", "length": "length", "extent": "length"}
ROLE_OF_FIELD = {"xmin": ("x", "start"), "xmax": ("x", "end"), "cx": ("x", "middle"), "width": ("x", "length"), "ymin": ("y", "start"), "ymax": ("y", "end"), "cy": ("y", "middle"), "height": ("y", "length")}


def _alts(pat):
    if pat.get("p") == "or":
        out = []
        for q in pat["pats"]:
            out += _alts(q)
        return out
    return [pat]


def _pair_of(body):
    """the (A, B) expressions an arm yields: Some((A, B)) / (A, B) / a block ending in one of those"""
    n = body
    while n.get("k") == "Block" and n.get("expr"):
        n = n["expr"]
    if n.get("k") == "Call" and hirq.callee_path(n).split("::")[-1] == "Some" and n["args"]:
        n = n["args"][0]
    if n.get("k") == "Tup" and len(n["items"]) == 2:
        return n["items"]
    return None


def constraint_algebra(prog, chk):
    from sa import linform as L
    from fractions import Fraction

    n_arms = 0
    for fn, need_pairs in (("extent", True), ("three_point", False)):
        b = prog.body("svgdx::position::Position::" + fn)
        chk.touch(b)
        h = prog.hir[b.id]
        params = [p.get("name") for p in h["params"]]
        target = None
        for m in hirq.exprs(h["body"], "Match"):
            sc = m["scrut"]
            if sc.get("k") == "Tup" and all(it.get("k") == "Path" and (it.get("res") or {}).get("local") in ROLE_OF_PARAM for it in sc["items"]):
                target = m
                break
        if target is None:
            chk.anchor_missing("A17.constraint-algebra", f"Position::{fn}: match over the (start, end, middle, length) parameters not found")
            continue
        roles = [ROLE_OF_PARAM[it["res"]["local"]] for it in target["scrut"]["items"]]
        fixed = {}  # constraints that always hold (three_point's extent parameter)
        for p in params:
            if p == "extent":
                fixed["length"] = {p: Fraction(1)}
        covered = set()
        for arm in target["arms"]:
            for alt in _alts(arm["pat"]):
                if alt.get("p") != "tuple":
                    continue
                binds = {}
                for i, q in enumerate(alt["pats"]):
                    if q.get("p") == "tstruct" and q.get("pats") and q["pats"][0].get("p") == "bind":
                        binds[roles[i]] = {q["pats"][0]["name"]: Fraction(1)}
                if not binds:
                    continue
                n_arms += 1
                key = f"{fn}:" + "+".join(sorted(binds))
                pair = _pair_of(arm["body"])
                where = b.where(line=arm.get("line"))
                if pair is None:
                    chk.bad("A17.constraint-algebra", key, where, f"Position::{fn}: the arm binding {sorted(binds)} does not yield a (start, end) pair the rule can read")
                    continue
                A, B = L.lin(pair[0]), L.lin(pair[1])
                if A is None or B is None:
                    chk.bad("A17.constraint-algebra", key, where, f"Position::{fn}: the arm binding {sorted(binds)} is not an affine combination of its constraints (min/max/abs or a call is applied): equivalent spellings of one box no longer agree")
                    continue
                cons = dict(fixed)
                cons.update(binds)
                bad = []
                for role, v in cons.items():
                    got = {"start": A, "end": B, "middle": L._scale(L._add(A, B), Fraction(1, 2)), "length": L._add(B, A, -1)}[role]
                    if not L.equal(got, v):
                        bad.append(f"{role}: result gives {L.show(got)}, constraint is {L.show(v)}")
                covered.add(frozenset(binds))
                chk.ob(not bad, "A17.constraint-algebra", key, where, f"Position::{fn} arm {sorted(binds)}: A = {L.show(A)}, B = {L.show(B)} satisfies every bound constraint exactly", f"Position::{fn} arm {sorted(binds)} yields A = {L.show(A)}, B = {L.show(B)} which violates its own constraints ({'; '.join(bad)}): this spelling places the shape differently from the equivalent ones")
        if need_pairs:
            import itertools
            want = {frozenset(c) for c in itertools.combinations(["start", "end", "middle", "length"], 2)}
            miss = sorted("+".join(sorted(x)) for x in want - covered)
            chk.ob(not miss, "A17.constraint-algebra", f"{fn}:coverage", b.where(), "all six pairs of {start, end, middle, length} determine the extent", f"constraint pairs no longer handled by Position::{fn}: {miss}")
        else:
            want = {frozenset([r]) for r in ("start", "middle", "end")}
            miss = sorted("+".join(sorted(x)) for x in want - covered)
            chk.ob(not miss, "A17.constraint-algebra", f"{fn}:coverage", b.where(), "each of start / middle / end together with the extent determines the pair", f"single constraints no longer handled by Position::{fn}: {miss}")
    chk.floor("A17.constraint-algebra", n_arms, 12, "constraint arm of extent / three_point")
    # wiring of the call sites: fields are passed in the role of the parameter they bind, one axis per call
    n_calls = 0
    for b in prog.bodies.values():
        if not b.path.startswith("svgdx::position::Position::") or b.id not in prog.hir:
            continue
        h = prog.hir[b.id]
        for mc in hirq.exprs(h["body"], "MethodCall"):
            if mc["name"] not in ("extent", "three_point"):
                continue
            cb_ = prog.maybe_body("svgdx::position::Position::" + mc["name"])
            if cb_ is None or cb_.id not in prog.hir:
                continue
            callee = prog.hir[cb_.id]
            cparams = [p.get("name") for p in callee["params"]][1:]
            n_calls += 1
            axes = set()
            wrong = []
            read = 0
            for i, a in enumerate(mc["args"]):
                fc = hirq.field_chain(a)
                if not fc or fc[-1] not in ROLE_OF_FIELD or i >= len(cparams) or cparams[i] not in ROLE_OF_PARAM:
                    continue
                read += 1
                ax, role = ROLE_OF_FIELD[fc[-1]]
                axes.add(ax)
                if ROLE_OF_PARAM.get(cparams[i]) != role:
                    wrong.append(f"{fc[-1]} passed as `{cparams[i]}`")
            key = f"{b.short}:{mc['name']}#{n_calls}"
            if read < 2:
                # the constraints are not handed over as plain `self.field` arguments to parameters of the reviewed
                # names (a struct carries them, the helper was renamed): the wiring is decided end to end by the A17
                # site position-to-bbox and the emission / extraction algebra
                chk.undecided("A15.constraint-wiring", key, b.where(line=mc.get("line")), f"{mc['name']}() is not called with plain position fields for parameters of the reviewed names; decided by the A17 site position-to-bbox")
                continue
            chk.ob(not wrong and len(axes) == 1, "A15.constraint-wiring", key, b.where(line=mc.get("line")), f"{mc['name']}() receives {sorted(axes)}-axis fields in their own roles", f"{b.short}: {mc['name']}() is called with {wrong or 'fields of both axes ' + str(sorted(axes))}")
    if n_calls == 0:
        chk.undecided("A15.constraint-wiring", "calls", "src/position.rs", "no call of Position::extent / three_point by those names; decided by the A17 site position-to-bbox")


def number_reader_rejects_only_what_parse_rejects(prog, chk):
    """strp() is `trim` + `str::parse::<f32>`: the only way it fails is the parse failing.  A rejection written out
    in strp itself (an `Err(..)` built there, outside the closure that converts the parse error) turns away spellings
    the f32 grammar accepts - `.5`, `+5`, `1e3` - and with them every attribute value written that way"""
    b = prog.maybe_body("svgdx::types::strp")
    if b is None:
        chk.anchor_missing("A13.number-reader", "types::strp not found")
        return
    chk.touch(b)
    parses = b.call_sites(lambda c: c.path.endswith("<impl str>::parse") and ("f32" in c.inst or "f64" in c.inst))
    own_errs = [x for x, i, s_ in b.all_stmts() if s_.get("rv", {}).get("k") == "aggr" and s_["rv"].get("adt") == "std::result::Result" and s_["rv"].get("variant") == "Err"]
    if not parses:
        chk.undecided("A13.number-reader", "strp", b.where(), "strp() does not call str::parse::<f32>: how it reads a number is not read here")
        return
    chk.ob(not own_errs, "A13.number-reader", "strp", b.where(own_errs[0]) if own_errs else b.where(), "strp() fails only where str::parse::<f32> fails (no rejection of its own)", f"strp() builds an error of its own ({', '.join(b.where(x) for x in own_errs[:3])}) besides the failure of str::parse::<f32>: spellings the f32 grammar accepts (`.5`, `+5`, `1e3`) are turned away, and a shape whose geometry is written that way is no longer positioned")


def single_tokenizer(prog, chk):
    """every path of split_compound_attr that produces a pair from a literal value goes through attr_split_cycle"""
    b = prog.body(EL + "::split_compound_attr")
    chk.touch(b)
    toks = {bb for (bb, t, c) in b.call_sites(R.path_endswith("types::attr_split_cycle"))}
    sw = [(bb, t) for (bb, t, c) in b.call_sites(lambda c: c.path.split("::")[-1] == "starts_with")]
    if not toks or len(sw) != 1:
        chk.anchor_missing("A16.single-tokenizer", f"split_compound_attr: attr_split_cycle calls ({len(toks)}) / reference-prefix test ({len(sw)}) not found")
        return
    st = b.term(sw[0][1]["t"])
    if st["k"] != "switch":
        chk.anchor_missing("A16.single-tokenizer", "split_compound_attr: the reference-prefix test does not branch")
        return
    tt, ft = R.switch_targets_bool(st)
    rets = set(b.return_blocks)
    leak = b.reach([ft], avoid=toks) & rets
    chk.ob(not leak, "A16.single-tokenizer", "split_compound_attr:literal", b.where(), "a shorthand value that is not a reference is always split by attr_split_cycle (the shared tokenizer: blanks and/or commas)", "split_compound_attr can return a pair for a literal value without going through attr_split_cycle: some separator spelling (e.g. `1,2`) is no longer split like the others")


PAIRS = {
    ("start", "end"): ("S", "E"),
    ("start", "middle"): ("S", "2*M - S"),
    ("end", "middle"): ("2*M - E", "E"),
    ("start", "length"): ("S", "S + L"),
    ("end", "length"): ("E - L", "E"),
    ("middle", "length"): ("M - L/2", "M + L/2"),
}
FIELD = {"x": {"start": "xmin", "end": "xmax", "middle": "cx", "length": "width"}, "y": {"start": "ymin", "end": "ymax", "middle": "cy", "length": "height"}}
SYM = {"start": "S", "end": "E", "middle": "M", "length": "L"}


def emission_algebra(prog, chk):
    """end to end: for rect / circle / ellipse and every pair of constraints per axis (6 x 6), with and without dx/dy,
    the geometry attributes written by Position::set_position_attrs are - as exact terms - the ones the defining
    equations give: the box [A, B] determined by the two constraints, moved by (dx, dy).  Evaluated with the affine
    abstract evaluator through to_bbox / x_def / extent / center / locspec; nothing is executed."""
    from sa import algebra as A
    from fractions import Fraction

    path = "svgdx::position::Position::set_position_attrs"
    b = prog.body(path)
    chk.touch(b)
    n = 0
    bad = []
    for shape in ("rect", "circle", "ellipse", "use", "image", "line"):
        for px, (ax, bx) in PAIRS.items():
            for py, (ay, by) in PAIRS.items():
                for with_d in (True, False):
                    fields = {f: ("none",) for ax_ in FIELD.values() for f in ax_.values()}
                    for role in px:
                        fields[FIELD["x"][role]] = ("some", {SYM[role] + "x": Fraction(1)})
                    for role in py:
                        fields[FIELD["y"][role]] = ("some", {SYM[role] + "y": Fraction(1)})
                    fields["dx"] = ("some", {"DX": Fraction(1)}) if with_d else ("none",)
                    fields["dy"] = ("some", {"DY": Fraction(1)}) if with_d else ("none",)
                    fields["shape"] = geomalg.ctor_field(prog, "svgdx::position::Position::new", shape, "shape")
                    # a line keeps end points that are written as x1 / y1 / x2 / y2 (it has a direction); the case here
                    # is the one where none is - the position came from x / y / xy, a centre, a size, another element
                    ev = A.Evaluator(prog, name_case=shape, transparent=("strp", "fstr"), watch=("set_attr",), absent=(("x1", "y1", "x2", "y2") if shape == "line" else ()))
                    ev.summary(path, self_value=("struct", fields))
                    got = {}
                    for c in ev.calls:
                        if len(c["args"]) >= 2 and c["args"][0] is not None and not A.is_form(c["args"][0]) and c["args"][0][0] == "str":
                            got[c["args"][0][1]] = c["args"][1]
                    sx = lambda e: A.ref(_sub_axis(e, "x"))
                    sy = lambda e: A.ref(_sub_axis(e, "y"))
                    Ax, Bx, Ay, By = sx(ax), sx(bx), sy(ay), sy(by)
                    dx = {"DX": Fraction(1)} if with_d else {}
                    dy = {"DY": Fraction(1)} if with_d else {}
                    L = A.L
                    half = lambda a, c: L._scale(L._add(a, c), Fraction(1, 2))
                    if shape in ("rect", "image"):
                        want = {"x": L._add(Ax, dx), "y": L._add(Ay, dy), "width": L._add(Bx, Ax, -1), "height": L._add(By, Ay, -1)}
                    elif shape == "use":
                        want = {"x": L._add(Ax, dx), "y": L._add(Ay, dy)}  # a <use> is placed, never sized
                    elif shape == "line":
                        want = {"x1": L._add(Ax, dx), "y1": L._add(Ay, dy), "x2": L._add(Bx, dx), "y2": L._add(By, dy)}
                    elif shape == "circle":
                        want = {"cx": L._add(half(Ax, Bx), dx), "cy": L._add(half(Ay, By), dy), "r": L._scale(L._add(Bx, Ax, -1), Fraction(1, 2))}
                    else:
                        want = {"cx": L._add(half(Ax, Bx), dx), "cy": L._add(half(Ay, By), dy), "rx": L._scale(L._add(Bx, Ax, -1), Fraction(1, 2)), "ry": L._scale(L._add(By, Ay, -1), Fraction(1, 2))}
                    n += 1
                    diffs = [k for k in sorted(set(want) | set(got)) if not A.equal(got.get(k), want.get(k))]
                    if diffs:
                        k = diffs[0]
                        bad.append(f"{shape} x:{'+'.join(px)} y:{'+'.join(py)}{' dx/dy' if with_d else ''}: `{k}` is {A.canon(got.get(k))}, the constraints give {A.canon(want.get(k))}")
    chk.floor("A17.emission", n, 432, "shape x constraint-pair x constraint-pair x offset case of set_position_attrs")
    chk.ob(not bad, "A17.emission", "set_position_attrs", b.where(), f"all {n} cases (6 shapes x 36 constraint combinations x with/without dx,dy) write exactly the geometry the constraints define", f"{len(bad)} of {n} cases disagree with the defining equations, e.g. {bad[0] if bad else ''}" + (f"; {bad[1]}" if len(bad) > 1 else ""))


def _sub_axis(expr, axis):
    import re
    return re.sub(r"\b([SEML])\b", lambda m: m.group(1) + axis, expr)


def extraction_algebra(prog, chk):
    """From<&SvgElement> for Position reads every spelling of a constraint into the field of its role: x / x1 -> start,
    x2 -> end, cx -> middle, width | 2r | 2rx -> length (and the y counterparts), for every pair of constraints per
    axis and every spelling the shape admits - including mixed spellings (an ellipse with rx and height)."""
    from sa import algebra as A
    from fractions import Fraction
    import itertools

    path = "<svgdx::position::Position as std::convert::From<&svgdx::element::SvgElement>>::from"
    b = prog.body(path)
    chk.touch(b)
    spell = {
        "rect": {"x": {"start": ["x"], "end": ["x2"], "middle": ["cx"], "length": ["width"]}, "y": {"start": ["y"], "end": ["y2"], "middle": ["cy"], "length": ["height"]}},
        "circle": {"x": {"start": ["x"], "end": ["x2"], "middle": ["cx"], "length": ["width", "r"]}, "y": {"start": ["y"], "end": ["y2"], "middle": ["cy"], "length": ["height", "r"]}},
        "ellipse": {"x": {"start": ["x"], "end": ["x2"], "middle": ["cx"], "length": ["width", "rx"]}, "y": {"start": ["y"], "end": ["y2"], "middle": ["cy"], "length": ["height", "ry"]}},
        "line": {"x": {"start": ["x1", "x"], "end": ["x2"], "middle": ["cx"], "length": ["width"]}, "y": {"start": ["y1", "y"], "end": ["y2"], "middle": ["cy"], "length": ["height"]}},
    }
    n = 0
    bad = []
    for shape, sp in spell.items():
        for px in PAIRS:
            for py in PAIRS:
                xs = [sp["x"][r] for r in px]
                ys = [sp["y"][r] for r in py]
                for combo in itertools.product(*xs, *ys):
                    present = set(combo)
                    ev = A.Evaluator(prog, name_case=shape, transparent=("strp", "fstr"), present=present)
                    summ = ev.summary(path)
                    got = summ["ret"] if summ else None
                    want = {f: ("none",) for ax_ in FIELD.values() for f in ax_.values()}
                    want.update(dx=("none",), dy=("none",), shape=geomalg.ctor_field(prog, "svgdx::position::Position::new", shape, "shape"))
                    for axis, roles, attrs in (("x", px, combo[:2]), ("y", py, combo[2:])):
                        for role, attr in zip(roles, attrs):
                            v = {"@" + attr: Fraction(2 if attr in ("r", "rx", "ry") else 1)}
                            want[FIELD[axis][role]] = ("some", v)
                    # a circle's `r` spells both lengths at once
                    if shape == "circle" and "r" in present:
                        for f, other in (("width", "width"), ("height", "height")):
                            want[f] = ("any",) if other in present else ("some", {"@r": Fraction(2)})
                    n += 1
                    g = got[1] if (got is not None and not A.is_form(got) and got[0] == "struct") else {}
                    diffs = [k for k in sorted(want) if not A.equal(g.get(k, ("none",)), want[k])]
                    if diffs:
                        k = diffs[0]
                        bad.append(f"<{shape} {' '.join(sorted(present))}>: Position.{k} is {A.canon(g.get(k))}, expected {A.canon(want[k])}")
    chk.floor("A17.extraction", n, 200, "shape x constraint pair x spelling case of Position::from")
    chk.ob(not bad, "A17.extraction", "Position::from", b.where(), f"all {n} shape / constraint-pair / spelling cases read each attribute into the field of its role", f"{len(bad)} of {n} cases are read wrongly, e.g. {bad[0] if bad else ''}" + (f"; {bad[1]}" if len(bad) > 1 else ""))


def shape_pipeline(prog, chk):
    """a graphics element reaches the output through the shape pipeline (SvgElement::generate_events -> resolve_position
    -> set_position_attrs), whatever its XML spelling: in Container::generate_events the raw `Start(element)` emission must
    be unreachable for a graphics element (a) without content, (b) with child elements"""
    b = prog.body("<svgdx::transform::Container as svgdx::transform::EventGen>::generate_events")
    chk.touch(b)
    raw = {x for x, i, st in b.all_stmts() if st.get("rv", {}).get("k") == "aggr" and st["rv"].get("adt") == "svgdx::events::OutputEvent" and st["rv"].get("variant") == "Start"}
    is_g = lambda c: c.path == "svgdx::element::SvgElement::is_graphics_element"
    is_e = lambda c: c.path == "svgdx::events::InputList::is_empty"
    if not raw or not b.call_sites(is_g):
        chk.anchor_missing("A13.shape-pipeline", "Container::generate_events: raw Start emission / is_graphics_element() test not found")
        return
    a = R.may_reach(b, raw, R.call_result_assumption(b, [(is_g, True), (is_e, True)]))
    chk.ob(not a, "A13.shape-pipeline", "Container:empty-content", b.where(), "a graphics element written `<rect ..></rect>` (no content) is processed as a shape, like `<rect ../>`", "a graphics element with separate start and end tags but no content is emitted by Container as written: it is never positioned and its svgdx attributes (xy, wh, surround, margin ...) are copied to the output")
    c = R.may_reach(b, raw, R.call_result_assumption(b, [(is_g, True), (is_e, False)]))
    chk.ob(not c, "A13.shape-pipeline", "Container:child-elements", b.where(), "a graphics element with child elements is processed as a shape", "a graphics element that has child elements (`<rect xy=.. wh=..><title>..</title></rect>`) is emitted by Container as written: it is not positioned and its svgdx attributes stay in the output")
