"""C16 Loops and conditionals render exactly what their unrolling renders (control skeleton)."""
import re

from sa import rules as R
from sa import discharge as D
from sa.prog import P, Callee, op_place, op_const, const_str, const_int
from props.C01_loops import every_cycle_passes

EXPLANATION = (
    "Decides the control skeleton of <loop>, <for> and <if> in MIR: the loop parameters (count, loop-var, start, step) and the "
    "<for> data list are evaluated once, before the loop; `count` is tested at the top of each pass and leaves the loop; the "
    "`while` condition is evaluated before the body in every pass and its false edge leaves the loop; the `until` condition is "
    "evaluated after the body (so the body runs at least once) and its true edge leaves the loop; the loop variable is bound "
    "before the body and advanced by the step after it; each pass processes the stored inner events unchanged and appends its "
    "output in iteration order; <for> binds the item (and index) before the body, once per item; <if> processes its body only "
    "on the true edge of its test and otherwise returns nothing; a condition is true iff its value is != 0. "
    "Undecided: equality with the manually unrolled document (needs the two outputs)."
    " Also: the loop variable is assigned only in passes that render; start/step defaults are independent (A17 reference); <loop>/<for> accumulate their extent with BoundingBoxBuilder."
)
TRUSTED = ["Vec::into_iter yields the items in order"]
ASSUMPTIONS = []

LOOP = "<svgdx::loop_el::LoopElement as svgdx::transform::EventGen>::generate_events"
FOR = "<svgdx::loop_el::ForElement as svgdx::transform::EventGen>::generate_events"
IF = "<svgdx::transform::IfElement as svgdx::transform::EventGen>::generate_events"
PE = "svgdx::transform::process_events"
EVAL = ("svgdx::expression::eval_attr", "svgdx::expression::eval_condition", "svgdx::expression::eval_list")
SETVAR = "svgdx::context::TransformerContext::set_var"


def _main_loop(body, must_contain_bb):
    best = None
    for h, blocks in body.loops.items():
        if must_contain_bb in blocks and (best is None or len(blocks) > len(best[1])):
            best = (h, blocks)
    return best


def _variant_of_arg(body, op):
    """LoopType variant whose payload (a &String) is evaluated: follow the &str argument back to `(x as Variant).0`"""
    pl = op_place(op)
    seen = 0
    while pl is not None and seen < 12:
        seen += 1
        for p in pl[1]:
            if p.startswith("as "):
                return p[3:]
        d = body.single_def(pl[0])
        if not d:
            return None
        if d[1] == R.TERM:
            t = d[2]
            if "fn" in t and Callee(t["fn"]).path.split("::")[-1] in ("deref", "as_str", "as_ref", "borrow") and t["args"]:
                pl = op_place(t["args"][0])
                continue
            return None
        rv = d[2]
        if rv["k"] == "use":
            pl = op_place(rv["op"])
        elif rv["k"] == "ref":
            pl = P(rv["place"])
        else:
            return None
    return None


def run(prog, chk):
    chk.rule(loop_element, prog, chk)
    chk.rule(for_element, prog, chk)
    chk.rule(if_element, prog, chk)
    chk.rule(condition_truth, prog, chk)
    chk.rule(var_assigned_in_rendering_passes, prog, chk)
    chk.rule(loop_var_value_exact, prog, chk)
    chk.rule(for_items_verbatim, prog, chk)
    chk.rule(visited_starts_empty, prog, chk)
    chk.rule(conditions_evaluated_alike, prog, chk)
    chk.rule(list_is_what_was_evaluated, prog, chk)
    from props import C17
    chk.rule(C17.limit_predicates, prog, chk)  # each loop is bounded on its own: the count compared with loop_limit is that loop's own counter
    chk.rule(C17.limit_errors_keep_their_variant, prog, chk)  # a loop that exceeds its limit ends the transform with that error (nothing on the way turns it into a retryable one)
    chk.rule(loop_variable_names_verbatim, prog, chk)
    chk.rule(extent_accumulation, prog, chk)
    from props import C01 as _C01
    chk.rule(_C01.retry_amplification, prog, chk)  # a loop whose body refers forward is retried while anything - also inside a nested list - still resolves; N copies of the body resolve exactly when the hand-written copies do
    chk.rule(_C01.retry_baseline_after_attempt, prog, chk)
    from props import C17 as _C17d
    chk.rule(_C17d.depth_pairing, prog, chk)  # the body of a loop is processed one level down like the hand-written copies inside their parent: at depth 0 it is taken for the whole document
    from props import geomalg
    n = geomalg.check_sites(prog, chk, "C16")
    chk.floor("A17.site-algebra", n, 5, "loop parameter default case")


def list_is_what_was_evaluated(prog, chk):
    """the items of a <for data=..> are the items of the evaluated list: every successful return of eval_list hands
    back the to_string_vec() of the evaluated expression - nothing is substituted for special-looking lists"""
    b = prog.body("svgdx::expression::eval_list")
    chk.touch(b)
    oks = [(x, i, st) for x, i, st in b.all_stmts() if "lhs" in st and st["lhs"][0] == 0 and not st["lhs"][1] and st["rv"].get("k") == "aggr" and st["rv"].get("variant") == "Ok"]
    chk.floor("A13.list-items", len(oks), 1, "Ok exit of eval_list")
    bad = []
    for (x, i, st) in oks:
        ops = st["rv"].get("ops") or []
        if not ops or not _passes_through(b, ops[0], ("to_string_vec",)):
            bad.append(b.where(x, st.get("line")))
    chk.ob(not bad, "A13.list-items", "eval_list", b.where(), "every list eval_list returns is the evaluated expression's own items (to_string_vec)", f"eval_list returns a list that is not the evaluated items at {bad}: some data lists are replaced by something else (a range, a default ...), so <for> repeats its body for items the document does not contain")


def _passes_through(body, op, names, depth=10):
    """does the value of `op` come out of a call to one of `names` (following moves, refs, derefs and `?`)?"""
    if depth <= 0:
        return False
    o = R.origin(body, op, carriers=dict(R.CARRIERS, deref=0, as_str=0, as_ref=0, branch=0))
    if o[0] == "call" and "fn" in o[2]:
        c = Callee(o[2]["fn"])
        if c.path.split("::")[-1] in names:
            return True
        return any(_passes_through(body, a, names, depth - 1) for a in o[2]["args"][:1])
    if o[0] == "rv":
        rv = o[1]
        return any(isinstance(rv.get(k), dict) and _passes_through(body, rv[k], names, depth - 1) for k in ("op", "a"))
    return False


def conditions_evaluated_alike(prog, chk):
    """`<if test>` and `<loop while / until>` hand the condition *as written* to eval_condition: none of them expands
    it with eval_attr first (a textual $var substitution changes precedence: w="2 + 3", `$w * 2` -> `2 + 3 * 2`)"""
    n = 0
    for b in prog.bodies.values():
        if b.unit != "svgdx-lib":
            continue
        for (bb, t, c) in b.call_sites(R.path_is("svgdx::expression::eval_condition")):
            n += 1
            pre = _passes_through(b, t["args"][0], ("eval_attr", "eval_vars", "eval_expr"))
            chk.ob(not pre, "A13.condition-verbatim", f"{b.short}:eval_condition", b.where(bb, t.get("line")), "the condition is evaluated as written (variables are looked up as values inside the expression)", f"{b.short} expands the condition with eval_attr before evaluating it: variables are substituted as *text*, so `$w * 2` with w=\"2 + 3\" becomes `2 + 3 * 2`, and <if> no longer agrees with <loop while> / its own unrolling")
    chk.floor("A13.condition-verbatim", n, 3, "eval_condition call site (if, while, until)")


def loop_variable_names_verbatim(prog, chk):
    """a loop binds only the variables its author names: the optional variable names of <for> / <loop> (idx-var,
    loop-var) are the attribute as read, with no default name"""
    n = 0
    for path in ("<svgdx::loop_el::ForDef as std::convert::TryFrom<&svgdx::element::SvgElement>>::try_from", "<svgdx::loop_el::LoopDef as std::convert::TryFrom<&svgdx::element::SvgElement>>::try_from"):
        b = prog.maybe_body(path)
        if b is None:
            chk.anchor_missing("A13.loop-var-names", f"{path} not found")
            continue
        chk.touch(b)
        for x, i, st in b.all_stmts():
            rv = st.get("rv") or {}
            if rv.get("k") != "aggr" or "loop_el::" not in str(rv.get("adt", "")) or "Def" not in str(rv.get("adt", "")):
                continue
            for op in rv.get("ops", []):
                pl = op_place(op)
                if pl is None or "std::option::Option<std::string::String>" != (b.local_ty(pl[0]) or ""):
                    continue
                n += 1
                o = R.origin(b, op, carriers=dict(R.CARRIERS))
                ok = o[0] == "call" and "fn" in o[2] and Callee(o[2]["fn"]).path.endswith("SvgElement::get_attr")
                chk.ob(ok, "A13.loop-var-names", f"{rv['adt'].split('::')[-1]}:optional-name", b.where(x, st.get("line")), "an optional loop variable name is exactly the attribute the author gave (None when absent)", f"an optional loop variable name of {rv['adt'].split('::')[-1]} is not the attribute as read ({o[0]}{': ' + Callee(o[2]['fn']).path if o[0] == 'call' and 'fn' in o[2] else ''}): a default name makes the loop assign a variable the author never asked for (clobbering an outer variable of that name)")
    chk.floor("A13.loop-var-names", n, 1, "optional variable name stored by ForDef / LoopDef")


def loop_element(prog, chk):
    b = prog.body(LOOP)
    chk.touch(b)
    bodies = b.call_sites(R.path_is(PE))
    chk.floor("A13.loop-skeleton", len(bodies), 1, "process_events call in LoopElement")
    if not bodies:
        return
    bb_body = bodies[0][0]
    lp = _main_loop(b, bb_body)
    if lp is None:
        chk.bad("A13.loop-skeleton", "LoopElement:loop", b.where(), "the body of <loop> is not processed inside a loop")
        return
    h, blocks = lp
    where = b.where(h)
    # (a) parameters evaluated once, outside the loop
    evals = b.call_sites(lambda c: c.path in EVAL)
    inside = [(bb, t, c) for (bb, t, c) in evals if bb in blocks]
    kinds = {}
    for (bb, t, c) in evals:
        v = _variant_of_arg(b, t["args"][0])
        kinds.setdefault(v, []).append((bb, bb in blocks, c.path.split("::")[-1]))
    rep = kinds.get("Repeat", [])
    recognisable = bool(rep) and bool(kinds.get("While")) and bool(kinds.get("Until"))
    if not recognisable:
        # the evaluations of count / while / until are told apart by the LoopType variant their operand comes from:
        # with the variants renamed, the tests moved into methods of the enum or the operands carried in a struct the
        # skeleton cannot be read off the control-flow graph
        chk.undecided("A13.loop-skeleton", "LoopElement", where, f"the evaluations of count / while / until are not recognisable in LoopElement::generate_events (operand kinds found: {sorted(str(k) for k in kinds)}): the order of tests and body is not decided")
    if recognisable:
      chk.ob(
        bool(rep) and all(not inl for (_, inl, _) in rep),
        "A13.loop-skeleton",
        "LoopElement:count-once",
        where,
        "`count` is evaluated once, before the first pass",
        "`count` is (re-)evaluated inside the loop: a count expression that depends on variables the body changes, or that draws random numbers, is no longer equivalent to N copies of the body",
    )
    others_in = [(v, n) for v, lst in kinds.items() for (_, inl, n) in lst if inl and v not in ("While", "Until")]
    chk.ob(not others_in, "A13.loop-skeleton", "LoopElement:params-once", where, "loop-var / start / step are evaluated before the loop", f"loop parameters are evaluated inside the loop: {others_in}")
    # (b) while: evaluated in the loop, before the body, false edge leaves
    wh = [(bb, t) for (bb, t, c) in evals if _variant_of_arg(b, t["args"][0]) == "While" and c.path.endswith("eval_condition")]
    ok = False
    unread = False
    if len(wh) == 1 and wh[0][0] in blocks:
        wb, wt = wh[0]
        edges = _cond_edges(b, wt)
        if edges:
            tt, ft = edges
            ok = ft not in blocks and _reaches_before(b, wb, bb_body, blocks, h) and not _reaches_before(b, bb_body, wb, blocks, h)
        else:
            unread = True  # the outcome is not branched on where it is computed (handed on as the value of a helper)
    if recognisable and unread:
      chk.undecided("A13.loop-skeleton", "LoopElement:while", where, "the outcome of the `while` condition is not branched on directly (it is the result of a helper merged with the other loop kinds): which edge leaves the loop is not read here")
    elif recognisable:
      chk.ob(ok, "A13.loop-skeleton", "LoopElement:while", where, "`while` is tested before the body in every pass; a zero value leaves the loop", "`while` is not tested before each pass, or its false edge does not leave the loop")
    # (c) until: after the body, true edge leaves
    un = [(bb, t) for (bb, t, c) in evals if _variant_of_arg(b, t["args"][0]) == "Until" and c.path.endswith("eval_condition")]
    ok = False
    unread = False
    if len(un) == 1 and un[0][0] in blocks:
        ub, ut = un[0]
        edges = _cond_edges(b, ut)
        if edges:
            tt, ft = edges
            ok = tt not in blocks and b.dominates(bb_body, ub)
        else:
            unread = True
    if recognisable and unread:
      chk.undecided("A13.loop-skeleton", "LoopElement:until", where, "the outcome of the `until` condition is not branched on directly (it is the result of a helper merged with the other loop kinds): which edge leaves the loop is not read here")
    elif recognisable:
      chk.ob(ok, "A13.loop-skeleton", "LoopElement:until", where, "`until` is tested after the body (at least one pass); a non-zero value leaves the loop", "`until` is not tested after the body, or its true edge does not leave the loop")
    # (d) count test at the top
    ok = False
    found_cmp = False
    for x in sorted(blocks):
        t = b.term(x)
        if t["k"] != "switch":
            continue
        o = R.origin(b, t["op"], carriers={})
        if o[0] == "rv" and o[1].get("k") == "binop" and o[1]["op"] in ("Ge", "Lt", "Gt", "Le", "Eq", "Ne"):
            # the pass counter (incremented by one inside the loop) against a loop-invariant plain local: the count
            sides = []
            for sd in ("a", "b"):
                ch = b.chase(o[1][sd])
                sides.append(ch[1] if ch[0] == "place" else None)
            def is_counter(pl):
                return pl is not None and not pl[1] and any(bb_ in blocks for (bb_, _, _) in R.increments_of(b, P([pl[0], []])))
            def is_invariant_local(pl):
                return pl is not None and not pl[1] and not any(d[0] in blocks for d in b.defs_of(pl[0]))
            if (is_counter(sides[0]) and is_invariant_local(sides[1])) or (is_counter(sides[1]) and is_invariant_local(sides[0])):
                tt, ft = R.switch_targets_bool(t)
                op = o[1]["op"] if is_counter(sides[0]) else {"Ge": "Le", "Le": "Ge", "Gt": "Lt", "Lt": "Gt"}.get(o[1]["op"], o[1]["op"])
                leave = tt if op in ("Ge", "Gt", "Eq") else ft
                ok = leave not in blocks and _reaches_before(b, x, bb_body, blocks, h) and op == "Ge"
                found_cmp = True
    if not found_cmp:
        if recognisable:
            chk.undecided("A13.loop-skeleton", "LoopElement:count-test", where, "no comparison of a pass counter with a loop-invariant count found in the loop (the test may be phrased as a flag, a range, a method): not decided")
    else:
      chk.ob(ok, "A13.loop-skeleton", "LoopElement:count-test", where, "`iteration >= count` is tested at the top of each pass and leaves the loop", "the count test is missing, not `iteration >= count`, or does not precede the body")
    # (e)/(f) loop variable bound before the body, advanced after it
    sets = [(bb, t) for (bb, t, c) in b.call_sites(R.path_is(SETVAR)) if bb in blocks]
    chk.ob(bool(sets) and all(_reaches_before(b, bb, bb_body, blocks, h) for (bb, _) in sets), "A13.loop-skeleton", "LoopElement:bind-before-body", where, "the loop variable is bound before the body of each pass", "the loop variable is not bound before the body")
    adv = []
    for x, i, s in b.all_stmts():
        rv = s.get("rv")
        if x in blocks and rv and rv["k"] == "binop" and rv["op"] == "Add" and rv.get("aty") in ("f32", "f64") and "lhs" in s and op_place(rv["a"]) == P(s["lhs"]):
            adv.append(x)
    chk.ob(bool(adv) and all(b.dominates(bb_body, x) for x in adv), "A13.loop-skeleton", "LoopElement:step-after-body", where, "the loop variable advances by `step` after the body", "the loop variable is not advanced after the body")
    _body_args_and_order(prog, chk, b, bb_body, bodies[0][1], blocks, h, "LoopElement")


def _mentions_count(body, rv):
    for s in ("a", "b"):
        ch = body.chase(rv[s])
        if ch[0] == "place" and body.local_name(ch[1][0]) in ("loop_count", "count"):
            return True
    return False


def _cond_edges(body, call_term):
    """(true_target, false_target) of the bool carried by `eval_condition(..)?`"""
    r = call_term["dest"][0]
    for (bb, t, c) in body.call_sites(lambda c: c.decl_path == "std::ops::Try::branch"):
        a = op_place(t["args"][0])
        if a and a[0] == r:
            cf = t["dest"][0]
            sw = R.find_switch_on_discr(body, t["t"], cf)
            if not sw:
                return None
            cont = [tgt for v, tgt in sw[1]["vals"] if v == 0]
            if not cont:
                return None
            # in the Continue block: val = (cf as Continue).0 ; switch on it (maybe negated)
            x = cont[0]
            chain_ = []
            for _ in range(4):
                t2 = body.term(x)
                chain_.append(x)
                if t2["k"] == "switch":
                    o = R.origin(body, t2["op"], carriers={"branch": 0})
                    neg = False
                    if o[0] == "rv" and o[1].get("k") == "unop" and o[1].get("op") == "Not":
                        neg = True
                    pl_ = op_place(t2["op"])
                    for _k in range(4):  # through temporaries that copy the flag
                        d_ = body.single_def(pl_[0]) if pl_ is not None and not pl_[1] else None
                        if d_ is not None and d_[1] != R.TERM and d_[2].get("k") == "use" and op_place(d_[2].get("op")) is not None and not op_place(d_[2]["op"])[1] and len(body.defs_of(op_place(d_[2]["op"])[0])) > 1:
                            pl_ = op_place(d_[2]["op"])
                        else:
                            break
                    if pl_ is not None and not pl_[1] and len(body.defs_of(pl_[0])) > 1:
                        # the tested flag is given a value on several ways (`let done = match kind { While(e) => !cond, .. }`):
                        # what it holds on *this* way is what was assigned since the condition was evaluated
                        mine = [s_ for y in chain_ for s_ in body.stmts(y) if "lhs" in s_ and s_["lhs"][0] == pl_[0] and not s_["lhs"][1]]
                        if len(mine) != 1:
                            return None
                        rv_ = mine[0]["rv"]
                        if rv_.get("k") == "unop" and rv_.get("op") == "Not":
                            neg = True
                        elif rv_.get("k") == "use" and op_place(rv_.get("op")) is not None:
                            neg = False
                        else:
                            return None
                    tt, ft = R.switch_targets_bool(t2)
                    return (ft, tt) if neg else (tt, ft)
                if t2["k"] == "goto":
                    x = t2["t"]
                else:
                    return None
    return None


def _reaches_before(body, a, b_, blocks, header):
    """within one pass (not crossing the header), a is executed before b_ on every path to b_ that passes a...:
    here: b_ is not reachable from the header without passing a, when a lies on the way -> use dominance relative to header"""
    # every path header -> b_ inside the loop passes a, OR a is conditional but whenever executed it precedes b_
    r = body.reach([a], avoid=[header])
    return b_ in r and a not in body.reach([b_], avoid=[header])


def _modified_in_loop(b, op, blocks):
    """the events handed to process_events come from a local that is (re)assigned or mutably borrowed inside the loop"""
    l = R.origin_local(b, op)
    pl = op_place(op)
    cands = {x for x in (l, pl[0] if pl else None) if x is not None}
    d = b.single_def(pl[0]) if pl else None
    if d and d[1] == R.TERM and "fn" in d[2] and Callee(d[2]["fn"]).decl_path == "std::clone::Clone::clone" and d[2]["args"]:
        l2 = R.origin_local(b, d[2]["args"][0])
        if l2 is not None:
            cands.add(l2)
    for l in cands:
        if b.local_name(l) and any(x[0] in blocks for x in b.defs_of(l)):
            return True
    return False


def _body_args_and_order(prog, chk, b, bb_body, t_body, blocks, h, who):
    where = b.where(bb_body, t_body.get("line"))
    o = R.origin(b, t_body["args"][0], carriers={"clone": 0})
    src_ok = False
    if o[0] == "call" and "fn" in o[2] and Callee(o[2]["fn"]).path == "svgdx::element::SvgElement::inner_events":
        src_ok = True
    elif o[0] in ("unknown", "field") or o[0] == "rv":
        # clone of a local that holds the Some payload of inner_events()
        l = R.origin_local(b, t_body["args"][0])
        src_ok = l is not None and b.local_name(l) == "inner_events"
    else:
        l = R.origin_local(b, t_body["args"][0])
        src_ok = l is not None and b.local_name(l) == "inner_events"
    if not src_ok:
        # follow clone(&inner_events)
        d = b.single_def(op_place(t_body["args"][0])[0]) if op_place(t_body["args"][0]) else None
        if d and d[1] == R.TERM and "fn" in d[2] and Callee(d[2]["fn"]).decl_path == "std::clone::Clone::clone":
            l = R.origin_local(b, d[2]["args"][0])
            if l is not None:
                # that local must come from SvgElement::inner_events and not be modified in the loop
                defs = b.defs_of(l)
                src_ok = all(x[0] not in blocks for x in defs) and any(_from_inner_events(b, x) for x in defs)
    if not src_ok and not _modified_in_loop(b, t_body["args"][0], blocks):
        # the events handed to process_events cannot be traced (a struct field, a helper's parameter): no verdict
        chk.undecided("A13.loop-skeleton", f"{who}:body-events", where, "the events processed per pass cannot be traced to SvgElement::inner_events()")
    else:
      chk.ob(src_ok, "A13.loop-skeleton", f"{who}:body-events", where, "each pass processes a clone of the element's stored inner events (taken once, never modified in the loop)", "the body events processed per pass are not the element's unmodified inner events")
    ext = [(bb, t) for (bb, t, c) in b.call_sites(R.path_is("svgdx::events::OutputList::extend")) if bb in blocks]
    ok = bool(ext) and all(b.dominates(bb_body, bb) for (bb, _) in ext) and _passes_on_ok(b, bb_body, t_body, [bb for (bb, _) in ext], blocks, h)
    chk.ob(ok, "A13.loop-skeleton", f"{who}:append-in-order", where, "the output of every pass is appended (OutputList::extend) before the next pass", "a pass can complete without its output being appended")


def _from_inner_events(body, d):
    b, i, rv = d
    if i == R.TERM:
        return False
    if rv["k"] == "use":
        o = R.origin(body, rv["op"], carriers={})
        return o[0] == "call" and "fn" in o[2] and Callee(o[2]["fn"]).path == "svgdx::element::SvgElement::inner_events"
    return False


def _passes_on_ok(body, bb_body, t_body, must, blocks, header):
    """from the Ok continuation of the body call, the header is not reachable without passing `must`"""
    brk = R.try_break_edges(body, t_body["dest"][0])
    if not brk:
        return False
    sb = brk[0][0]
    cont = [tgt for v, tgt in body.term(sb)["vals"] if v == 0]
    r = body.reach(cont, avoid=must)
    return header not in r


def for_element(prog, chk):
    b = prog.body(FOR)
    chk.touch(b)
    bodies = b.call_sites(R.path_is(PE))
    if not bodies:
        chk.anchor_missing("A13.for-skeleton", "process_events call in ForElement")
        return
    bb_body, t_body, _ = bodies[0]
    lp = _main_loop(b, bb_body)
    if lp is None:
        chk.bad("A13.for-skeleton", "ForElement:loop", b.where(), "the body of <for> is not processed inside a loop")
        return
    h, blocks = lp
    where = b.where(h)
    lists = b.call_sites(R.path_is("svgdx::expression::eval_list"))
    chk.ob(len(lists) == 1 and lists[0][0] not in blocks, "A13.for-skeleton", "ForElement:data-once", where, "the data list is evaluated once, before the loop", "the <for> data list is evaluated inside the loop")
    # iterator-driven over that list
    nx = [(bb, t, c) for (bb, t, c) in b.call_sites(lambda c: c.decl_path == "std::iter::Iterator::next") if bb in blocks]
    ok = bool(nx) and every_cycle_passes(b, h, blocks, [nx[0][0]]) and "std::vec::IntoIter<std::string::String>" in nx[0][2].self_ty
    chk.ob(ok, "A13.for-skeleton", "ForElement:per-item", where, "one pass per item of the list, in list order (Vec::into_iter)", f"<for> does not iterate the list items in order ({[c.self_ty for _, _, c in nx]})")
    sets = [(bb, t) for (bb, t, c) in b.call_sites(R.path_is(SETVAR)) if bb in blocks]
    item_bound = False
    for (bb, t) in sets:
        o = R.origin(b, t["args"][2], carriers={"deref": 0, "as_str": 0})
        # value is the loop item (payload of next())
        if o[0] == "call" and nx and o[1] == nx[0][0]:
            item_bound = True
        l = R.origin_local(b, t["args"][2])
        if l is not None and b.local_name(l) == "item":
            item_bound = True
    chk.ob(len(sets) == 2 and item_bound and all(_reaches_before(b, bb, bb_body, blocks, h) for (bb, _) in sets), "A13.for-skeleton", "ForElement:bind-before-body", where, "the item (and the optional index) are bound before the body of each pass", "the <for> variable is not bound to the item before the body")
    _body_args_and_order(prog, chk, b, bb_body, t_body, blocks, h, "ForElement")
    # no scope is opened/closed by loops: variables set by the body stay visible (as in the unrolled document)
    scope_calls = [c.path for body_ in (prog.body(LOOP), b) for (bb, t, c) in body_.call_sites(lambda c: c.path.startswith("svgdx::context::TransformerContext::") and c.path.split("::")[-1] in ("push_element", "pop_element", "push_scope", "pop_scope"))]
    chk.ob(not scope_calls, "A13.for-skeleton", "loops:no-scope", where, "<loop>/<for> do not open a variable scope: assignments made by the body persist, exactly as in the unrolled document", f"loop elements open/close scopes ({scope_calls}): <var> updates made by the body would be discarded when the loop ends")


def if_element(prog, chk):
    b = prog.body(IF)
    chk.touch(b)
    conds = b.call_sites(R.path_is("svgdx::expression::eval_condition"))
    bodies = b.call_sites(R.path_is(PE))
    ok = False
    if len(conds) == 1 and len(bodies) == 1:
        edges = _cond_edges(b, conds[0][1])
        if edges:
            tt, ft = edges
            ok = b.dominates(tt, bodies[0][0]) and bodies[0][0] not in b.reach([ft]) and tt != ft
    chk.ob(ok, "A13.if-skeleton", "IfElement:body-on-true", b.where(), "the body of <if> is processed exactly on the true edge of its test", "the <if> body is not control-dependent on the true edge of its test")
    # the test is evaluated every time the element is processed (also when it is processed again after a forward
    # reference in its content could not be resolved): no path reaches the body without passing the evaluation
    if conds and bodies:
        from sa import vstate
        vs = vstate.of(b, prog)
        for (pb, pt, pc) in bodies:
            gated = any(b.dominates(cb, pb) for (cb, ct, cc) in conds) or (len(conds) == 1 and vs.passes_through(conds[0][0], pb))
            chk.ob(gated, "A13.if-skeleton", "IfElement:test-every-time", b.where(pb, pt.get("line")), "the body of <if> is processed only after its test has been evaluated, on every path", "a path reaches the body of <if> without evaluating `test` (a remembered / defaulted outcome): an <if> that is processed again - its content referred forward - takes the branch of the first attempt although the variables its test reads may have changed since")
    # the test expression is the `test` attribute
    gets = [(bb, t) for (bb, t, c) in b.call_sites(R.path_is("svgdx::element::SvgElement::get_attr"))]
    lit = None
    for (bb, t) in gets:
        o = R.origin(b, t["args"][1], carriers=dict(R.CARRIERS))
        if o[0] == "const":
            lit = o[1].get("str")
    chk.ob(lit == "test", "A13.if-skeleton", "IfElement:test-attr", b.where(), "the condition is the `test` attribute", f"the condition is read from `{lit}`")
    # otherwise: empty output
    empties = 0
    empty_exits, ok_exits = set(), set()
    for x, i, s in b.all_stmts():
        if "lhs" in s and s["lhs"][0] in b.ret_locals and not s["lhs"][1] and s["rv"].get("variant") == "Ok":
            comps = R.result_components(b, s["rv"]["ops"][0])
            if comps is None:
                continue  # the Ok of something else (a spliced helper's result)
            ok_exits.add(x)
            if len(comps["events"]) == 1:
                p0, _ = R.call_origin_path(b, comps["events"][0])
                if p0 == "svgdx::events::OutputList::new":
                    empties += 1
                    empty_exits.add(x)
    # every successful exit reachable from the false edge of the test is an empty-list exit (however many of them the
    # function has: "no content" and "test is zero" may share one or not)
    false_ok = False
    if len(conds) == 1:
        edges = _cond_edges(b, conds[0][1])
        if edges:
            fr = b.reach([edges[1]])
            false_ok = bool(fr & empty_exits) and (fr & ok_exits) <= empty_exits and not (fr & {bb for (bb, t, c) in bodies})
    if not ok_exits:
        chk.undecided("A13.if-skeleton", "IfElement:else-empty", b.where(), "no successful exit of IfElement builds its result (events, box) in a form this rule reads")
    else:
      chk.ob(false_ok, "A13.if-skeleton", "IfElement:else-empty", b.where(), "when the test is zero <if> returns an empty event list", "the false path of <if> does not return an empty list")


def condition_truth(prog, chk):
    ec = prog.body("svgdx::expression::eval_condition")
    chk.touch(ec)
    # every comparison of a float with a constant made by eval_condition (itself or in a closure it passes to map):
    # there is exactly one kind, `!= 0`
    cmps = []
    for cb in [ec] + [x for x in prog.bodies.values() if x.root == ec.id]:
        for x, i, s in cb.all_stmts():
            rv = s.get("rv")
            if rv and rv["k"] == "binop" and rv["op"] in ("Ne", "Eq", "Gt", "Ge", "Lt", "Le"):
                k = op_const(rv["b"]) or op_const(rv["a"]) or {}
                if "float" in k:
                    cmps.append((rv["op"], k.get("float")))
    ok = bool(cmps) and all(op == "Ne" and fl in ("0.0", "-0.0", "0") for op, fl in cmps)
    detail = ", ".join(f"{op} {fl}" for op, fl in cmps) or "no comparison with a constant"
    chk.ob(ok, "A15.condition-truth", "eval_condition", ec.where(), "a condition is true iff its numeric value is != 0 (negative values are true)", f"eval_condition maps the value with `{detail}` instead of `!= 0`")


def var_assigned_in_rendering_passes(prog, chk):
    """the loop variable (and the <for> item / index variables) are assigned only in passes that render the body: from
    every set_var inside the loop, the loop cannot be left without processing the body first"""
    for path, what in ((LOOP, "LoopElement"), (FOR, "ForElement")):
        b = prog.body(path)
        bodies = [bb for (bb, t, c) in b.call_sites(R.path_is(PE))]
        if not bodies:
            chk.anchor_missing("A13.var-before-body", f"{what}: process_events call not found")
            continue
        lp = _main_loop(b, bodies[0])
        if lp is None:
            chk.anchor_missing("A13.var-before-body", f"{what}: loop not found")
            continue
        h, blocks = lp
        sets = [(bb, t) for (bb, t, c) in b.call_sites(lambda c: c.path.endswith("TransformerContext::set_var")) if bb in blocks and not _is_after(b, bodies[0], bb, blocks, h)]
        exits = {x for y in blocks for x in b.succs(y) if x not in blocks}
        for k, (bb, t) in enumerate(sets):
            # paths that leave through an error (`?`) are not a normal loop exit: only exits that reach a normal return count
            leak = [x for x in b.reach([bb], avoid=set(bodies)) & exits if _normal_exit(b, x)]
            chk.ob(not leak, "A13.var-before-body", f"{what}:set_var#{k + 1}", b.where(bb, t.get("line")), "after the variable is assigned the body is always rendered in that pass", f"{what}: the variable is assigned and the loop can then end without rendering the body: after the loop the variable holds a value no rendered pass ever saw (and an existing variable is overwritten by a loop that runs zero times)")
        chk.floor("A13.var-before-body", len(sets), 1, f"set_var before the body in {what}") if what == "LoopElement" else None


def _is_after(b, body_bb, bb, blocks, h):
    """is bb reachable from the body within one pass (without going through the header)?"""
    return bb in b.reach([body_bb], avoid={h}) and bb != body_bb


def _normal_exit(b, x):
    """does block x (outside the loop) reach a return that assigns Ok to _0?"""
    r = b.reach([x])
    for y in r:
        for st in b.stmts(y):
            if "lhs" in st and st["lhs"][0] == 0 and not st["lhs"][1] and st["rv"].get("variant") == "Ok":
                return True
    return False


def extent_accumulation(prog, chk):
    """every element kind that renders a body repeatedly accumulates the per-pass bounding boxes with
    BoundingBoxBuilder::extend, guarded only by `that pass produced a box`, and returns build()"""
    n = 0
    for path, what in ((LOOP, "LoopElement"), (FOR, "ForElement")):
        b = prog.body(path)
        ext = b.call_sites(R.path_endswith("BoundingBoxBuilder::extend"))
        bld = b.call_sites(R.path_endswith("BoundingBoxBuilder::build"))
        bodies = [bb for (bb, t, c) in b.call_sites(R.path_is(PE))]
        lp = _main_loop(b, bodies[0]) if bodies else None
        ok = bool(ext) and bool(bld) and lp is not None and all(bb in lp[1] for (bb, t, c) in ext)
        n += len(ext)
        if ok:
            # every rendered pass is accumulated: from the body call no path reaches the loop head or leaves the loop
            # without passing the `did this pass produce a box` test that guards extend()
            h, blocks = lp
            tests = set()
            for (eb, et, ec) in ext:
                for (a, x) in D.dominating_edges(b, eb):
                    sd = R.switch_discr_place(b, a) if (a in blocks and b.term(a)["k"] == "switch") else None
                    if sd is not None and sd[1].replace(" ", "").startswith("std::option::Option<svgdx::position::BoundingBox>"):
                        tests.add(a)
            tests = {a for a in tests if all(b.dominates(bodies[0], a) for _ in [0])}
            exits = {x for y in blocks for x in b.succs(y) if x not in blocks and _normal_exit(b, x)}
            starts = [b.term(bodies[0])["t"]] if b.term(bodies[0]).get("t") is not None else []
            if not tests:
                # extend() is not under a `did this pass produce a box` test (it takes the Option itself): then the call
                # is what every rendered pass has to go through
                tests = {eb for (eb, et, ec) in ext}
            skipped = bool(tests) and bool(b.reach(starts, avoid=tests) & (exits | {h}))
            chk.ob(bool(tests) and not skipped, "A16.extent-accumulation", what + ":every-pass", b.where(h), f"{what}: every pass whose body was rendered contributes its box before the loop continues or ends", f"{what}: a pass can end (or the loop can be left) after rendering its body without adding the body's box to the accumulated extent - e.g. the last pass of an `until` loop is drawn but not counted in the root extent")
        chk.ob(ok, "A16.extent-accumulation", what, b.where(), f"{what} unions the boxes of all passes with BoundingBoxBuilder (extend in the loop, build at the end)", f"{what} no longer accumulates its extent with BoundingBoxBuilder::extend/build like the other repeating elements: a pass that renders nothing, or the first pass, can drop the accumulated extent")


def loop_var_value_exact(prog, chk):
    """the value bound to the loop variable is the accumulator's own decimal rendering (`to_string()` of the f64 that is
    advanced by `step`): no cast to f32, no output-number formatting (3 decimals) in between"""
    b = prog.body(LOOP)
    n = 0
    for (bb, t, c) in b.call_sites(R.path_is(SETVAR)):
        if len(t["args"]) < 3:
            continue
        n += 1
        o = R.origin(b, t["args"][2], carriers={"deref": 0, "as_str": 0, "borrow": 0})
        ok = False
        why = o[0]
        if o[0] == "call" and "fn" in o[2]:
            cal = Callee(o[2]["fn"])
            why = cal.path
            if cal.decl_path == "std::string::ToString::to_string":
                src = R.origin_local(b, o[2]["args"][0])
                ok = src is not None and (b.local_ty(src) or "").strip() == "f64"
                # ... or the f64 lives in a field: the instantiation says what is rendered
                sty = (cal.self_ty or "") + " " + " ".join(cal.targs or []) + " " + (cal.inst or "")
                if not ok and re.search(r"(^|[ <])f64([ >]|$)", sty) and "f32" not in sty:
                    ok = True
        if not ok and o[0] == "unknown" and isinstance(o[1], tuple) and o[1] and isinstance(o[1][0], int):
            # the payload of an Option / Result local: where the local's values come from
            srcs = []
            for d in b.defs_of(o[1][0]):
                if d[1] == R.TERM and "fn" in d[2]:
                    srcs.append(Callee(d[2]["fn"]).path)
                elif d[1] != R.TERM and d[2].get("k") == "aggr" and d[2].get("variant") == "None":
                    continue
                elif d[1] != R.TERM and d[2].get("k") == "use":
                    p2, _o2 = R.call_origin_path(b, d[2]["op"])
                    srcs.append(p2 or "?")
                else:
                    srcs.append("?")
            if srcs and "?" not in srcs and not any(x.split("::")[-1] in ("fstr", "format", "to_string") or "fmt" in x for x in srcs):
                chk.bad("A13.loop-var-exact", f"LoopElement:set_var#{n}", b.where(bb, t.get("line")), f"the loop variable is also set to a value that is not the accumulator's rendering: it comes from {sorted(set(srcs))} - after (or during) the loop the variable no longer holds what the unrolled loop leaves in it")
                continue
        if not ok and not (o[0] == "call" and "fn" in o[2] and (Callee(o[2]["fn"]).path.split("::")[-1] in ("fstr", "format", "to_string") or "fmt" in Callee(o[2]["fn"]).path)):
            # the value handed to set_var cannot be traced to the call that renders it (it travels through a struct
            # field, a helper's parameter ...): no verdict on how it was rendered
            chk.undecided("A13.loop-var-exact", f"LoopElement:set_var#{n}", b.where(bb, t.get("line")), f"the value bound to the loop variable cannot be traced to its rendering ({why})")
            continue
        chk.ob(ok, "A13.loop-var-exact", f"LoopElement:set_var#{n}", b.where(bb, t.get("line")), "the loop variable is set to to_string() of the f64 accumulator", f"the loop variable is not the accumulator's own rendering (it comes from {why}): with a step such as 0.0625 or 1e-5 the variable differs from start + k*step, so the loop no longer renders what its unrolling renders")
    chk.floor("A13.loop-var-exact", n, 1, "set_var in LoopElement")
    # the accumulator itself: inside the loop it is only ever advanced by the step (`acc += step`); a value read back
    # from elsewhere (the context's variable of that name, which the body may have changed) is another counter
    accs = set()
    for (bb, t, c) in b.call_sites(R.path_is(SETVAR)):
        if len(t["args"]) < 3:
            continue
        o = R.origin(b, t["args"][2], carriers={"deref": 0, "as_str": 0, "borrow": 0})
        if o[0] == "call" and "fn" in o[2] and Callee(o[2]["fn"]).decl_path == "std::string::ToString::to_string":
            src = R.origin_local(b, o[2]["args"][0])
            if src is not None and (b.local_ty(src) or "").strip() == "f64":
                accs.add(src)
    for acc in sorted(accs):
        foreign = []
        for d in b.defs_of(acc):
            blk, idx, node = d
            if R.loop_containing(b, blk) is None:
                continue  # the start value, parsed before the loop
            if idx != R.TERM and node.get("k") == "binop" and node.get("op") in ("Add", "Sub") and (R.origin_local(b, node["a"]) == acc or (op_place(node["a"]) or (None,))[0] == acc):
                continue
            if idx != R.TERM and node.get("k") == "use":
                # through a temporary: acc = tmp, tmp = acc + step
                pl = op_place(node.get("op"))
                d2 = b.single_def(pl[0]) if pl is not None and not pl[1] else None
                if d2 and d2[1] != R.TERM and d2[2].get("k") == "binop" and d2[2].get("op") in ("Add", "Sub") and (op_place(d2[2]["a"]) or (None,))[0] == acc:
                    continue
            foreign.append(b.where(blk))
        name = b.local_name(acc) or f"_{acc}"
        chk.ob(not foreign, "A13.loop-var-exact", f"LoopElement:{name}:advance", b.where(), f"inside the loop `{name}` is only advanced by the step", f"inside the loop the accumulator `{name}` is also assigned from something other than itself plus the step ({', '.join(foreign[:2])}): the value of pass k is no longer start + k*step whenever that other source differs (a body that changes the variable of the same name changes the loop)")


FOR_ITEM_CALLEES_OK = ("clone", "push", "extend", "to_string_vec", "fstr", "new", "into_iter", "next", "iter", "deref", "with_capacity", "into_vec", "exchange_malloc", "from", "drop", "box_new", "write_via_move")


def for_items_verbatim(prog, chk):
    """<for> binds each list item as it is: ExprValue::to_string_vec (the only consumer is eval_list) renders numbers with
    fstr and hands strings on unchanged - it calls nothing else"""
    b = prog.body("svgdx::expression::ExprValue::to_string_vec")
    chk.touch(b)
    from props.C19 import TEXT_ALTERING
    extra = sorted({c.path for (bb, t, c) in b.call_sites(lambda c: True) if (c.path.startswith("svgdx::") and c.path.split("::")[-1] not in ("fstr", "to_string_vec")) or (c.path.split("::")[-1] in TEXT_ALTERING and ("str" in c.path.lower())) or c.path.endswith("fmt::format")})
    chk.ob(not extra, "A14.for-items-verbatim", "to_string_vec", b.where(), "list items are rendered by fstr (numbers) or cloned (strings); nothing else is applied", f"ExprValue::to_string_vec applies {extra} to list items: a <for> variable is no longer bound to the item as written (escaping / trimming / case changes alter strings with quotes, backslashes ...)")


def visited_starts_empty(prog, chk):
    """get_target_element's cycle detection starts from an empty `seen` list: elements of different loop passes share one
    order index, so seeding it with the starting element reports a cycle for `use` chains across passes"""
    b = prog.body("svgdx::element::SvgElement::get_target_element")
    chk.touch(b)
    cont = b.call_sites(lambda c: c.path.split("::")[-1] == "contains")
    ok = False
    why = "visited list not found"
    for (bb, t, c) in cont:
        l = R.origin_local(b, t["args"][0])
        if l is None:
            o = R.origin(b, t["args"][0], carriers={"deref": 0})
            l = o[2]["args"][0] if False else None
        # find the Vec local: receiver of push
        for (pb, pt, pc) in b.call_sites(R.path_endswith("Vec::<T, A>::push")):
            vl = R.origin_local(b, pt["args"][0])
            if vl is None:
                continue
            inits = [d for d in b.defs_of(vl)]
            srcs = []
            for d in inits:
                if d[1] == R.TERM and "fn" in d[2]:
                    srcs.append(Callee(d[2]["fn"]).path)
            why = str(srcs)
            ok = bool(srcs) and all(x.endswith("Vec::<T>::new") or x.endswith("Vec::<T, A>::new") or x.endswith("::new") and "Vec" in x for x in srcs)
    chk.ob(ok, "A13.visited-starts-empty", "get_target_element", b.where(), "the visited list starts empty", f"the visited list of get_target_element does not start empty (initialised by {why}): a reference chain that merely revisits the starting order index - as elements generated by different passes of a loop do - is reported as circular")
