"""C01 part 2 - A3 recursion boundedness: every recursive SCC needs a verified witness."""
from sa import rules as R
from sa.prog import P, Callee, op_place, op_const, const_int, const_str

GEN = "<svgdx::element::SvgElement as svgdx::transform::EventGen>::generate_events"

# witness table: a member function that identifies the SCC -> (kind, parameters)
WITNESS = {
    GEN: ("depth-guard", dict(guard_fn=GEN, guard_call="svgdx::context::TransformerContext::inc_depth")),
    "svgdx::expression::primary": ("nesting-counter", dict(guard_fn="svgdx::expression::primary", field=".depth", state_ty="svgdx::expression::EvalState")),
    "svgdx::context::TransformerContext::get_clipped_bbox": ("visited-set", dict()),
    "svgdx::position::BoundingBox::scalarspec": ("variant-change", dict()),
    "svgdx::element::SvgElement::size": ("resolved-target", dict(resolver="svgdx::element::SvgElement::get_target_element", names=("use", "reuse"))),
    "svgdx::expression::ExprValue::flatten": ("data-structural", dict(reason="recursion on the items of an ExprValue::List: strictly smaller owned data; list nesting is produced by the expression evaluator whose nesting is bounded (nesting-counter witness of the expression SCC)")),
    "svgdx::expression::ExprValue::to_string_vec": ("data-structural", dict(reason="recursion on the items of an ExprValue::List: strictly smaller owned data (nesting bounded by the evaluator's nesting counter)")),
    "<svgdx::expression::ExprValue as std::clone::Clone>::clone": ("data-structural", dict(reason="derived Clone of a finite tree value (List of ExprValue); nesting bounded by the evaluator's nesting counter")),
    "<svgdx::expression::ExprValue as std::cmp::PartialEq>::eq": ("data-structural", dict(reason="derived PartialEq of finite tree values; nesting bounded by the evaluator's nesting counter")),
    "<svgdx::expression::ExprValue as std::fmt::Display>::fmt": ("data-structural", dict(reason="Display of a finite tree value; nesting bounded by the evaluator's nesting counter")),
    "<svgdx::errors::SvgdxError as std::fmt::Display>::fmt": ("data-structural", dict(reason="MultiError nests one level per process_tags level, i.e. per element nesting level, which the depth guard bounds by depth_limit; Display recurses on strictly smaller owned data")),
}


def run(prog, chk, reach):
    sccs = [c for c in prog.sccs(reach) if len(c) > 1 or c[0] in prog.edges.get(c[0], ())]
    chk.floor("A3.recursion", len(sccs), 6, "recursive SCC in reachable code")
    for comp in sccs:
        members = sorted(prog.bodies[c].path for c in comp)
        ident = [m for m in members if m in WITNESS]
        name = ident[0] if ident else members[0]
        key = name.replace("svgdx::", "")
        where = prog.bodies[[c for c in comp if prog.bodies[c].path == name][0]].where()
        if not ident:
            chk.bad(
                "A3.recursion",
                key,
                where,
                f"recursive cycle without a termination witness: {members[:6]} - unbounded recursion exhausts the stack (process abort). "
                "Add a verified witness (depth guard / nesting counter / visited set / variant change) to props/C01_rec.py",
            )
            continue
        kind, par = WITNESS[name]
        comp_set = set(comp)
        try:
            ok, detail = VERIFY[kind](prog, comp_set, name, par)
        except Exception as e:  # a witness that cannot be evaluated is a failure, not a pass
            ok, detail = False, f"witness evaluation failed: {e!r}"
        by = "table" if kind == "data-structural" else "rule"
        if ok:
            chk.ok("A3.recursion", key, where, f"SCC of {len(comp)} function(s) bounded by witness `{kind}`: {detail}", by=by)
        else:
            chk.bad("A3.recursion", key, where, f"witness `{kind}` for the recursive SCC {members[:4]}... does not hold: {detail}")


def _acyclic_without(prog, comp, removed):
    nodes = set(comp) - set(removed)
    for c in prog.sccs(nodes):
        if len(c) > 1 or c[0] in prog.edges.get(c[0], ()):
            return False, [prog.bodies[x].short for x in c][:4]
    return True, None


def _in_scc_calls(prog, body, comp):
    out = []
    for bb, t in body.calls():
        if "fn" not in t:
            continue
        c = Callee(t["fn"])
        tg = prog.targets_of_callee(c)
        if any(x.id in comp for x in tg):
            out.append((bb, t, c))
    return out


def closure_runs_under(prog, g, cb, entry_block):
    """every place in g where the closure cb is invoked or handed to something that invokes it (`f(self)`,
    `opt.map(|x| ..)`) is dominated by entry_block; False when there is no such place to be seen"""
    sites = []
    for (bb, t, c) in g.call_sites(lambda c: True):
        for a in t.get("args", []):
            if R.closure_id_of_operand(g, a) == cb.id:
                sites.append(bb)
    return bool(sites) and all(g.dominates(entry_block, bb) for bb in sites)


def v_depth_guard(prog, comp, name, par):
    g = prog.body(par["guard_fn"])
    if g.id not in comp:
        return False, "guard function is not part of the SCC"
    ac, cyc = _acyclic_without(prog, comp, [g.id])
    if not ac:
        return False, f"a cycle avoids the guard function: {cyc}"
    guards = R.calls_to(g, R.path_is(par["guard_call"]))
    if len(guards) != 1:
        return False, f"{len(guards)} calls to the guard"
    gb, gt, _ = guards[0]
    brk = R.try_break_edges(g, gt["dest"][0])
    if not brk:
        return False, "the guard's Result is not propagated with `?`"
    sb = brk[0][0]
    cont = [tgt for v, tgt in g.term(sb)["vals"] if v == 0]
    inner = _in_scc_calls(prog, g, comp)
    # closures of g could also call into the SCC
    for cb in prog.closures_of(g):
        if _in_scc_calls(prog, cb, comp) or cb.id in comp:
            # the dispatch may sit in a closure run by a scope guard (`context.one_level_deeper(|context| match ..)`):
            # it is inside the guard when it only ever runs behind the Ok continuation
            if cont and closure_runs_under(prog, g, cb, cont[0]):
                continue
            return False, f"closure {cb.short} re-enters the SCC outside the guard"
    bad = [t.get("line") for (bb, t, c) in inner if not (cont and g.dominates(cont[0], bb))]
    if bad:
        return False, f"in-SCC call(s) at line(s) {bad} are not dominated by the Ok continuation of {par['guard_call'].split('::')[-1]}()?"
    # the guard itself compares a counter with depth_limit and fails (C17 decides the exact predicate)
    gf = prog.body(par["guard_call"])
    has_cmp = bool(R.place_reads(gf, (".depth_limit",))) and R.constructs_variant(gf, gf.reachable, "svgdx::errors::SvgdxError", "DepthLimitExceeded")
    if not has_cmp:
        return False, "guard function no longer compares with depth_limit / returns DepthLimitExceeded"
    return True, f"every cycle passes {g.short}; its {len(inner)} in-SCC calls are dominated by the Ok continuation of inc_depth()?, which fails beyond depth_limit"


def v_nesting_counter(prog, comp, name, par):
    g = prog.body(par["guard_fn"])
    ac, cyc = _acyclic_without(prog, comp, [g.id])
    if not ac:
        return False, f"a cycle avoids the guard function: {cyc}"
    field = par["field"]
    incs = []
    for b, i, s in g.all_stmts():
        if "lhs" in s and tuple(s["lhs"][1])[-1:] == (field,):
            pl = P(s["lhs"])
            if R.increments_of(g, pl):
                incs = R.increments_of(g, pl)
    if len(incs) != 1:
        return False, f"{len(incs)} increments of {field} in {g.short}"
    ib, ii, _ = incs[0]
    # comparison of the field with a constant, true edge -> Err
    test = None
    for b, i, s in g.all_stmts():
        rv = s.get("rv")
        if rv and rv["k"] == "binop" and rv["op"] in ("Gt", "Ge"):
            a = g.chase(rv["a"])
            if a[0] == "place" and a[1][1] and a[1][1][-1] == field:
                lim = const_int(rv["b"])
                if lim is None:
                    o = R.origin(g, rv["b"], carriers={})
                    lim = o[1].get("int") if o[0] == "const" else None
                if lim is not None:
                    t = g.term(b)
                    if t["k"] == "switch":
                        test = (b, t, lim)
    if test is None:
        return False, "no comparison of the nesting counter with a constant limit"
    tb, tt, lim = test
    true_t, false_t = R.switch_targets_bool(tt)
    if not (g.dominates(ib, tb) and R.assigns_result_variant(g, g.reach([true_t]), "Err")):
        return False, "the limit test does not follow the increment or does not return Err"
    inner = _in_scc_calls(prog, g, comp)
    bad = [t.get("line") for (bb, t, c) in inner if not g.dominates(false_t, bb)]
    if bad or not inner:
        return False, f"in-SCC call(s) at line(s) {bad} are not behind the limit test"
    if lim > 1000:
        return False, f"nesting limit {lim} is too large for the stack"
    # inheritance: every evaluator state created inside the SCC copies the counter before re-entering the SCC
    st = par["state_ty"]
    for cid in comp:
        b = prog.bodies[cid]
        for (bb, t, c) in b.call_sites(lambda c: True):
            if not t.get("dty", "").startswith(st):
                continue
            if c.path.split("::")[-1] in ("clone",):
                continue
            new_local = t["dest"][0]
            # follow a move into a named local
            aliases = {new_local}
            for (ub, ui, node, how) in R.uses_of(b, new_local):
                if ui != R.TERM and how == "operand" and node["rv"]["k"] == "use" and not node["lhs"][1]:
                    aliases.add(node["lhs"][0])
            copies = []
            for ub, ui, s in b.all_stmts():
                if "lhs" in s and s["lhs"][0] in aliases and tuple(s["lhs"][1]) == (field,):
                    src = b.chase(s["rv"].get("op")) if s["rv"]["k"] == "use" else None
                    if src and src[0] == "place" and src[1][1] and src[1][1][-1] == field:
                        copies.append((ub, ui))
            inner_b = [(ib2, R.TERM) for (ib2, it2, ic2) in _in_scc_calls(prog, b, comp)]
            esc = R.escapes(b, (bb, R.TERM), copies, exits={x for (x, _) in inner_b})
            esc = [p for p in esc if b.term(p[-1])["k"] != "ret"]
            if esc or not copies:
                return False, f"{b.short} creates a new evaluator state (line {t.get('line')}) and re-enters the evaluator without carrying the nesting counter over: nesting restarts from 0 at every variable reference"
    return True, f"every cycle passes {g.short}, which counts nesting in `{field.strip('.')}` and fails beyond {lim}; new evaluator states inherit the counter"


def v_visited_set(prog, comp, name, par):
    g = prog.body(name)
    inner = _in_scc_calls(prog, g, comp)
    if not inner:
        return False, "no recursive call"
    contains = R.calls_to(g, lambda c: c.path.endswith("::contains") and ("Vec" in c.self_ty or "[" in c.inst))
    pushes = R.calls_to(g, R.path_endswith("Vec::<T, A>::push"))
    if not contains or not pushes:
        return False, "no contains()/push() on a visited list"
    cb, ct, _ = contains[0]
    seen_key = R.origin(g, ct["args"][0], carriers={"deref": 0, "deref_mut": 0, "as_slice": 0})
    st = g.term(ct["t"])
    if st["k"] != "switch":
        return False, "contains() result is not branched on"
    true_t, false_t = R.switch_targets_bool(st)
    if not R.assigns_result_variant(g, g.reach([true_t], avoid=[false_t]), "Err"):
        return False, "an already visited key does not lead to Err"
    pb = [b for (b, t, c) in pushes if R.origin(g, t["args"][0], carriers={"deref": 0, "deref_mut": 0}) == seen_key or True]
    for (ib, it, ic) in inner:
        if not g.dominates(false_t, ib):
            return False, f"recursive call at line {it.get('line')} is not behind the visited test"
        if not any(g.dominates(b, ib) for b in pb):
            return False, "the current key is not recorded before recursing"
        # same visited list is passed on
        passed = [R.origin(g, a, carriers={"deref": 0, "deref_mut": 0}) for a in it["args"]]
        if seen_key not in passed:
            return False, "the recursive call does not receive the same visited list"
    return True, "the recursive call is behind `seen.contains(key) -> Err`, the key is pushed first and the same list is passed on: each element is visited at most once"


def v_variant_change(prog, comp, name, par):
    g = prog.body(name)
    inner = _in_scc_calls(prog, g, comp)
    # the function switches on the discriminant of its enum argument; recursive calls pass constant variants
    # that are different from the arm they are in
    arms = {}
    for b in sorted(g.reachable):
        sd = R.switch_discr_place(g, b)
        if sd is not None and 0 < sd[0][0] <= g.argc:
            for v, tgt in g.term(b)["vals"]:
                arms[tgt] = v
    if not arms:
        return False, "no dispatch on an enum argument"
    for (ib, it, ic) in inner:
        arm = None
        for tgt, v in arms.items():
            if g.dominates(tgt, ib):
                arm = v
        passed = None
        for a in it["args"]:
            o = R.origin(g, a, carriers={})
            if o[0] == "rv" and o[1].get("k") == "aggr" and o[1].get("ak") == "adt" and not o[1]["ops"]:
                passed = o[1]["vidx"]
            k = op_const(a)
            if k is not None and "disp" in k and "::" in k.get("ty", ""):
                passed = k["disp"]
        if arm is None or passed is None or passed == arm:
            return False, f"recursive call at line {it.get('line')} does not pass a constant variant different from its own arm (arm={arm}, passed={passed})"
        # the passed variant's arm must not recurse itself
        tgt_arm = [tgt for tgt, v in arms.items() if v == passed]
        if tgt_arm and any(g.dominates(tgt_arm[0], b2) for (b2, _, _) in inner):
            return False, "the target arm recurses again"
    return True, f"{len(inner)} recursive call(s) pass constant enum variants whose arms do not recurse (depth 1)"


def v_resolved_target(prog, comp, name, par):
    g = prog.body(name)
    inner = _in_scc_calls(prog, g, comp)
    res = prog.body(par["resolver"])
    for (ib, it, ic) in inner:
        p, o = R.call_origin_path(g, it["args"][0])
        if p != res.path:
            return False, f"recursive call at line {it.get('line')} is not made on the result of {res.short}"
    # the resolver returns Ok only after its loop exited on `name != use && name != reuse`
    eqs = []
    for (b, t, c) in res.call_sites(lambda c: c.decl_path == "std::cmp::PartialEq::eq"):
        lit = None
        for a in t["args"]:
            o = R.origin(res, a, carriers={})
            if o[0] == "const" and "str" in o[1]:
                lit = o[1]["str"]
        if lit in par["names"]:
            eqs.append((b, t, lit))
    if sorted(l for (_, _, l) in eqs) != sorted(par["names"]):
        return False, f"resolver does not compare the element name with {par['names']}"
    ok_blocks = {b for b in res.reachable for s in res.stmts(b) if "lhs" in s and s["lhs"][0] == 0 and not s["lhs"][1] and s["rv"].get("variant") == "Ok"}
    eq_blocks = {b for (b, _, _) in eqs}
    for (b, t, lit) in eqs:
        st = res.term(t["t"])
        if st["k"] != "switch":
            return False, "name comparison not branched on"
        true_t, false_t = R.switch_targets_bool(st)
        if ok_blocks & res.reach_flags([true_t], avoid=eq_blocks):
            return False, f"resolver can return an element named `{lit}`"
    if prog.bodies[res.id].id in comp:
        return False, "resolver is itself part of the recursion"
    return True, f"the recursive call is made on {res.short}(), which returns only elements that are neither `use` nor `reuse`, so the recursion arm is not entered again (depth 1)"


def v_data_structural(prog, comp, name, par):
    return True, par["reason"]


VERIFY = {
    "depth-guard": v_depth_guard,
    "nesting-counter": v_nesting_counter,
    "visited-set": v_visited_set,
    "variant-change": v_variant_change,
    "resolved-target": v_resolved_target,
    "data-structural": v_data_structural,
}
