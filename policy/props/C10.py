"""C10 Forward references: geometry is independent of document order (mechanisms)."""
import re
from sa import rules as R
from sa.prog import P, Callee, op_place, op_const, const_str

EXPLANATION = (
    "Decides the mechanisms of the retry scheme: (1) an unknown reference is an error - at every ElementMap::get_element call "
    "site the None outcome leads to an Err exit (directly, or through ok_or/ok_or_else + `?`), never to a normal result; "
    "(2) registration discipline - every update_element(E) is dominated by the successful evaluation/generation of E, and in "
    "process_tags registration and evaluation of a tag happen in the same pass of the same loop; the early registration of the "
    "still unresolved element in process_tags is reported as the known defect it is; (3) a failed attempt leaves no state "
    "behind that a retry could observe: depth counter and variable scope are restored on error exits (shared with C17/C15); "
    "(4) the retry loop terminates with an error when no element makes progress and output is re-ordered by document index "
    "(shared with C01/C06); (5) errors are what defers an unresolved element, so the places where a Result<_, SvgdxError> is not "
    "propagated are frozen in a reviewed table (a new swallow site - `.ok()`, `unwrap_or`, `filter_map`, an unread Err arm - "
    "is reported), and a missing bounding box is never turned into a default number (no defaulting combinator on "
    "Option<BoundingBox>). Undecided: coordinate invariance under the n! sibling orders (a statement about the fix-point's values)."
)
TRUSTED = []
ASSUMPTIONS = ["errors raised while an element cannot be resolved make process_tags retry it later"]

GET = "svgdx::context::ElementMap::get_element"
UPD = "svgdx::context::TransformerContext::update_element"
EL = "svgdx::element::SvgElement"
EVALS = (EL + "::resolve_position", EL + "::eval_attributes", "svgdx::transform::process_events")


def _flows_to(body, l, depth=8):
    """locals that (part of) the value in `l` can flow into: moves / copies of the value or of a projection of it,
    and results of calls that take it as an argument"""
    out, work = {l}, [(l, depth)]
    while work:
        a, d = work.pop()
        if d <= 0:
            continue
        for (b, i, node, how) in R.uses_of(body, a):
            nl = None
            if i != R.TERM and "lhs" in node and not node["lhs"][1] and node["rv"].get("k") in ("use", "cast", "ref"):
                nl = node["lhs"][0]
            elif i == R.TERM and node.get("k") == "call" and node.get("dest") and not node["dest"][1]:
                nl = node["dest"][0]
            if nl is not None and nl not in out:
                out.add(nl)
                work.append((nl, d - 1))
    return out


def registration_keys_agree(prog, chk):
    """the id map is written (update_element) and un-written (every context method that removes from it) under the same
    key: if one side evaluates the `id` attribute (eval_attr) before using it, so does the other.  Otherwise an element
    whose id is spelled with a variable or expression is registered under one key and withdrawn under another - the
    withdrawal does nothing and the unresolved element stays visible to references."""
    CTXP = "svgdx::context::TransformerContext::"

    def key_ops(method_names):
        out = []
        for b in prog.bodies.values():
            if not b.path.startswith(CTXP) or "{closure" in b.path:
                continue
            for (bb, t, c) in b.call_sites(lambda c: "HashMap" in c.inst and c.path.split("::")[-1] in method_names):
                o = R.origin(b, t["args"][0], carriers={}) if t["args"] else ("?",)
                if len(t["args"]) < 2:
                    continue
                if not (o[0] == "field" and str(o[1][1][-1]) == ".elem_map"):
                    # not a field of that name: the *current* id map is then the one both inserted into and removed from
                    # (the snapshot map is only inserted into); decided below by pairing
                    if not ("SvgElement" in c.inst and "String" in c.inst):
                        continue
                k = R.origin(b, t["args"][1], carriers=dict(R.CARRIERS, unwrap_or=0, unwrap_or_else=0, unwrap_or_default=0, clone=0, as_str=0, deref=0))
                evaluated = k[0] == "call" and "fn" in k[2] and Callee(k[2]["fn"]).path == "svgdx::expression::eval_attr"
                if not evaluated:
                    # the key may be named first: can the result of an eval_attr call flow into the key local (whole, as
                    # the Ok payload of a match, through unwrap_or / clone ...)?
                    kls = {R.origin_local(b, t["args"][1]), (op_place(t["args"][1]) or (None,))[0]} - {None}
                    for (eb, et, ec) in b.call_sites(lambda c: c.path == "svgdx::expression::eval_attr"):
                        if kls & _flows_to(b, et["dest"][0]):
                            evaluated = True
                out.append((b, bb, t, evaluated))
        return out

    ins = key_ops(("insert",))
    rem = key_ops(("remove", "remove_entry"))
    chk.floor("A16.registration-key", min(len(ins), len(rem)), 1, "insert into / removal from the id map in TransformerContext")
    if not ins or not rem:
        return
    ins_eval = {e for (_, _, _, e) in ins}
    for (b, bb, t, e) in rem:
        chk.ob({e} == ins_eval, "A16.registration-key", f"{b.short}:remove", b.where(bb, t.get("line")), "the id map entry is removed under the key it was inserted under (the evaluated id on both sides)", f"{b.short} removes the id map entry under the {'evaluated' if e else 'unevaluated'} id while update_element inserts under the {'evaluated' if True in ins_eval else 'unevaluated'} one: for id=\"b$k\" / id=\"b{{{{1}}}}\" the provisional registration of a deferred element is never withdrawn and references resolve against the half-defined element")


def run(prog, chk):
    chk.rule(unknown_ref_is_error, prog, chk)
    chk.rule(registration, prog, chk)
    chk.rule(registry_discipline, prog, chk)
    chk.rule(lookups_read_current_state, prog, chk)
    chk.rule(registration_keys_agree, prog, chk)
    from props import C17, C15, C01_loops, C06
    chk.rule(C17.depth_pairing, prog, chk)
    chk.rule(C15.scope_pairing, prog, chk, "A5.scope")
    chk.rule(retry_terminates, prog, chk)
    chk.rule(retry_progress, prog, chk)
    chk.rule(containment_every_target, prog, chk)
    from props import C04
    chk.rule(C04.endpoints_overwritten_only_when_absent, prog, chk)  # an end point that still holds an unresolved reference is not "absent"
    from props import geomalg
    chk.rule(geomalg.check_sites, prog, chk, "C10")  # the box of a referenced element is the one its attributes define (a defaulted coordinate is a silent resolution)
    chk.rule(C06.output_order, prog, chk)
    chk.rule(error_swallow, prog, chk)
    chk.rule(consumed_only_when_resolved, prog, chk)
    chk.rule(missing_bbox_default, prog, chk)
    from props import strops
    chk.rule(strops.check_for, prog, chk, "C10")  # A14.str-ops: how this property's strings are cut up is a reviewed, frozen inventory


def _err_blocks(body):
    out = set()
    for b in body.reachable:
        for s in body.stmts(b):
            if "lhs" in s and s["lhs"][0] in body.ret_locals and not s["lhs"][1] and s["rv"].get("k") == "aggr" and s["rv"].get("variant") == "Err":
                out.add(b)
        t = body.term(b)
        if t["k"] == "call" and "fn" in t and Callee(t["fn"]).decl_path == "std::ops::FromResidual::from_residual" and t["dest"][0] in body.ret_locals:
            out.add(b)
    return out


def _moved_to(body, l, err_preserving=False):
    """locals the whole value of `l` is moved / copied into (a spliced helper hands its result on through such moves)"""
    out, work = {l}, [l]
    while work:
        a = work.pop()
        for (b, i, node, how) in R.uses_of(body, a):
            if i != R.TERM and how == "operand" and node["rv"]["k"] == "use" and not node["lhs"][1]:
                pl = op_place(node["rv"]["op"])
                if pl and pl[0] == a and not pl[1] and node["lhs"][0] not in out:
                    out.add(node["lhs"][0])
                    work.append(node["lhs"][0])
            elif i == R.TERM and how == "arg" and node["k"] == "call" and "fn" in node and err_preserving:
                # `.map(..)`, `.inspect_err(..)`, `.map_err(..)`, `.and_then(..)` on a Result keep an Err an Err
                c = Callee(node["fn"])
                a0 = op_place(node["args"][0]) if node["args"] else None
                if a0 and a0[0] == a and not a0[1] and "Result" in c.path and c.path.split("::")[-1] in ("map", "inspect_err", "inspect", "map_err", "and_then") \
                        and not node["dest"][1] and node["dest"][0] not in out:
                    out.add(node["dest"][0])
                    work.append(node["dest"][0])
    return out


def option_none_fate(prog, body, opt_local, depth=6):
    """what happens when the Option in `opt_local` is None: 'err' | 'ok-exit' (path) | 'unused'"""
    aliases = {opt_local}
    work = [opt_local]
    verdicts = []
    while work and depth > 0:
        depth -= 1
        a = work.pop()
        for (b, i, node, how) in R.uses_of(body, a):
            if how == "drop":
                continue
            if i == R.TERM and node["k"] == "call" and "fn" in node:
                c = Callee(node["fn"])
                last = c.path.split("::")[-1]
                a0 = op_place(node["args"][0]) if node["args"] else None
                if a0 and a0[0] == a and last in ("ok_or", "ok_or_else"):
                    rs = _moved_to(body, node["dest"][0], err_preserving=True)
                    brk = any(R.try_break_edges(body, r) for r in rs)
                    if brk or (rs & body.ret_locals):
                        verdicts.append(("err", f".{last}(..)?"))
                    else:
                        verdicts.append(("ok-exit", [b]))
                elif a0 and a0[0] == a and last in ("cloned", "copied", "as_ref", "map", "and_then", "filter") and not node["dest"][1]:
                    l = node["dest"][0]
                    if l not in aliases:
                        aliases.add(l)
                        work.append(l)
                elif a0 and a0[0] == a and last in ("unwrap", "expect"):
                    verdicts.append(("err", "unwrap (panic site, decided by C01)"))
                elif a0 and a0[0] == a and last in ("is_some", "is_none"):
                    pass
                elif a0 and a0[0] == a:
                    verdicts.append(("passed", c.path))
            elif i != R.TERM and how == "operand" and node["rv"]["k"] == "use" and not node["lhs"][1]:
                pl = op_place(node["rv"]["op"])
                if pl and pl[0] == a and not pl[1]:
                    l = node["lhs"][0]
                    if l not in aliases and l != 0:
                        aliases.add(l)
                        work.append(l)
            elif i != R.TERM and how == "discr":
                # switch on the discriminant: where does None lead?
                t = body.term(b)
                if t["k"] != "switch":
                    continue
                m = {v: tgt for v, tgt in t["vals"]}
                none_t = m.get(0, t["otherwise"])
                others = [x for x in body.succ[b] if x != none_t]
                errs = _err_blocks(body)
                esc = R.escapes(body, (b, R.TERM), [(x, 0) for x in errs], closed_edges=[(b, x) for x in others])
                if esc:
                    verdicts.append(("ok-exit", esc[0]))
                else:
                    verdicts.append(("err", "None edge returns Err"))
    if not verdicts:
        return "unused", ""
    bad = [v for v in verdicts if v[0] == "ok-exit"]
    if bad:
        return "ok-exit", bad[0][1]
    if any(v[0] == "err" for v in verdicts):
        return "err", "; ".join(sorted({v[1] for v in verdicts if v[0] == "err"}))
    return "passed", "; ".join(str(v[1]) for v in verdicts)


# get_element sites where None is deliberately not an error: reason
NONE_OK = {
    "svgdx::connector::Connector::from_element": "the Option is stored (start_el / end_el) and every later use goes through `.ok_or_else(InternalLogicError)?`; checked below by following the stored locals",
}


def unknown_ref_is_error(prog, chk):
    n = 0
    for body in prog.bodies.values():
        sites = body.call_sites(lambda c: c.decl_path == GET)
        for k, (bb, t, c) in enumerate(sites):
            n += 1
            chk.touch(body)
            where = body.where(bb, t.get("line"))
            key = f"{body.short}:get_element#{k}" if len(sites) > 1 else f"{body.short}:get_element"
            fate, detail = option_none_fate(prog, body, t["dest"][0])
            if fate == "err":
                chk.ok("A6.unknown-ref", key, where, f"an unknown reference ends in an error ({detail})")
            elif fate == "ok-exit":
                chk.bad("A6.unknown-ref", key, where, f"when the referenced element is unknown this function can still return normally (via lines {R.path_lines(body, detail) if isinstance(detail, list) else detail}): the reference is silently ignored instead of failing / being retried")
            else:
                # the Option is stored / handed on (a struct field, a helper): what happens on None is decided elsewhere
                chk.undecided("A6.unknown-ref", key, where, f"the result of get_element is {fate} ({detail}); whether None leads to an error cannot be established here")
    chk.floor("A6.unknown-ref", n, 10, "get_element call site")


def _withdrawn_when_deferred(prog, body):
    """every push onto the retry queue in `body` is dominated by a call to a context method that removes an entry from
    the id map (elem_map)"""
    CTXP = "svgdx::context::TransformerContext::"
    withdrawers = set()
    for b in prog.bodies.values():
        if not b.path.startswith(CTXP) or "{closure" in b.path:
            continue
        for (bb, t, c) in b.call_sites(lambda c: "HashMap" in c.inst and c.path.split("::")[-1] in ("remove", "remove_entry")):
            o = R.origin(b, t["args"][0], carriers={}) if t["args"] else ("?",)
            if (o[0] == "field" and str(o[1][1][-1]) == ".elem_map") or ("SvgElement" in c.inst and "String" in c.inst):
                withdrawers.add(b.path)  # removes an entry of an id -> element map (by field name or by the map's type)
    if not withdrawers:
        return False
    ws = [bb for (bb, t, c) in body.call_sites(lambda c: c.path in withdrawers)]
    pushes = [bb for (bb, t, c) in body.call_sites(R.path_endswith("::push")) if "svgdx::events::Tag" in c.inst and "OrderIndex" in c.inst]
    if not ws or not pushes:
        return False
    from sa import discharge as D

    def only_needs_an_element(w, pb):
        """w precedes pb in the same pass, under no condition beyond those of pb except "the tag is an element"
        (text / comment tags have no registration to withdraw)"""
        if body.dominates(w, pb):
            return True
        if pb not in body.reach([w]):
            return False
        extra = [e for e in D.dominating_edges(body, w) if e not in D.dominating_edges(body, pb)]
        for (a, x) in extra:
            t = body.term(a)
            o = R.origin(body, t["op"], carriers={})
            ty = ""
            if o[0] == "rv" and o[1].get("k") == "discr":
                ty = o[1].get("ty", "")
            elif o[0] == "call" and "fn" in o[2] and Callee(o[2]["fn"]).path.split("::")[-1] in ("is_some", "is_none"):
                ty = Callee(o[2]["fn"]).inst
            if "SvgElement" not in ty or "Option" not in ty:
                return False
        return True

    return all(any(only_needs_an_element(w, pb) for w in ws) for pb in pushes)


def registry_discipline(prog, chk):
    """two maps hold elements by id: `elem_map`, the elements as resolved so far (what a positional reference may
    see), and `original_map`, the elements as written (what `<reuse>` instantiates).  (1) The only function that looks
    an id up for a reference (get_element) reads elem_map and nothing else - an element that was withdrawn because it
    is not resolved yet must not be found again in its as-written form; (2) forget_element withdraws on every path on
    which the element has an id: whether the stale entry "looks usable" is not a reason to keep it"""
    CTX = "svgdx::context::TransformerContext"
    ge = prog.maybe_body(f"<{CTX} as svgdx::context::ElementMap>::get_element")
    if ge is None:
        chk.anchor_missing("A13.registry", "TransformerContext::get_element not found")
    else:
        chk.touch(ge)
        scope = [ge] + list(prog.closures_of(ge))
        orig = [(bd, x) for bd in scope for (x, i, node) in R.place_reads(bd, (".original_map",))]
        cur = [(bd, x) for bd in scope for (x, i, node) in R.place_reads(bd, (".elem_map",))]
        if not cur and not orig:
            chk.undecided("A13.registry", "get_element:source", ge.where(), "get_element reads neither elem_map nor original_map directly: where it looks an id up is not read here")
        else:
            chk.ob(not orig, "A13.registry", "get_element:source", ge.where(), "get_element looks an id up among the resolved elements only", f"get_element also consults original_map ({orig[0][0].where(orig[0][1]) if orig else ''}): an element withdrawn because it is not resolved yet is found again as it was written - a reference to it is resolved against a default-positioned box instead of being deferred")
    fe = prog.maybe_body(f"{CTX}::forget_element")
    if fe is None:
        chk.anchor_missing("A13.registry", "TransformerContext::forget_element not found")
        return
    chk.touch(fe)
    rem = [bb for (bb, t, c) in fe.call_sites(lambda c: c.path.split("::")[-1] in ("remove", "remove_entry") and ("HashMap" in c.path or "BTreeMap" in c.path)) if R.origin(fe, t["args"][0], carriers={"deref_mut": 0, "deref": 0})[0] == "field"]
    ev = [bb for (bb, t, c) in fe.call_sites(lambda c: c.path.endswith("expression::eval_attr"))]
    if not rem or not ev:
        chk.undecided("A13.registry", "forget_element:unconditional", fe.where(), f"forget_element: {len(rem)} removal(s) from a map field and {len(ev)} evaluation(s) of the id found: whether every element with an id is withdrawn is not read here")
        return
    # what the removal depends on: only on there being an id (tests of an Option / Result that carries the id string)
    from sa import discharge as D

    other = []
    for rb in rem:
        for (a, x) in D.dominating_edges(fe, rb):
            ta = fe.term(a)
            if ta["k"] != "switch":
                continue
            sd = R.switch_discr_place(fe, a)
            if sd is not None:
                ty = sd[1]
                if ("String" in ty or "str" in ty) and ty.startswith(("std::option::Option<", "std::result::Result<", "std::ops::ControlFlow<")):
                    continue
                other.append(f"a test of a {ty[:60]} value ({fe.where(a)})")
                continue
            o = R.origin(fe, ta["op"], carriers={})
            if o[0] == "rv" and o[1].get("k") == "unop" and o[1].get("op") == "Not":
                o = R.origin(fe, o[1]["a"], carriers={})
            if o[0] == "call" and "fn" in o[2] and Callee(o[2]["fn"]).path.split("::")[-1] in ("is_some", "is_none", "is_ok", "is_err") and ("String" in (Callee(o[2]["fn"]).inst or "") or "str" in (Callee(o[2]["fn"]).inst or "")):
                continue
            other.append(f"a condition at {fe.where(a)}")
    chk.ob(not other, "A13.registry", "forget_element:unconditional", fe.where(rem[0]), "forget_element removes the entry whenever the element has an id: the removal depends on nothing else", f"the removal in forget_element also depends on {other[0] if other else ''}: a deferred element can stay registered in its provisional form, and an earlier sibling that refers to it is resolved against that - wrong position, wrong extent")


def lookups_read_current_state(prog, chk):
    """what a reference resolves to is read from the registry as it is now: the lookups take `&self`, and the context
    has no interior-mutable storage (Cell / RefCell / Mutex / OnceCell ..) other than the random generator in which a
    lookup could remember an answer.  A remembered box outlives the change (a later loop pass, a retry, an element with
    an evaluated id) that makes it wrong"""
    a = prog.adt("svgdx::context::TransformerContext")
    fields = (a.get("variants") or [{}])[0].get("fields", [])
    if not fields:
        chk.anchor_missing("A13.registry", "fields of TransformerContext not found")
        return
    cells = [(f["name"], f["ty"]) for f in fields if re.search(r"(^|[<, ])std::(cell::(RefCell|Cell|OnceCell|UnsafeCell|LazyCell)|sync::(Mutex|RwLock|OnceLock|LazyLock|atomic::))", f["ty"])]
    extra = [(n_, t_) for (n_, t_) in cells if not ("rand" in t_ or "Lcg" in t_ or "Pcg" in t_ or "Rng" in t_)]
    chk.ob(not extra, "A13.registry", "context:interior-state", f"{a.get('file')}:{a.get('line')}", f"the transformer context has no interior-mutable field besides the random generator ({len(fields)} fields)", f"TransformerContext has interior-mutable field(s) {[n_ + ': ' + t_[:70] for n_, t_ in extra]}: functions that take `&self` (get_element_bbox, get_element ..) can remember what they answered - a box computed for one state of the registry is returned for another (an id produced by an expression in a loop, an element placed on a retry)")


def registration(prog, chk):
    n = 0
    for body in prog.bodies.values():
        for (bb, t, c) in body.call_sites(R.path_is(UPD)):
            n += 1
            chk.touch(body)
            where = body.where(bb, t.get("line"))
            key = f"{body.short}:update_element"
            ok = False
            how = ""
            # dominated by the Ok continuation of an evaluation/generation call
            for (eb, et, ec) in body.call_sites(lambda c: c.path in EVALS or (c.decl_path == "svgdx::transform::EventGen::generate_events" or c.path.endswith(" as svgdx::transform::EventGen>::generate_events"))):
                r = et["dest"][0]
                brk = R.try_break_edges(body, r)
                cont = None
                if brk:
                    sb = brk[0][0]
                    cont = [tgt for v, tgt in body.term(sb)["vals"] if v == 0]
                else:
                    # `match call() { Ok(..) => .., Err(e) => return }` or `let res = call(); ...; res?`
                    sw = R.find_switch_on_discr(body, et["t"], r)
                    if sw:
                        cont = [tgt for v, tgt in sw[1]["vals"] if v == 0]
                    else:
                        for (xb, xi, node, hw) in R.uses_of(body, r):
                            if xi != R.TERM and hw == "operand" and node["rv"]["k"] == "use" and not node["lhs"][1]:
                                b2 = R.try_break_edges(body, node["lhs"][0])
                                if b2:
                                    cont = [tgt for v, tgt in body.term(b2[0][0])["vals"] if v == 0]
                conts = list(cont or [])
                # ... the same after the result was handed on (out of a spliced helper, into a named local, behind `&`)
                for r2 in _moved_to(body, r):
                    for (sb2, _tgt) in R.try_break_edges(body, r2):
                        conts += [tgt for v, tgt in body.term(sb2)["vals"] if v == 0]
                for (sb2, st2) in R.discr_switches_of(body, r):
                    conts += [tgt for v, tgt in st2["vals"] if v == 0]
                if any(body.dominates(c0, bb) for c0 in conts):
                    ok = True
                    how = ec.path.split("::")[-1]
            owner_ = prog.bodies.get(body.root) if body.kind == "Closure" and body.root in prog.bodies else body
            if not ok and (_withdrawn_when_deferred(prog, body) or (owner_ is not body and _withdrawn_when_deferred(prog, owner_))):
                chk.ok("A13.registration", key, where, "the element is registered provisionally (so that it is a <reuse> target at once); when its evaluation fails the registration is withdrawn before the element is queued for retry, so nothing resolves against the unresolved element")
                continue
            n_eval_ = len(body.call_sites(lambda c: c.path in EVALS or (c.decl_path == "svgdx::transform::EventGen::generate_events" or c.path.endswith(" as svgdx::transform::EventGen>::generate_events"))))
            if not ok and not n_eval_ and any(cb_.call_sites(lambda c: c.path in EVALS or c.decl_path == "svgdx::transform::EventGen::generate_events" or c.path.endswith(" as svgdx::transform::EventGen>::generate_events")) for cb_ in prog.closures_of(body)):
                # the evaluation whose success licenses the registration runs in a closure of this function (a scope guard
                # runs it): which continuation is "it succeeded" is not read here
                chk.undecided("A13.registration", key, where, f"{body.short} evaluates the element inside a closure; that update_element follows its success is not traced through the closure's caller")
                continue
            if ok:
                chk.ok("A13.registration", key, where, f"the element is registered only after its successful {how}()")
            else:
                chk.bad(
                    "A13.registration",
                    key,
                    where,
                    "an element is registered in the id map before it has been resolved: a sibling that refers to it in an earlier pass sees the raw element, whose bounding box silently defaults missing x/y to 0 when it is spelled with width/height (the reference is then resolved against a default-positioned element instead of being retried)",
                )
    chk.floor("A13.registration", n, 6, "update_element call site")
    # registration and evaluation of a tag happen in the same pass of the same loop
    pt = prog.body("svgdx::transform::process_tags")
    ups = pt.call_sites(R.path_is(UPD))
    # ... also through a closure handed to a combinator right there (`t.get_element().inspect(|el| context.update_element(el))`)
    for (xb_, xt_, xc_) in pt.call_sites(lambda c: True):
        for a_ in xt_.get("args", []):
            cid_ = R.closure_id_of_operand(pt, a_)
            cb_ = prog.bodies.get(cid_) if cid_ is not None else None
            if cb_ is not None and cb_.call_sites(R.path_is(UPD)):
                ups.append((xb_, xt_, xc_))
    gens = pt.call_sites(lambda c: (c.decl_path == "svgdx::transform::EventGen::generate_events" or c.path.endswith(" as svgdx::transform::EventGen>::generate_events")))
    if not ups or not gens:
        chk.undecided("A13.registration-order", "process_tags", pt.where(), "process_tags does not call update_element / generate_events itself: in which pass an element is registered is not read here")
        return
    ok = bool(ups) and bool(gens)
    for (ub, ut, uc) in ups:
        lu = R.loop_containing(pt, ub)
        lg = R.loop_containing(pt, gens[0][0]) if gens else None
        same = lu is not None and lg is not None and lu[0] == lg[0]
        reaches = same and gens[0][0] in pt.reach([ub], avoid=[lu[0]])
        ok = ok and same and reaches
    chk.ob(
        ok,
        "A13.registration-order",
        "process_tags",
        pt.where(),
        "in process_tags a tag is registered in the same loop pass in which it is evaluated (siblings later in document order are not yet in the id map on the first pass, so references to them fail and are retried)",
        "elements are registered ahead of the pass that evaluates them (e.g. a pre-pass over all siblings): a forward reference then resolves at once against the raw, unresolved target instead of failing and being retried",
    )


def retry_terminates(prog, chk):
    from props import C01_loops
    pt = prog.body("svgdx::transform::process_tags")
    for h, blocks in pt.loops.items():
        if C01_loops.iterator_driven(pt, h, blocks):
            continue
        ok, detail = C01_loops.w_len_exit(prog, pt, h, blocks, {}, {})
        chk.ob(ok, "A4.retry-terminates", "process_tags", pt.where(h), detail, "the retry loop of process_tags: " + detail)


def retry_progress(prog, chk):
    """the retry of deferred elements happens whenever an element resolved after the first failure of a pass: the
    progress measure read by the go-round-again test is advanced (strictly, unconditionally) by every successful
    element - a measure that can stand still on a success (a set keyed by a non-unique index, a flag set only when
    the element produced output) turns a forward reference into a reference error"""
    from sa import discharge as D
    from props.C01 import _derives_from_context

    pt = prog.body("svgdx::transform::process_tags")
    chk.touch(pt)
    CTX = "svgdx::context::TransformerContext::"
    # getters: context methods whose result feeds a switch of the retry loop
    getters = set()
    for x in pt.reachable:
        t = pt.term(x)
        if t["k"] != "switch" or not _derives_from_context(pt, t["op"]):
            continue
        work, seen = [t["op"]], 0
        while work and seen < 40:
            seen += 1
            o = R.origin(pt, work.pop(), carriers={})
            if o[0] == "call" and "fn" in o[2]:
                c = Callee(o[2]["fn"])
                if c.path.startswith(CTX) and not o[2]["args"][1:]:
                    getters.add(c.path)
                work += list(o[2]["args"])
            elif o[0] == "rv":
                rv = o[1]
                work += [rv[k] for k in ("op", "a", "b") if isinstance(rv.get(k), dict)] + list(rv.get("ops", []))
    fields = set()
    for g in sorted(getters):
        gb = prog.maybe_body(g)
        if gb is None:
            continue
        for b_, i, st in gb.all_stmts():
            if st.get("lhs") and st["lhs"][0] == 0 and st["rv"].get("k") == "use":
                pl = (st["rv"]["op"].get("c") or st["rv"]["op"].get("m")) if isinstance(st["rv"].get("op"), dict) else None
                if pl and pl[0] == 1 and pl[1] and str(pl[1][-1]).startswith("."):
                    fields.add(pl[1][-1])
    if not fields:
        # the measure is the size of a collection held by the context?
        for g in sorted(getters):
            gb = prog.maybe_body(g)
            if gb is None:
                continue
            for b_, i, st in gb.all_stmts():
                rv = st.get("rv") or {}
                if rv.get("k") == "ref" and rv["place"][0] == 1 and rv["place"][1] and str(rv["place"][1][-1]).startswith(".") and any(Callee(t["fn"]).path.split("::")[-1] == "len" for (_bb, t, _c) in gb.call_sites(lambda c: True)):
                    chk.bad("A7.retry-progress", f"{gb.short}:strict", gb.where(), f"the progress measure read by the retry decision is the size of the collection `{rv['place'][1][-1][1:]}`: noting an element whose key is already present does not advance it (keys that are only unique per nesting level or per loop iteration collide), so resolving an element can go unnoticed and the elements waiting for it are reported as reference errors instead of being retried")
                    return
    if not fields:
        chk.anchor_missing("A7.retry-progress", "process_tags: no progress measure (context getter returning a field) feeds the retry decision")
        return
    n = 0
    for fld in sorted(fields):
        setters = []
        for b in prog.bodies.values():
            if not b.path.startswith(CTX) or "{closure" in b.path:
                continue
            if any(st.get("lhs") and st["lhs"][0] == 1 and st["lhs"][1] and st["lhs"][1][-1] == fld for _, _, st in b.all_stmts()):
                setters.append(b)
        sites = [(bb, t, c) for sb in setters for (bb, t, c) in pt.call_sites(R.path_is(sb.path))]
        chk.ob(bool(sites), "A7.retry-progress", f"process_tags:{fld}:noted", pt.where(), f"process_tags advances the progress measure `{fld[1:]}` ({', '.join(sb.short for sb in setters)})", f"process_tags never advances the progress measure `{fld[1:]}` its retry decision reads")
        for sb in setters:
            chk.touch(sb)
            n += 1
            # strictly and unconditionally: no branch, and the field is assigned field + positive constant
            branches = [x for x in sb.reachable if sb.term(x)["k"] == "switch"]
            incr = False
            for b_, i, st in sb.all_stmts():
                rv = st.get("rv") or {}
                if rv.get("k") == "binop" and rv.get("op") in ("AddWithOverflow", "Add", "AddUnchecked"):
                    a, c2 = rv.get("a") or {}, rv.get("b") or {}
                    k = (c2.get("k") or {}).get("int") if isinstance(c2.get("k"), dict) else None
                    o = R.origin(sb, a, carriers={}) if a else ("?",)
                    from_field = o[0] == "field" and o[1][0] == 1 and o[1][1] and o[1][1][-1] == fld
                    if from_field and isinstance(k, int) and k > 0:
                        incr = True
            chk.ob(incr and not branches, "A7.retry-progress", f"{sb.short}:strict", sb.where(), f"{sb.short}() adds a positive constant to `{fld[1:]}` on every call", f"{sb.short}() does not advance `{fld[1:]}` on every call ({'conditional' if branches else 'no `+= constant`'}): resolving an element can go unnoticed and the elements waiting for it are reported as reference errors instead of being retried")
        for (bb, t, c) in sites:
            n += 1
            odd = []
            for (a, x) in D.dominating_edges(pt, bb):
                tt = pt.term(a)
                o = R.origin(pt, tt["op"], carriers={})
                for _ in range(4):
                    if o[0] == "rv" and o[1].get("k") in ("unop", "cast", "use") and isinstance(o[1].get("a") or o[1].get("op"), dict):
                        o = R.origin(pt, o[1].get("a") or o[1].get("op"), carriers={})
                ok = False
                if o[0] == "rv" and o[1].get("k") == "discr":
                    ty = o[1].get("ty", "")
                    # the outcome of the element's generate_events (whatever type carries its events and box), or the
                    # presence of the tag / element
                    ok = (ty.startswith("std::result::Result<") and "svgdx::errors::SvgdxError" in ty and "OutputList" not in ty.split("svgdx::errors::SvgdxError")[-1]) or (ty.startswith("std::option::Option<") and ("Tag)" in ty or "SvgElement" in ty))
                elif o[0] == "field":
                    ok = str(o[1][1][-1]) == ".in_specs"
                elif o[0] == "call" and "fn" in o[2]:
                    cp = Callee(o[2]["fn"])
                    last = cp.path.split("::")[-1]
                    aty = pt.local_ty(R.origin_local(pt, o[2]["args"][0]) or -1) or "" if o[2]["args"] else ""
                    ok = (last in ("is_some", "is_none") and "SvgElement" in (cp.inst + aty)) or last in ("is_empty", "is_ok", "is_err") and ("Tag" in (cp.inst + aty) or "svgdx::errors::SvgdxError" in (cp.inst + aty))
                elif o[0] == "rv" and o[1].get("k") == "binop":
                    # the retry loop's own `remain.len() != tags.len()` header: both sides are lengths of the tag lists
                    sides = [R.origin(pt, o[1][sd], carriers={}) for sd in ("a", "b") if isinstance(o[1].get(sd), dict)]
                    ok = len(sides) == 2 and all(sd[0] == "call" and "fn" in sd[2] and Callee(sd[2]["fn"]).path.split("::")[-1] == "len" and "Tag" in Callee(sd[2]["fn"]).inst for sd in sides)
                if not ok:
                    odd.append(pt.where(a, tt.get("line")))
            chk.ob(not odd, "A7.retry-progress", f"process_tags:{c.path.split('::')[-1]}:every-success", pt.where(bb, t.get("line")), "every element whose generate_events succeeded (outside <specs>) is noted as progress", f"progress is noted only under a further condition ({', '.join(odd)}): an element that resolved without satisfying it is not seen as progress, and elements waiting for it fail with a reference error")
    chk.floor("A7.retry-progress", n, 2, "progress setter / call site")


def containment_every_target(prog, chk):
    """surround= / inside= list element references: every pass of the loop over the list either adds that element's
    box to the list that is combined, or leaves the function with an error - a target without a box is never skipped"""
    b = prog.body("svgdx::element::SvgElement::handle_containment")
    chk.touch(b)
    pushes = [(bb, t) for (bb, t, c) in b.call_sites(R.path_endswith("Vec::<T, A>::push")) if "svgdx::position::BoundingBox" in c.inst]
    n = 0
    for (pb, pt) in pushes:
        lp = R.loop_containing(b, pb)
        if lp is None:
            continue
        n += 1
        h, blocks = lp
        # the Some edge of the loop's iterator: successors of the header region that stay in the loop
        back = [x for x in blocks if h in b.succ[x]]
        # can the header be reached again (a completed iteration) without passing the push?
        starts = [y for y in b.succ[h] if y in blocks] or [h]
        skip = [x for x in back if x in b.reach(starts, avoid={pb}) and x != pb]
        # the iterator advance itself sits between header and body; a path header -> ... -> header that avoids the push
        chk.ob(not skip, "A10.every-target", "handle_containment", b.where(pb, pt.get("line")), "every element listed in surround= / inside= contributes its box (or the element fails with MissingBoundingBox / a reference error)", f"handle_containment can finish a pass of its loop over the listed references without adding that element's box ({', '.join(b.where(x) for x in skip[:3])}): a listed element without a (or not yet with a) bounding box is skipped silently, so the region depends on document order instead of the element being deferred / rejected")
    chk.floor("A10.every-target", n, 1, "push of a listed element's box in handle_containment")


def error_swallow(prog, chk):
    """the set of places where an SvgdxError result is not propagated equals the reviewed baseline"""
    import collections
    import json
    import os
    from sa import errfate
    from props.C01 import strip_closures

    tp = os.path.join(os.path.dirname(os.path.dirname(os.path.abspath(__file__))), "tables", "error_swallow.json")
    with open(tp) as fh:
        table = json.load(fh)["entries"]
    # keyed by (function, callee, class): *how* the error is discarded (ok(), if let, is_ok, a match arm ...) is an idiom,
    # not a fact - but whether the error is *skipped* ("test") or *replaced by a value* ("default") is
    def klass(fate):
        return "default" if fate.split(":")[-1] in ("unwrap_or", "unwrap_or_else", "unwrap_or_default", "map_or", "map_or_else", "match-default") else "test"

    allow = {}
    for e in table:
        a = allow.setdefault((e["function"], e["callee"], klass(e["fate"])), dict(count=0, used=0, reason=e["reason"]))
        a["count"] += e["count"]
    # a helper that did not exist when the table was reviewed stands for the reviewed function(s) it was extracted from
    from props import strops
    _cnt, _where, edges, funcs = strops.survey(prog)
    known = strops.load_table()[1]
    ren = strops.renames(prog, edges, funcs)  # a renamed function keeps its reviewed rows
    ren_last = {k.split("::")[-1]: v.split("::")[-1] for k, v in ren.items()}
    callers = collections.defaultdict(set)
    for f, gs in edges.items():
        for g in gs:
            callers[g].add(f)

    def reviewed_owners(f):
        f = ren.get(f, f)
        if f in known:
            return [f]
        out, seen, work = [], {f}, [f]
        while work:
            g = work.pop()
            for c in callers.get(g, ()):
                if c in seen:
                    continue
                seen.add(c)
                if c in known:
                    out.append(c)
                else:
                    work.append(c)
        if not out:
            out = list(prog.owners_of(f))  # referenced as a function value (`.any(is_x)`), not called directly
        return sorted(out)

    n = 0
    table_fns = {e["function"] for e in table}
    # functions with rows of their own first: they account for their reviewed places before a fallback may draw on them
    for b in sorted(prog.bodies.values(), key=lambda b_: (strip_closures(b_.path) not in table_fns, b_.path)):
        if b.unit != "svgdx-lib":
            continue
        for st in errfate.result_fates(prog, b):
            if "SvgdxError" not in (st.dty or ""):
                continue
            n += 1
            f = st.fate.replace("transformed-", "")
            if not f.startswith("dropped"):
                continue
            callee_last = st.callee.path.split("::")[-1]
            k = (strip_closures(b.path), ren_last.get(callee_last, callee_last), f)
            ent = None
            for owner in reviewed_owners(k[0]):
                e2 = allow.get((owner, k[1], klass(k[2])))
                if e2 is None:
                    # a nested fn of the reviewed function (`bbox_raw::passthrough`) hoisted to module level or into a
                    # closure is still that function's code
                    # ... as many places as were reviewed there: while the nested fn still exists and accounts for
                    # them itself, a further place in the enclosing function is a new one
                    e2 = next((v_ for (f_, c_, kl_), v_ in allow.items() if f_.startswith(owner + "::") and c_ == k[1] and kl_ == klass(k[2]) and v_["used"] < v_["count"]), None)
                # a reviewed (function, callee, class) covers every site of that kind in the function: merging two
                # copies into a helper, or a helper spliced in at several call sites, changes the number of sites only
                if e2 is None:
                    # the same place written in the other idiom (`unwrap_or(x)` as `match { Ok(v) => v, Err(_) => x }`):
                    # a reviewed row of the other class, as long as it has places left
                    other = "test" if klass(k[2]) == "default" else "default"
                    e3 = allow.get((owner, k[1], other))
                    if e3 is not None and e3["used"] < e3["count"]:
                        e2 = e3
                if e2 is not None:
                    ent = e2
                    break
            key = f"{strip_closures(b.path).replace('svgdx::', '')}:{k[1]}:{f.split(':')[-1]}"
            if ent is not None and klass(k[2]) == "default" and ent["used"] >= ent["count"]:
                # one more place than was reviewed where an error is *replaced by a value* (helpers spliced in, loops
                # counted once): a new silent default, whatever idiom the others use
                ent["used"] += 1
                chk.bad("A6.error-swallow", key, b.where(st.bb, st.line), f"{b.short} replaces the error of {st.callee.path} by a default value ({f}: {st.detail}) at one more place than the {ent['count']} reviewed in policy/tables/error_swallow.json: a value that cannot be read yet (an unresolved reference) silently counts as the default instead of deferring the element")
            elif ent is not None:
                ent["used"] += 1
                chk.ok("A6.error-swallow", key, b.where(st.bb, st.line), f"reviewed: {ent['reason']}", by="table")
            else:
                chk.bad(
                    "A6.error-swallow",
                    key,
                    b.where(st.bb, st.line),
                    f"{b.short} discards the error of {st.callee.path} ({f}: {st.detail}); this place is not in the reviewed table "
                    f"policy/tables/error_swallow.json. Unresolved references are deferred (or rejected) only because such errors surface: "
                    f"swallowing one resolves the element against partial data instead",
                )
    chk.floor("A6.error-swallow", n, 400, "call returning Result<_, SvgdxError> in the library")


DEFAULTING = ("map_or", "map_or_else", "unwrap_or", "unwrap_or_else", "unwrap_or_default")


def missing_bbox_default(prog, chk):
    seen = 0
    for b in prog.bodies.values():
        if b.unit != "svgdx-lib":
            continue
        for (bb, t, c) in b.call_sites(lambda c: c.path.startswith("std::option::Option::<T>::")):
            if not c.targs or "svgdx::position::BoundingBox" != c.targs[0]:
                continue
            seen += 1
            last = c.path.split("::")[-1]
            if last in DEFAULTING:
                chk.bad("A6.missing-bbox-default", f"{b.short}:{last}", b.where(bb, t.get("line")), f"{b.short} turns a missing bounding box into a default value with Option::{last}: a reference to an element without (or not yet with) a box is resolved silently instead of failing / being deferred")
    # positive control: the matcher sees the Option<BoundingBox> combinators that exist today (ok_or_else, is_some, map)
    chk.floor("A6.missing-bbox-default", seen, 15, "combinator applied to an Option<BoundingBox>")
    chk.ok("A6.missing-bbox-default", "scan", "-", f"{seen} combinators on Option<BoundingBox> scanned, none of them defaulting ({', '.join(DEFAULTING)})")



def consumed_only_when_resolved(prog, chk):
    """an attribute that refers to another element is used up only once the reference has been resolved: where a lookup
    of the referenced element's box may find nothing and the function then returns normally (the element is simply not
    positioned yet), no attribute has been removed on the way to that lookup.  Removing `xy="#b|h"` first and then
    finding that `#b` has no box yet leaves an element that has lost its position for good"""
    from props import C04 as _C04
    GB = "svgdx::context::ElementMap::get_element_bbox"
    n = 0
    for body in prog.bodies.values():
        if body.unit != "svgdx-lib" or not body.path.startswith("svgdx::element::"):
            continue
        sites = body.call_sites(lambda c: c.decl_path == GB)
        if not sites:
            continue
        rem = _C04.removal_sites(prog, body)
        for k, (bb, t, c) in enumerate(sites):
            # `?` first: the Option inside the Result
            opt = None
            for (b2, i2, node, how) in R.uses_of(body, t["dest"][0]):
                if i2 == R.TERM and node.get("k") == "call" and "fn" in node and Callee(node["fn"]).decl_path == "std::ops::Try::branch":
                    for b3, i3, n3 in body.all_stmts():
                        pl3 = op_place((n3.get("rv") or {}).get("op")) if (n3.get("rv") or {}).get("k") == "use" else None
                        if pl3 is not None and pl3[0] == node["dest"][0] and "as Continue" in pl3[1] and "lhs" in n3 and not n3["lhs"][1] and "Option<" in (body.local_ty(n3["lhs"][0]) or ""):
                            opt = n3["lhs"][0]
            if opt is None:
                continue
            fate, detail = option_none_fate(prog, body, opt)
            if fate != "ok-exit":
                continue
            n += 1
            chk.touch(body)
            early = [(rb, rt, names) for (rb, rt, names) in rem if bb in body.reach_after(rb) and not body.dominates(bb, rb)]
            key = f"{body.short}:get_element_bbox" + (f"#{k}" if len(sites) > 1 else "")
            chk.ob(not early, "A6.consumed-when-resolved", key, body.where(bb, t.get("line")), "no attribute is removed before this lookup, whose failure is a normal return", f"{body.short} removes {sorted({x for (_b, _t, nm) in early for x in (nm or ['?'])})} before it has looked up the referenced element's box, and returns normally when there is none (yet): the attribute is gone although nothing was placed - processed again once the reference can be resolved, the element no longer says where it belongs")
    chk.ok("A6.consumed-when-resolved", "scan", "-", f"{n} box lookup(s) whose failure is a normal return examined")
