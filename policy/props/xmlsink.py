"""A11 XML sink discipline and escape balance (shared by C02, C03, C05, C19)."""
from sa import rules as R
from sa.prog import P, Callee, op_place, op_const, const_str

EVENT_TY = "quick_xml::events::Event<"
SVG_NS = "http://www.w3.org/2000/svg"

# writer-side constructors of quick-xml values: path -> (class, what)
SINKS = {
    "quick_xml::events::BytesText::<'a>::new": ("escaping", "text"),
    "quick_xml::events::BytesText::<'a>::from_escaped": ("raw", "text-or-comment"),
    "quick_xml::events::BytesCData::<'a>::new": ("raw", "cdata"),
    "quick_xml::events::BytesCData::<'a>::escaped": ("escaping", "cdata"),
    "quick_xml::events::BytesStart::<'a>::new": ("raw", "element-name"),
    "quick_xml::events::BytesStart::<'a>::from_content": ("raw", "element-name+attrs"),
    "quick_xml::events::BytesEnd::<'a>::new": ("raw", "element-name"),
    "<quick_xml::events::attributes::Attribute<'a> as std::convert::From<(&'a [u8], &'a [u8])>>::from": ("raw", "attribute"),
    "<quick_xml::events::attributes::Attribute<'a> as std::convert::From<(&'a str, &'a str)>>::from": ("escaping", "attribute"),
    "quick_xml::events::BytesPI::<'a>::new": ("raw", "pi"),
    "quick_xml::events::BytesDecl::<'a>::new": ("raw", "decl"),
}
SINK_PREFIXES = ("quick_xml::events::Bytes", "<quick_xml::events::attributes::Attribute<'a> as std::convert::From", "quick_xml::events::attributes::Attribute")
NOT_SINKS = ("::into_owned", "::to_owned", "::name", "::attributes", "::into_inner", "::unescape", "::unescape_value", "::push_attribute", "::deref", "::clone", "::borrow", "::local_name", "::as_ref", "::eq", "::fmt", "::key", "::value")

UNESCAPERS = ("quick_xml::events::BytesText::<'a>::unescape", "quick_xml::events::attributes::Attribute::<'a>::unescape_value", "quick_xml::escape::unescape", "quick_xml::events::attributes::Attribute::<'a>::decode_and_unescape_value")
RAW_READS = ("::to_vec", "::into_inner", "::deref", "::as_ref", "::from_utf8_lossy", "::to_owned", "::into_owned", "::borrow")


def sink_sites(prog):
    out = []
    for body in prog.bodies.values():
        for (bb, t, c) in body.call_sites(lambda c: c.path.startswith(SINK_PREFIXES)):
            if c.path.endswith(NOT_SINKS):
                continue
            out.append((body, bb, t, c))
    return out


def escaper_summary(prog, fn_body):
    """is the local function an attribute escaper: every path from entry to return passes
    str::replace calls for '&' (first), '<' and '\"' ?  returns (ok, detail)"""
    reps = []
    for (bb, t, c) in fn_body.call_sites(lambda c: c.path.endswith("<impl str>::replace")):
        pat = R.origin(fn_body, t["args"][1], carriers={})
        to = R.origin(fn_body, t["args"][2], carriers={})
        p = pat[1].get("char", pat[1].get("str")) if pat[0] == "const" else None
        r = to[1].get("str") if to[0] == "const" else None
        reps.append((bb, p, r))
    need = {"&": "&amp;", "<": "&lt;", '"': "&quot;"}
    got = {p: r for (_, p, r) in reps}
    missing = [k for k, v in need.items() if got.get(k) != v]
    if missing:
        return False, f"escaper does not replace {missing} by the matching entity on its replace chain (found {got})"
    blocks = {p: bb for (bb, p, r) in reps}
    # '&' must be replaced first
    if not (fn_body.dominates(blocks["&"], blocks["<"]) and fn_body.dominates(blocks["&"], blocks['"'])):
        return False, "'&' is not escaped before the other characters"
    # unconditional: every return is dominated by all three
    for k in need:
        if not all(fn_body.dominates(blocks[k], r) for r in fn_body.return_blocks):
            return False, f"a return path skips the replacement of {k!r} (conditional / fast-path escaping)"
    # the result of the chain is what is returned: _0 originates from the last replace
    return True, "unconditionally replaces & (first), < and \" by their entities"


RAW_WRITES = ("std::io::Write::write_all", "std::io::Write::write_fmt", "std::io::Write::write", "std::io::Write::write_vectored", "std::io::copy")


def single_serialiser(prog, chk, rule="A11.single-serialiser"):
    """everything the library writes goes through OutputList::write_to (quick-xml's Writer::write_event, where the
    escaping rules of A11.sink apply): no library function writes bytes to the output stream itself (write!, write_all)"""
    raw, events = [], []
    for b in prog.bodies.values():
        if b.unit != "svgdx-lib" or b.path.startswith(("svgdx::cli::", "svgdx::server::", "svgdx::transform_file", "svgdx::transform_str")) or prog.owners_of(b.path) & {"svgdx::transform_file"}:
            continue
        for (bb, t, c) in b.call_sites(lambda c: c.decl_path in RAW_WRITES or c.path in RAW_WRITES):
            # formatting into a String / fmt::Formatter is not output
            ty = " ".join(c.targs or []) + (c.self_ty or "") + (c.inst or "")
            if "std::string::String" in ty or "fmt::Formatter" in ty or "Vec<u8>" in ty and False:
                continue
            raw.append((b, bb, t, c))
        for (bb, t, c) in b.call_sites(lambda c: c.path.endswith("::write_event") and "quick_xml" in c.path):
            events.append((b, bb, t, c))
    chk.floor(rule, len(events), 1, "quick-xml write_event call (the serialiser)")
    homes = sorted({b.path.split("::{closure")[0] for (b, _, _, _) in events})
    chk.ob(homes == ["svgdx::events::OutputList::write_to"], rule, "write_event-home", "src/events.rs", "write_event is called only by OutputList::write_to", f"write_event is called from {homes}")
    for (b, bb, t, c) in raw:
        chk.bad(rule, f"{b.short}:{c.path.split('::')[-1]}", b.where(bb, t.get("line")), f"{b.short} writes to the output stream directly ({c.path}): these bytes bypass the serialiser - no escaping of attribute values / text, no normalisation - so what it writes is only as well-formed as the string it was given")
    if not raw:
        chk.ok(rule, "no-raw-write", "-", "no library function writes bytes to the output itself")


def check_sinks(prog, chk, rule="A11.sink"):
    single_serialiser(prog, chk)
    sites = sink_sites(prog)
    n = 0
    for (body, bb, t, c) in sites:
        n += 1
        where = body.where(bb, t.get("line"))
        cls = SINKS.get(c.path)
        key = f"{body.short}:{c.path.split('::')[-1]}"
        if cls is None:
            chk.bad(rule, key + ":unknown", where, f"unclassified quick-xml constructor {c.path}: add it to the sink table with its escaping behaviour")
            continue
        kind, what = cls
        if kind == "escaping":
            chk.ok(rule, key + ":" + what, where, f"{c.path.split('::')[-2]}::{c.path.split('::')[-1]} escapes its argument ({what})")
            continue
        # raw sinks
        if what == "attribute":
            # From<(&[u8],&[u8])>: tuple(name bytes, value bytes)
            tup = R.origin(body, t["args"][0], carriers={})
            ok = False
            detail = "value is not produced by a recognised escaper"
            if tup[0] == "rv" and tup[1].get("ak") == "tuple" and len(tup[1]["ops"]) == 2:
                val = tup[1]["ops"][1]
                o = R.origin(body, val, carriers={"as_bytes": 0, "deref": 0, "as_str": 0, "as_ref": 0, "borrow": 0})
                if o[0] == "call" and "fn" in o[2]:
                    cal = Callee(o[2]["fn"])
                    tg = prog.targets_of_callee(cal)
                    if tg and cal.local:
                        ok, detail = escaper_summary(prog, tg[0])
                        detail = f"value passes through {tg[0].short}(), which {detail}" if ok else f"{tg[0].short}(): {detail}"
                    elif cal.path.endswith("<impl str>::replace"):
                        # an escaper that was spliced in (or written in place): the value is the end of a chain of
                        # replace() calls, each applied to the result of the one before, '&' innermost
                        chain = []
                        cur = o
                        for _ in range(6):
                            if not (cur[0] == "call" and "fn" in cur[2] and Callee(cur[2]["fn"]).path.endswith("<impl str>::replace")):
                                break
                            pat = R.origin(body, cur[2]["args"][1], carriers={})
                            to = R.origin(body, cur[2]["args"][2], carriers={})
                            chain.append((pat[1].get("char", pat[1].get("str")) if pat[0] == "const" else None, to[1].get("str") if to[0] == "const" else None))
                            cur = R.origin(body, cur[2]["args"][0], carriers={"as_bytes": 0, "deref": 0, "as_str": 0, "as_ref": 0, "borrow": 0})
                        need = {"&": "&amp;", "<": "&lt;", '"': "&quot;"}
                        got = dict(chain)
                        ok = all(got.get(k) == v for k, v in need.items()) and bool(chain) and chain[-1][0] == "&"
                        detail = "value is the result of an in-place replace chain & (first), <, \" -> entities" if ok else f"in-place replace chain {chain} does not escape & (first), < and \""
                    else:
                        detail = f"value comes from {cal.path}, not from an escaper"
            chk.ob(ok, rule, key + ":attribute-value", where, "raw attribute sink: " + detail, "raw attribute sink fed with an unescaped / partially escaped value (ill-formed output for values containing & < \"): " + detail)
        elif what == "cdata":
            o = R.origin(body, t["args"][0], carriers={})
            ok = False
            if o[0] == "call" and "fn" in o[2] and Callee(o[2]["fn"]).path.endswith("<impl str>::replace"):
                pat = R.origin(body, o[2]["args"][1], carriers={})
                ok = pat[0] == "const" and pat[1].get("str") == "]]>"
            chk.ob(ok, rule, key + ":cdata", where, "raw CDATA sink: the content has every `]]>` split across two sections first", "raw CDATA sink fed with content that may contain `]]>` (terminates the section early)")
        elif what == "text-or-comment":
            # which OutputEvent variant feeds it?
            variant = _feeding_variant(body, t["args"][0])
            if variant == "Text":
                # must never be used by the writer (write_to escapes text itself): checked by text_bypass()
                chk.ok(rule, key + ":text", where, "raw text conversion exists only for Event::from(OutputEvent); write_to never routes Text through it (rule A13.text-bypass)")
            elif variant == "Comment":
                chk.bad(rule, key + ":comment", where, "raw comment sink with generated producers (`_`/`__` attributes, debug comments): a value containing `--` or ending in `-` gives an ill-formed comment; XML has no escape inside comments")
            else:
                chk.bad(rule, key + ":unknown-variant", where, "raw text sink fed from an unidentified OutputEvent variant")
        elif what == "element-name":
            chk.ok(rule, key + ":name", where, "element names are copied from names the XML reader accepted or are literals (upstream leniency of the reader is not claimed)", by="table")
        else:
            chk.bad(rule, key + ":" + what, where, f"raw {what} sink is not covered by a rule")
    chk.floor(rule, n, 9, "quick-xml constructor site")


def _feeding_variant(body, op):
    """OutputEvent variant whose payload flows into op (via `(x as Variant).0`)"""
    pl = op_place(op)
    for _ in range(6):
        if pl is None:
            return None
        for p in pl[1]:
            if p.startswith("as "):
                return p[3:]
        d = body.single_def(pl[0])
        if not d or d[1] == R.TERM:
            return None
        rv = d[2]
        if rv["k"] == "use":
            pl = op_place(rv["op"])
        elif rv["k"] == "ref":
            pl = P(rv["place"])
        else:
            return None
    return None


def text_bypass(prog, chk, rule="A13.text-bypass"):
    """in write_to the generic write_event(OutputEvent) is only reached for non-Text events, and Text is
    written through the escaping constructor"""
    wt = prog.body("svgdx::events::OutputList::write_to")
    chk.touch(wt)
    generic = [(bb, t, c) for (bb, t, c) in wt.call_sites(lambda c: c.path == "quick_xml::Writer::<W>::write_event") if "svgdx::events::OutputEvent" in c.inst]
    esc = [(bb, t, c) for (bb, t, c) in wt.call_sites(lambda c: c.path == "quick_xml::Writer::<W>::write_event") if "svgdx::events::OutputEvent" not in c.inst]
    chk.floor(rule, len(generic), 1, "generic write_event(OutputEvent) in write_to")
    vidx = R.enum_variant_index(prog, "svgdx::events::OutputEvent", "Text")
    for (bb, t, c) in generic:
        # find the switch on discr(event) and make sure bb is not reachable through the Text edge only... i.e.
        # every path to bb takes a non-Text edge of a switch on the event's discriminant
        ok = False
        for sb in sorted(wt.reachable):
            sd = R.switch_discr_place(wt, sb)
            if sd is None or "OutputEvent" not in sd[1]:
                continue
            st = wt.term(sb)
            m = {v: tgt for v, tgt in st["vals"]}
            if vidx in m:
                text_t = m[vidx]
                # generic write must not be reachable from the Text edge without re-entering the loop head (next event)
                reg = wt.reach([text_t], avoid=[sb])
                ok = bb not in reg
        chk.ob(ok, rule, "write_to:generic", wt.where(bb, t.get("line")), "the generic (raw-converting) write_event is not reachable for Text events", "Text events can reach the raw conversion in write_to: text would be written unescaped")
    # the escaping writes take their content from BytesText::new
    for k, (bb, t, c) in enumerate(esc):
        o = R.origin(wt, t["args"][1], carriers={"into_owned": 0})
        ok = False
        if o[0] == "rv" and o[1].get("k") == "aggr" and o[1].get("variant") == "Text":
            o2 = R.origin(wt, o[1]["ops"][0], carriers={"into_owned": 0})
            ok = o2[0] == "call" and "fn" in o2[2] and Callee(o2[2]["fn"]).path == "quick_xml::events::BytesText::<'a>::new"
        chk.ob(ok, rule, f"write_to:text#{k}", wt.where(bb, t.get("line")), "coalesced text is written through BytesText::new (escaping)", "coalesced text is not written through the escaping constructor")
    chk.floor(rule + ".escaped", len(esc), 2, "escaping text write in write_to")


# ---------------------------------------------------------------------------
# reader side: how is each payload kind of an input Event turned into a String?
# ---------------------------------------------------------------------------
EXPECTED_READ = {"Text": "unescape", "CData": "raw", "Comment": "raw"}


def payload_reads(prog):
    """[(body, bb, variant, how, callee)] for every read of (Event as Text|CData|Comment).0 that is consumed"""
    out = []
    for body in prog.bodies.values():
        if body.file != "src/events.rs" and "quick_xml::events::Event" not in " ".join(l["ty"] for l in body.locals[:40]):
            continue
        for b, i, s in body.all_stmts():
            rv = s.get("rv")
            if not rv or "lhs" not in s:
                continue
            src = None
            if rv["k"] == "ref":
                src = P(rv["place"])
            elif rv["k"] == "use":
                src = op_place(rv["op"])
            if src is None:
                continue
            variant = None
            for j, p in enumerate(src[1]):
                if p in ("as Text", "as CData", "as Comment"):
                    # base must be a quick_xml Event
                    variant = p[3:]
            if variant is None:
                continue
            if s["lhs"][1]:
                continue
            how, cal = _classify_payload_use(prog, body, s["lhs"][0])
            out.append((body, b, s.get("line"), variant, how, cal))
    return out


def _classify_payload_use(prog, body, local, depth=5):
    aliases = {local}
    work = [local]
    found = []
    while work and depth > 0:
        depth -= 1
        nxt = []
        for a in work:
            for (b, i, node, how) in R.uses_of(body, a):
                if i == R.TERM and node["k"] == "call" and "fn" in node:
                    c = Callee(node["fn"])
                    found.append(c)
                    last = c.path.split("::")[-1]
                    if last in ("deref", "as_ref", "borrow", "clone", "into_owned", "to_owned") and not node["dest"][1]:
                        l = node["dest"][0]
                        if l not in aliases:
                            aliases.add(l)
                            nxt.append(l)
                elif i != R.TERM and how in ("operand", "ref") and "lhs" in node and not node["lhs"][1] and node["rv"]["k"] in ("use", "ref"):
                    l = node["lhs"][0]
                    if l not in aliases:
                        aliases.add(l)
                        nxt.append(l)
        work = nxt
    for c in found:
        tg = prog.targets_of_callee(c)
        if c.path in UNESCAPERS or any(_is_unescaper(prog, x) for x in tg):
            return "unescape", c.path
    for c in found:
        if c.path.endswith(RAW_READS) and "quick_xml" in c.inst or c.path.endswith("::to_vec") or c.path.endswith("::from_utf8_lossy"):
            return "raw", c.path
    return "unused", found[0].path if found else ""


def _is_unescaper(prog, body):
    return bool(body.call_sites(lambda c: c.path in UNESCAPERS))


# sites where the raw bytes of a Text event are read for a purpose that does not carry the text on
RAW_TEXT_OK = {
    "svgdx::events::InputList::from_reader": "reads the raw text only to measure the indentation (trailing spaces after the last newline); the string is dropped",
    "svgdx::events::unescaped_text": "fallback branch of the unescaper itself (reported separately as A11.unescape-fallback)",
}


def check_readers(prog, chk, rule="A11.read"):
    reads = payload_reads(prog)
    n = 0
    for (body, bb, line, variant, how, cal) in reads:
        if how == "unused":
            continue
        n += 1
        where = body.where(bb, line)
        key = f"{body.short}:{variant}:{how}"
        want = EXPECTED_READ[variant]
        if how == want:
            chk.ok(rule, key, where, f"{variant} payload is read {how} ({cal.split('::')[-1]}), matching the writer side ({'escaped once by BytesText::new' if variant == 'Text' else 'written raw'})")
        elif variant == "Text" and how == "raw" and body.path in RAW_TEXT_OK:
            chk.ok(rule, key, where, RAW_TEXT_OK[body.path], by="table")
        else:
            chk.bad(
                rule,
                key,
                where,
                f"{variant} payload is read {how} ({cal}) but the writer {'escapes text (BytesText::new)' if variant == 'Text' else 'writes this kind raw'}: the escape level changes on every pass "
                f"({'`&amp;` becomes `&amp;amp;`' if variant == 'Text' else 'literal `&lt;` inside CDATA/comments would be decoded'})",
            )
    chk.floor(rule, n, 5, "consumed payload read of an input Event")
    # attribute channel: unescape_value on read
    tf = [b for b in prog.bodies.values() if b.call_sites(lambda c: c.path.endswith("Attribute::<'a>::unescape_value"))]
    chk.ob(len(tf) >= 1, rule, "attribute:unescape", "src/events.rs", "attribute values are unescaped when read (unescape_value), matching the escaping writer", "attribute values are no longer unescaped on read while the writer escapes them")
    # the unescaper's fallback
    ut = prog.maybe_body("svgdx::events::unescaped_text")
    if ut is not None:
        fb = ut.call_sites(lambda c: c.path.endswith("from_utf8_lossy") or c.path.endswith("::to_vec"))
        for (bb, t, c) in fb:
            chk.bad(
                "A11.unescape-fallback",
                "unescaped_text:raw-on-error",
                ut.where(bb, t.get("line")),
                "text whose unescaping fails (reference to an entity that is not predefined, e.g. `&foo;` declared in a DTD) is kept raw and then escaped again on output: `&foo;` becomes `&amp;foo;`",
            )
