"""C04 Standard SVG content inside svgdx documents is accepted and preserved (names and mechanisms only)."""
from sa import rules as R, hirq
from sa import discharge as D
from sa.prog import P, Callee, op_place, op_const, const_str
from props import xmlsink as X

EXPLANATION = (
    "Decides preservation of *names* and the mechanisms values depend on; acceptance of the SVG number/path/points/transform "
    "grammars by the hand-written scanners is a language-inclusion question and is not decided. (1) the pass-through filter of "
    "OtherElement is closed: exactly class, data-src-line, _ and __ are withheld from the copy (class is re-added from the class "
    "list); (2) no standard attribute is consumed without being re-emitted: every literal attribute name popped/removed "
    "anywhere in the library that is also an SVG 1.1 attribute name must be in the reviewed table (geometry re-set by "
    "set_position_attrs in the same arm; dx/dy only outside text/tspan/feOffset; id on reuse instances), dynamic-key "
    "removals are reviewed per function; (3) geometry attributes are rewritten only from a computed bounding box "
    "(set_position_attrs under to_bbox() == Some) and values with units/percentages bypass the box computation before any "
    "parsing, the bypass predicate being built on the same number parser the arms apply afterwards; (4) attribute values and text survive the reader -> writer round trip (escape balance, shared with C02/C03); "
    "(5) a failed-and-retried element leaves the depth counter intact (shared with C17), so valid documents are not rejected "
    "for their length."
    " Also: the unit bypass predicate is built on the parser the arms apply afterwards."
)
TRUSTED = ["policy/spec/svg11_attributes.json (SVG 1.1 attribute vocabulary)"]
ASSUMPTIONS = []

EL = "svgdx::element::SvgElement"
import json
import os
SPEC = os.path.join(os.path.dirname(os.path.dirname(os.path.abspath(__file__))), "spec", "svg11_attributes.json")

GEOM = {"x", "y", "x1", "y1", "x2", "y2", "cx", "cy", "r", "rx", "ry", "width", "height"}
# (attribute, function) -> reason, for literal standard names that are consumed
CONSUMED_OK = {}
for g in GEOM:
    for fn in ("svgdx::position::Position::set_position_attrs", "svgdx::position::Position::position_via_transform"):
        CONSUMED_OK[(g, fn)] = "geometry of the *other* shapes is removed after the element's native geometry has been re-set from the same computed box in the same arm (rule A14.native-only of C11)"
for a in ("dx", "dy"):
    CONSUMED_OK[(a, "svgdx::element::SvgElement::transmute")] = "dx/dy are svgdx offsets except on text/tspan/feOffset, where they are left alone (checked: control-dependent on the name test)"
    for fn in ("svgdx::position::Position::set_position_attrs", "svgdx::position::Position::position_via_transform"):
        CONSUMED_OK[(a, fn)] = "dx/dy are not standard on rect/circle/ellipse/line; applied to the geometry then removed"
CONSUMED_OK[("id", "<svgdx::reuse::ReuseElement as svgdx::transform::EventGen>::generate_events")] = "the template's id is removed from the *instance* (and re-added as a class) to keep ids unique; the reuse element's own id is set instead"
CONSUMED_OK[("end", "svgdx::connector::Connector::from_element")] = "`end` (an SMIL timing attribute) is consumed only for <line>/<polyline> carrying both start and end, which are not animation elements"

DYNAMIC_OK = {
    "svgdx::context::TransformerContext::apply_defaults": "pops style / text-style / transform from the *defaults* entry and from the element in order to join them; the joined value is set again on the element in the same function",
    "svgdx::context::TransformerContext::set_element_default": "removes id and match from the stored copy of a <defaults> child (a template, never emitted)",
    "svgdx::element::SvgElement::pop_attr": "the generic accessor itself",
    "svgdx::position::<impl svgdx::element::SvgElement>::remove_attrs": "the generic accessor itself",
    "svgdx::text::process_text_attr": "moves the text presentation attributes from the shape to the generated <text> element (only when the shape carries svgdx's `text`)",
}


def run(prog, chk):
    chk.rule(filter_closed, prog, chk)
    chk.rule(consumed, prog, chk)
    chk.rule(from_bbox_only, prog, chk)
    chk.rule(transform_names, prog, chk)
    chk.rule(index_is_position, prog, chk)
    chk.rule(formatter_cast_guarded, prog, chk)
    chk.rule(formatter_trims_one_character_class_at_a_time, prog, chk)
    chk.rule(formatter_integer_shortcut_is_exact, prog, chk)
    chk.rule(endpoints_overwritten_only_when_absent, prog, chk)
    chk.rule(X.check_sinks, prog, chk)
    chk.rule(X.check_readers, prog, chk)
    chk.obs = [o for o in chk.obs if o["key"] not in ("A11.sink/events::<impl std::convert::From<events::OutputEvent> for quick_xml::events::Event<'a>>::from:from_escaped:comment",)]
    from props import C17
    chk.rule(C17.depth_pairing, prog, chk)
    from props import C03
    chk.rule(C03.qualified_names, prog, chk)  # same name on output: element and attribute names are the qualified names
    chk.rule(C03.attrmap_keys_verbatim, prog, chk)
    chk.rule(C03.writer_is_read_only, prog, chk)
    from props import C19, C08
    chk.rule(C19.text_not_altered, prog, chk)  # "the same text": character content is carried verbatim
    chk.rule(C08.author_wins, prog, chk)  # the root's own attributes (id, width, viewBox ...) are kept
    chk.rule(C08.clip_failure_modes, prog, chk)  # "never makes the transform fail": a clip-path reference fails only for the reviewed reasons
    chk.rule(C08.points_parity, prog, chk)
    chk.rule(C08.path_arity, prog, chk)  # "never makes the transform fail": every path command reads the numbers SVG gives it  # "never makes the transform fail": a points list is read with every separator SVG allows
    from props import C18, C10
    chk.rule(C18.template_source, prog, chk)  # "never makes the transform fail": an id'd element is registered before it is needed by <use> / clip-path
    chk.rule(C10.retry_progress, prog, chk)  # ... and a forward <use href> / clip-path is retried whatever resolved in between
    from props import C11
    chk.rule(C11.number_reader_rejects_only_what_parse_rejects, prog, chk)  # "never makes the transform fail": a number SVG allows (`.5`, `+5`) is read
    from props import strops
    chk.rule(strops.check_for, prog, chk, "C04")
    chk.rule(strops.blank_only_separators, prog, chk)  # a pair / list cut at blanks is cut at tabs and newlines too
    chk.rule(strops.empty_test_before_trim, prog, chk)  # pieces are tested for emptiness after trimming, not before
    chk.rule(strops.check_number_formatting, prog, chk)  # results are exact up to the 3-decimal *output* rounding  # A14.str-ops: how this property's strings are cut up is a reviewed, frozen inventory
    chk.rule(comma_wsp, prog, chk)
    chk.rule(elref_ids_are_xml_names, prog, chk)


def _derives_from_get_attr(body, op, key, depth=8):
    """does the operand derive from `get_attr(<key>)` / `attrs.get(<key>)` (through is_none/is_some, unwrap_or, strp ...)?"""
    if depth <= 0:
        return False
    o = R.origin(body, op, carriers={})
    if o[0] == "call" and "fn" in o[2]:
        c = Callee(o[2]["fn"])
        if c.path.split("::")[-1] in ("get_attr", "get", "has_attr", "contains_key") and len(o[2]["args"]) >= 2:
            k = R.origin(body, o[2]["args"][1], carriers=dict(R.CARRIERS))
            if k[0] == "const" and k[1].get("str") == key:
                return True
        return any(_derives_from_get_attr(body, a, key, depth - 1) for a in o[2]["args"])
    if o[0] == "rv":
        rv = o[1]
        if rv.get("k") == "discr":
            return _derives_from_get_attr(body, {"c": list(rv["place"]) if isinstance(rv["place"], (list, tuple)) else rv["place"]}, key, depth - 1)
        return any(isinstance(rv.get(kk), dict) and _derives_from_get_attr(body, rv[kk], key, depth - 1) for kk in ("op", "a", "b"))
    return False


PRESENCE_PRESERVING = ("is_none", "is_some", "as_ref", "as_deref", "as_mut", "clone", "cloned", "copied", "deref", "borrow", "has_attr", "contains_key")


def _presence_test(body, op, key_is, depth=8):
    """does the operand tell whether the attribute selected by key_is(key operand) is *present* - it derives from
    get_attr / attrs.get of that key through operations that keep Some as Some (no parse, no and_then, no filter)?"""
    if depth <= 0:
        return False
    o = R.origin(body, op, carriers={})
    if o[0] == "call" and "fn" in o[2]:
        c = Callee(o[2]["fn"])
        last = c.path.split("::")[-1]
        if last in ("get_attr", "get", "has_attr", "contains_key") and len(o[2]["args"]) >= 2 and key_is(o[2]["args"][1]):
            return True
        if last in PRESENCE_PRESERVING and o[2]["args"]:
            return _presence_test(body, o[2]["args"][0], key_is, depth - 1)
        return False
    if o[0] == "rv":
        rv = o[1]
        if rv.get("k") == "discr":
            return _presence_test(body, {"c": list(rv["place"]) if isinstance(rv["place"], (list, tuple)) else rv["place"]}, key_is, depth - 1)
        if rv.get("k") == "unop" and rv.get("op") == "Not":
            return _presence_test(body, rv["a"], key_is, depth - 1)
        if rv.get("k") in ("use", "ref", "cast"):
            src = rv.get("op") or ({"c": list(rv["place"])} if rv.get("place") else None)
            return src is not None and _presence_test(body, src, key_is, depth - 1)
    if o[0] in ("field", "unknown") and o[1] and isinstance(o[1], tuple) and o[1][1]:
        # a component of a temporary tuple `(get_attr(k), delta)`
        ch = body.chase_place((o[1][0], tuple(o[1][1])))
        if ch[0] == "call":
            fake = {"c": [ch[2]["dest"][0], []]}
            return _presence_test(body, fake, key_is, depth - 1)
    return False


def endpoints_overwritten_only_when_absent(prog, chk):
    """a line's end points may be written with units or percentages (plain SVG): set_position_attrs replaces x1/y1/x2/y2
    only under a test of that attribute itself (absent -> derived value; present and numeric -> moved by dx/dy); a
    decision based on the *parsed* position treats "present but not a plain number" as absent and overwrites it"""
    b = prog.body("svgdx::position::Position::set_position_attrs")
    chk.touch(b)
    from sa import discharge as D

    n = 0
    for (bb, t, c) in b.call_sites(R.path_endswith("SvgElement::set_attr")):
        if len(t["args"]) < 2:
            continue
        k = R.origin(b, t["args"][1], carriers=dict(R.CARRIERS))
        key = k[1].get("str") if k[0] == "const" else None
        if key is not None and key not in ("x1", "y1", "x2", "y2"):
            continue
        if key is None:
            # a key that comes out of a table-driven loop: the evaluated keys decide whether this is an end-point write
            names = _evaluated_keys(prog, b, "set_attr", t.get("line")) if "{closure" not in b.path else None
            if not names or not (set(names) & {"x1", "y1", "x2", "y2"}):
                continue
            kl = R.origin_local(b, t["args"][1])
            key_is = (lambda o, kl=kl: kl is not None and R.origin_local(b, o) == kl)
            key = "/".join(names)
        else:
            key_is = (lambda o, key=key: (lambda kk: kk[0] == "const" and kk[1].get("str") == key)(R.origin(b, o, carriers=dict(R.CARRIERS))))
        n += 1
        guarded = False
        for (a, x) in D.dominating_edges(b, bb):
            tt = b.term(a)
            if tt["k"] == "switch" and _presence_test(b, tt["op"], key_is):
                guarded = True
        chk.ob(guarded, "A13.endpoint-overwrite", f"set_position_attrs:{key}", b.where(bb, t.get("line")), f"`{key}` is written under a test of the `{key}` attribute itself", f"set_position_attrs writes `{key}` under conditions that do not test the `{key}` attribute itself (e.g. only the parsed position): a value that is present but not a plain number - `{key}=\"100%\"`, a length with a unit, a still unresolved reference - counts as absent and is overwritten")
    chk.floor("A13.endpoint-overwrite", n, 2, "set_attr of a line end point in set_position_attrs")


def filter_closed(prog, chk):
    oe = prog.body("<svgdx::transform::OtherElement as svgdx::transform::EventGen>::generate_events")
    chk.touch(oe)
    lits = set()
    for ob_ in [oe] + [x for x in prog.bodies.values() if x.root == oe.id]:
      for (bb, t, c) in ob_.call_sites(lambda c: c.decl_path in ("std::cmp::PartialEq::ne", "std::cmp::PartialEq::eq")):
        sides = [R.origin(ob_, a, carriers={"as_str": 0, "deref": 0, "as_ref": 0, "borrow": 0}) for a in t["args"]]
        if any(o[0] == "field" and str(o[1][1][-1]) == ".name" for o in sides):
            continue  # a test of the element's name, not of an attribute name
        for o in sides:
            if o[0] == "const" and "str" in o[1]:
                lits.add(o[1]["str"])
    # a test by pattern (prefix / suffix / substring) withholds an open-ended family of names, standard ones included
    pats = []
    for ob_ in [oe] + [x for x in prog.bodies.values() if x.root == oe.id]:
        for (bb, t, c) in ob_.call_sites(lambda c: c.path.startswith(("core::str::<impl str>::", "std::str::<impl str>::")) and c.path.split("::")[-1] in ("starts_with", "ends_with", "contains", "strip_prefix", "strip_suffix", "find", "matches")):
            if len(t["args"]) >= 2:
                o = R.origin(ob_, t["args"][1], carriers={"as_str": 0, "deref": 0, "as_ref": 0, "borrow": 0})
                if o[0] == "const" and "str" in o[1]:
                    pats.append((c.path.split("::")[-1], o[1]["str"], ob_.where(bb, t.get("line"))))
    for (m_, p_, w_) in pats:
        chk.bad("A14.passthrough-filter", f"OtherElement:{m_}:{p_}", w_, f"OtherElement::generate_events tests a name with {m_}({p_!r}): attributes are withheld (or treated specially) by pattern - every attribute so named, standard SVG ones included (text-anchor, text-decoration ...), is affected, not the closed list class / data-src-line / _ / __")
    if not lits:
        chk.undecided("A14.passthrough-filter", "OtherElement", oe.where(), "no comparison of an attribute name with a literal found in OtherElement::generate_events (the filter may be a set lookup or live elsewhere)")
        return
    chk.ob(lits == {"class", "data-src-line", "_", "__"}, "A14.passthrough-filter", "OtherElement", oe.where(), "exactly class, data-src-line, _ and __ are withheld when an element's attributes are copied to the output", f"the pass-through filter withholds {sorted(lits)}")
    # class is re-added from the class list
    ac = [x for ob_ in [oe] + [x for x in prog.bodies.values() if x.root == oe.id] for x in ob_.call_sites(lambda c: c.path.split("::")[-1] in ("add_classes", "add_class", "insert_all", "extend") and ("SvgElement" in c.path or "ClassList" in c.path))]
    chk.ob(bool(ac), "A14.passthrough-filter", "OtherElement:classes", oe.where(), "the element's classes are re-attached to the copied element", "classes are dropped from the copied element")


_EVAL_KEYS = {}


def _evaluated_keys(prog, b, method, line):
    """a removal whose key is not a constant in the MIR (it comes out of a table-driven loop, or through a helper's
    parameter): the literal keys the abstract evaluator sees reaching that call line, or None when any is unknown"""
    from sa import algebra as A

    ck = (id(prog), b.path, method)
    if ck not in _EVAL_KEYS:
        calls = []
        for nm in ("rect", "ellipse", "line", "text"):
            try:
                ev = A.Evaluator(prog, watch=(method,), name_case=nm, opaque=["svgdx::element::SvgElement::split_compound_attr"])
                if b.path not in ev.by_path:
                    break
                ev.summary(b.path)
                calls += ev.calls
            except Exception:
                calls = [dict(line=None, args=[None])]
                break
        _EVAL_KEYS[ck] = calls
    at = [c for c in _EVAL_KEYS[ck] if c.get("line") == line]
    if not at:
        return None
    out = []
    for c in at:
        a0 = c["args"][0] if c["args"] else None
        if a0 is None or A.is_form(a0) or a0[0] != "str":
            return None
        if a0[1] not in out:
            out.append(a0[1])
    return out


REMOVERS = ("pop_attr", "pop", "remove_attrs", "without_attr", "remove_attr")


def removal_names(prog, b, t):
    """the attribute names a removal call names: a literal, a literal list or a named table of literals; None when
    the key is computed"""
    if len(t["args"]) < 2:
        return None
    o = R.origin(b, t["args"][1], carriers=dict(R.CARRIERS))
    if o[0] != "const":
        return None
    if "str" in o[1]:
        return [o[1]["str"]]
    if "array" in o[1]:
        return [k["str"] for k in o[1]["array"] if isinstance(k, dict) and "str" in k]
    if "named" in o[1]:
        if "promoted" in o[1]:
            return None
        return prog.const_strings(o[1]["named"])  # a named table: `remove_attrs(RECT_FOREIGN_ATTRS)`
    return None


def removal_sites(prog, b):
    """[(block, terminator, names | None)] for every attribute removal in the body"""
    out = []
    for (bb, t, c) in b.call_sites(lambda c: c.path.split("::")[-1] in REMOVERS and ("SvgElement" in c.path or "AttrMap" in c.path)):
        if len(t["args"]) >= 2:
            out.append((bb, t, removal_names(prog, b, t)))
    return out


def consumed(prog, chk):
    with open(SPEC) as fh:
        svg = set(json.load(fh)["attributes"])
    n = 0
    for b in prog.bodies.values():
        if b.unit != "svgdx-lib":
            continue
        for (bb, t, c) in b.call_sites(lambda c: c.path.split("::")[-1] in REMOVERS and ("SvgElement" in c.path or "AttrMap" in c.path)):
            if len(t["args"]) < 2:
                continue
            names = removal_names(prog, b, t)
            where = b.where(bb, t.get("line"))
            root = prog.bodies[b.root].path if b.root and b.root in prog.bodies else b.path
            if root not in DYNAMIC_OK and not any(k[1] == root for k in CONSUMED_OK):
                # a function that did not exist at review time stands under the reviewed function(s) it was split off from
                for op_ in sorted(prog.owners_of(root)):
                    if op_ in DYNAMIC_OK or any(k[1] == op_ for k in CONSUMED_OK):
                        root = op_
                        break
            if names is None and "{closure" not in b.path and root not in DYNAMIC_OK:
                names = _evaluated_keys(prog, b, c.path.split("::")[-1], t.get("line"))
            if names is None and b.path.split("::")[-1] in REMOVERS and ("SvgElement" in b.path or "AttrMap" in b.path):
                o_ = R.origin(b, t["args"][1], carriers=dict(R.CARRIERS))
                if o_[0] == "arg":
                    continue  # a remover handing its own key parameter on (`without_attr(k)` = clone + `pop_attr(k)`): its callers are the sites
            if names is None:
                n += 1
                chk.ob(root in DYNAMIC_OK, "A14.consumed-standard", f"{b.short}:dynamic", where, f"computed-key removal: {DYNAMIC_OK.get(root)}", f"{b.short} removes attributes by a computed key; not in the reviewed list (a standard attribute could be consumed without being re-emitted)", by="table")
                continue
            for name in names:
                if name not in svg:
                    continue
                n += 1
                why = CONSUMED_OK.get((name, root))
                chk.ob(why is not None, "A14.consumed-standard", f"{b.short}:{name}", where, f"standard attribute `{name}` consumed here: {why}", f"standard SVG attribute `{name}` is consumed in {b.short} and this site is not in the reviewed table: plain SVG content using `{name}` would lose it", by="table")
    chk.floor("A14.consumed-standard", n, 30, "consumption site of a standard attribute name")
    # dx/dy in transmute only outside text/tspan/feOffset
    tm = prog.body(EL + "::transmute")
    pops = [(bb, t) for (bb, t, c) in tm.call_sites(R.path_endswith("SvgElement::pop_attr")) if (R.origin(tm, t["args"][1], carriers=dict(R.CARRIERS))[1] or {}).get("str") in ("dx", "dy")]
    lits = set()
    guard_ok = bool(pops)
    pop_blocks = {bb for (bb, t) in pops}
    for (bb, t, c) in tm.call_sites(lambda c: c.decl_path == "std::cmp::PartialEq::eq"):
        lit = None
        for arg in t["args"]:
            oo = R.origin(tm, arg, carriers={})
            if oo[0] == "const" and "str" in oo[1]:
                lit = oo[1]["str"]
        if lit not in ("text", "tspan", "feOffset"):
            continue
        st = tm.term(t["t"])
        if st["k"] != "switch":
            continue
        tt, ft = R.switch_targets_bool(st)
        # when the name equals `lit`, the dx/dy pops must be unreachable
        if not (R.reach_boolconst(tm, [tt]) & pop_blocks):
            lits.add(lit)
    guard_ok = guard_ok and lits == {"text", "tspan", "feOffset"}
    chk.ob(guard_ok, "A13.dxdy-guard", "transmute", tm.where(), "dx/dy are consumed only when the element is none of text, tspan, feOffset (where they are standard attributes)", f"dx/dy consumption is not guarded by the name test for text/tspan/feOffset (guards seen: {sorted(lits)})")


def from_bbox_only(prog, chk):
    sp = prog.body("svgdx::position::Position::set_position_attrs")
    chk.touch(sp)
    tb = sp.call_sites(R.path_endswith("Position::to_bbox"))
    sets = sp.call_sites(R.path_endswith("SvgElement::set_attr")) + sp.call_sites(R.path_endswith("::remove_attrs"))
    ok = False
    if len(tb) == 1:
        sw = R.find_switch_on_discr(sp, tb[0][1]["t"], tb[0][1]["dest"][0])
        if sw:
            some_t = [tgt for v, tgt in sw[1]["vals"] if v == 1]
            ok = bool(some_t) and all(sp.dominates(some_t[0], bb) for (bb, t, c) in sets)
    chk.ob(ok, "A13.from-bbox-only", "set_position_attrs", sp.where(), f"all {len(sets)} attribute writes/removals of set_position_attrs happen only when a bounding box could be computed", "set_position_attrs can rewrite or remove geometry attributes without a computed bounding box")
    br = prog.body(EL + "::bbox_raw")
    h = prog.hir[br.id]
    # `passthrough(..)` -> return Ok(None) precedes the strp parsing in every arm that parses
    n_pass = len([1 for n in hirq.exprs(h["body"], "Call") if "passthrough" in hirq.callee_path(n).split("::")[-1]])
    if n_pass == 0:
        # the predicate may be handed over as a function value (`.any(is_passthrough_value)`)
        n_pass = len([1 for n in hirq.exprs(h["body"], "Path") if "passthrough" in str((n.get("res") or {}).get("path", "")).split("::")[-1] and "Fn" in str((n.get("res") or {}).get("dk", ""))])
    if 0 < n_pass < 4:
        # fewer textual uses than reviewed: the per-shape copies may have been folded into one helper - not a verdict
        chk.undecided("A13.unit-bypass", "bbox_raw", br.where(), f"the unit / percentage test is applied at {n_pass} place(s) in bbox_raw (reviewed: one per parsing arm); whether every parsed value still passes it is not decided")
    else:
      chk.ob(n_pass >= 4, "A13.unit-bypass", "bbox_raw", br.where(), f"values with units / percentages are recognised by passthrough() ({n_pass} uses) and bypass the box computation", "the unit/percentage bypass is no longer applied in bbox_raw")
    # guard / consumer agreement: the bypass predicate must be built on the very parser(s) the arms apply afterwards,
    # otherwise a value the predicate does not recognise but the parser rejects turns valid SVG into an error
    PARSERS = ("svgdx::types::strp", "svgdx::types::split_unit", "svgdx::types::strp_length", "core::str::<impl str>::parse", "std::str::<impl str>::parse")
    pt = prog.maybe_body(EL + "::bbox_raw::passthrough")
    if pt is None:
        chk.anchor_missing("A16.bypass-parser", "bbox_raw::passthrough not found")
        return
    chk.touch(pt)
    used = {c.path for (bb, t, c) in br.call_sites(lambda c: c.path in PARSERS)}
    for cl in prog.closures_of(br):
        if cl.id != pt.id:
            used |= {c.path for (bb, t, c) in cl.call_sites(lambda c: c.path in PARSERS)}
    guard = {c.path for (bb, t, c) in pt.call_sites(lambda c: c.path in PARSERS)}
    # the predicate must fail-over on the parser's own verdict: its parser result feeds is_err / is_ok
    verdict = False
    for (bb, t, c) in pt.call_sites(lambda c: c.path.split("::")[-1] in ("is_err", "is_ok") and "Result" in c.path):
        o = R.origin(pt, t["args"][0], carriers={})
        if o[0] == "call" and "fn" in o[2] and Callee(o[2]["fn"]).path in PARSERS:
            verdict = True
    chk.ob(bool(used) and used <= guard and verdict, "A16.bypass-parser", "bbox_raw:passthrough", pt.where(), f"the unit bypass is decided by the same number parser the arms apply afterwards ({sorted(x.split('::')[-1] for x in used)}): whatever that parser rejects (and is not a reference) is passed through", f"bbox_raw parses geometry values with {sorted(used)} but the bypass predicate is built on {sorted(guard)} (parser verdict used: {verdict}): a standard SVG length the predicate does not recognise is rejected instead of passed through")


SVG_TRANSFORM_FUNCTIONS = ("translate", "scale", "rotate", "skewX", "skewY", "matrix")


def transform_names(prog, chk):
    """all six SVG transform functions are accepted under their standard spelling: each is an arm literal of
    TransformType::from_str, or its lower-case form is and the name is lower-cased before the match"""
    b = prog.body("<svgdx::transform_attr::TransformType as std::str::FromStr>::from_str")
    chk.touch(b)
    h = prog.hir[b.id]
    best = None
    for m, arms in hirq.str_matches(h):
        lits = {l for ls, a in arms for l in ls if l != hirq.WILD}
        if best is None or len(lits) > len(best[1]):
            best = (m, lits)
    if best is None:
        chk.anchor_missing("A14.transform-names", "TransformType::from_str: no match over the function name")
        return
    m, lits = best
    lowered = any(mc["name"] in ("to_lowercase", "to_ascii_lowercase") for mc in hirq.exprs(m["scrut"], "MethodCall"))
    if not lowered and m["scrut"].get("k") == "Path":
        # scrutinee is a local: look at its initialiser
        name = (m["scrut"].get("res") or {}).get("local")
        for st in hirq.walk(h["body"]):
            if isinstance(st, dict) and st.get("k") == "Let" and isinstance(st.get("pat"), dict) and st["pat"].get("name") == name and isinstance(st.get("init"), dict):
                lowered = any(mc["name"] in ("to_lowercase", "to_ascii_lowercase") for mc in hirq.exprs(st["init"], "MethodCall"))
    for fn in SVG_TRANSFORM_FUNCTIONS:
        ok = fn in lits or (lowered and fn.lower() in lits)
        chk.ob(ok, "A14.transform-names", fn, b.where(), f"`{fn}(..)` is recognised", f"the standard transform function `{fn}` is not matched by TransformType::from_str (arm literals {sorted(lits)}, name lower-cased before matching: {lowered}): plain SVG using it makes the transform fail")


def index_is_position(prog, chk):
    """InputList::from_reader: an event's `index` is its position in the event vector (inner_events / all_events /
    tagify_events slice `events[start+1..end]` by index): every pass of the reader loop that advances the counter also
    pushed exactly the event it read"""
    b = prog.body("svgdx::events::InputList::from_reader")
    chk.touch(b)
    pushes = {bb for (bb, t, c) in b.call_sites(R.path_endswith("Vec::<T, A>::push")) if "InputEvent" in c.inst}
    # the counter that is stored into InputEvent.index: the local incremented by one in the loop and copied into the aggregate
    idx_locals = set()
    for x, i, st in b.all_stmts():
        rv = st.get("rv")
        if rv and rv.get("k") == "aggr" and rv.get("adt") == "svgdx::events::InputEvent" and "index" in (rv.get("fnames") or []):
            o = b.chase(rv["ops"][rv["fnames"].index("index")])
            if o[0] == "place" and not o[1][1]:
                idx_locals.add(o[1][0])
    incs = []
    for l in idx_locals:
        incs += [bb for (bb, i, st) in R.increments_of(b, P([l, []]))]
    if len(idx_locals) != 1 or not incs or not pushes:
        chk.anchor_missing("A13.index-position", f"from_reader: index counter ({sorted(idx_locals)}), its increment ({incs}) or the event pushes ({len(pushes)}) not found")
        return
    lp = R.loop_containing(b, incs[0])
    if lp is None:
        chk.anchor_missing("A13.index-position", "from_reader: the counter is not advanced inside the reader loop")
        return
    h, blocks = lp
    # a path header -> increment that avoids every push
    leak = incs[0] in b.reach([h], avoid=pushes)
    chk.ob(not leak, "A13.index-position", "from_reader", b.where(h), f"every pass that advances the event counter pushes an event first ({len(pushes)} push sites)", "from_reader can advance the event index without storing the event it read (an event kind is dropped): `index` no longer equals the position in the vector, so the content slices taken by inner_events()/all_events() are shifted - text is lost and children are hoisted out of their parents")


def formatter_trims_one_character_class_at_a_time(prog, chk):
    """fstr removes trailing zeros of the *fraction* and then a trailing point: each trim_end_matches / trim_matches in
    it is given a single character.  Given a set of characters ('0' and '.' at once) the trim runs on through the point
    into the integer digits: 10.0004 -> "10.000" -> "1"."""
    b = prog.body("svgdx::types::fstr")
    chk.touch(b)
    sites = b.call_sites(lambda c: c.path.split("::")[-1] in ("trim_end_matches", "trim_matches", "trim_start_matches", "strip_suffix") and ("str" in c.path.lower() or "string" in c.path.lower()))
    if not sites:
        chk.undecided("A14.formatter-trim", "fstr", b.where(), "fstr no longer trims with trim_end_matches: how trailing zeros are removed is not recognisable")
        return
    for k, (bb, t, c) in enumerate(sites):
        pat_ty = (c.targs or [""])[-1] if c.targs else ""
        one_char = pat_ty == "char" or c.inst.endswith("<char>") or "::<char>" in c.inst
        chk.ob(one_char, "A14.formatter-trim", f"fstr:{c.path.split('::')[-1]}#{k}", b.where(bb, t.get("line")), "the trim pattern is a single character", f"fstr trims with a pattern of type `{pat_ty or c.inst}` (a set of characters, a closure or a string): after the fraction's zeros it can go on through the decimal point into the integer part - a value that rounds to a multiple of ten loses its zeros (10.0004 becomes \"1\")")


def formatter_cast_guarded(prog, chk):
    """fstr (the one number formatter of the output): the saturating `as i32` form is used only under the round-trip
    test `x == (x as i32) as f32`, so a whole number beyond the i32 range is never printed as i32::MAX"""
    b = prog.body("svgdx::types::fstr")
    chk.touch(b)
    def is_f2i(rv):
        return rv.get("k") == "cast" and "FloatToInt" in json.dumps(rv)
    def is_i2f(rv):
        return rv.get("k") == "cast" and "IntToFloat" in json.dumps(rv)
    casts = [(x, i, st) for x, i, st in b.all_stmts() if is_f2i(st.get("rv", {}))]
    if not casts:
        chk.anchor_missing("A7.formatter-cast", "fstr: no f32 -> i32 cast found")
        return
    # the guard: Eq(x, (x as i32) as f32) whose true edge dominates every *other* use of an i32 cast
    guard = None
    for x, i, st in b.all_stmts():
        rv = st.get("rv")
        if rv and rv.get("k") == "binop" and rv.get("op") == "Eq" and rv.get("aty") == "f32":
            for sd in ("a", "b"):
                pl = op_place(rv[sd])
                d = b.single_def(pl[0]) if pl else None
                if d and d[1] != R.TERM and is_i2f(d[2]):
                    pl2 = op_place(d[2]["op"])
                    d2 = b.single_def(pl2[0]) if pl2 else None
                    if d2 and d2[1] != R.TERM and is_f2i(d2[2]):
                        t = b.term(x)
                        if t["k"] == "switch":
                            guard = (x, R.switch_targets_bool(t)[0])
    ok = guard is not None
    if ok:
        gx, gt = guard
        for (x, i, st) in casts:
            if x == gx:
                continue  # the cast inside the guard itself
            ok = ok and b.dominates(gt, x)
    chk.ob(ok, "A7.formatter-cast", "fstr", b.where(), "the integer form is printed only when `x == (x as i32) as f32` holds", "fstr prints `(x as i32)` without the round-trip guard `x == (x as i32) as f32`: whole numbers of magnitude >= 2^31 are written as 2147483647 / -2147483648")



def comma_wsp(prog, chk):
    """the separator between two numbers of path data is `comma-wsp ::= (wsp+ comma? wsp*) | (comma wsp*)` (SVG 1.1
    8.3.9): white space may follow the comma.  In the path tokenizer's separator skipper every path on which the comma
    is consumed passes the white-space skipper again before it returns - `M 1, 2` is as good as `M 1,2`"""
    cands = [b for b in prog.bodies.values() if b.unit == "svgdx-lib" and b.path.startswith("svgdx::path::") and b.path.split("::")[-1] == "skip_wsp_comma"]
    if not cands:
        chk.anchor_missing("A16.comma-wsp", "the separator skipper of the path tokenizer (skip_wsp_comma) was not found")
        return
    n = 0
    for b in cands:
        chk.touch(b)
        adv = b.call_sites(lambda c: c.path.split("::")[-1] == "advance" and c.path.startswith("svgdx::path::"))
        wsp = [(bb, R.TERM) for (bb, t, c) in b.call_sites(lambda c: c.path.split("::")[-1] == "skip_whitespace" and c.path.startswith("svgdx::path::"))]
        for (bb, t, c) in adv:
            n += 1
            esc = R.escapes(b, (bb, R.TERM), wsp)
            chk.ob(not esc, "A16.comma-wsp", f"{b.short}:after-comma", b.where(bb, t.get("line")), "white space after the comma is skipped with it", f"{b.short} consumes the comma and returns without skipping the white space that may follow it: `d=\"M 1, 2 L 3, 4\"` - valid path data - leaves the blank in front of the next number, which then fails to parse")
    if not n:
        chk.undecided("A16.comma-wsp", "skip_wsp_comma", cands[0].where(), "how the comma is consumed in the separator skipper (no advance() call) is not read here")



def formatter_integer_shortcut_is_exact(prog, chk):
    """fstr writes a number as an integer only when it *is* that integer: the value it turns into integer text (an
    `as i32` / `as i64` cast) is the number itself, not a rounded neighbour.  `x.round() as i32` under a tolerance test
    writes 150.012 as 150 - a coordinate that later references read back is then off by more than the 3-decimal
    rounding of the output (the tolerance grows with the magnitude of the value)"""
    b = prog.body("svgdx::types::fstr")
    chk.touch(b)
    ROUND = ("round", "floor", "ceil", "trunc", "round_ties_even")
    n = 0
    for x, i, st in b.all_stmts():
        rv = st.get("rv") or {}
        if rv.get("k") != "cast" or "FloatToInt" not in str(rv.get("ck", "")):
            continue
        n += 1
        o = R.origin(b, rv["op"], carriers={})
        rounded = o[0] == "call" and "fn" in o[2] and Callee(o[2]["fn"]).path.split("::")[-1] in ROUND and ("f32" in Callee(o[2]["fn"]).path or "f64" in Callee(o[2]["fn"]).path)
        if rounded:
            # `if x == x.round() { (x.round() as i32).to_string() }` is exact all the same: an equality test of the
            # parameter itself stands in front
            exact_test = False
            for x2, i2, st2 in b.all_stmts():
                rv2 = st2.get("rv") or {}
                if rv2.get("k") == "binop" and rv2.get("op") == "Eq" and b.dominates(x2, x):
                    for sd in ("a", "b"):
                        ch = b.chase(rv2[sd])
                        if ch[0] == "place" and not ch[1][1] and 1 <= ch[1][0] <= b.argc:
                            exact_test = True
            if exact_test:
                chk.undecided("A14.formatter-exact", f"fstr:int-cast#{n}", b.where(x, st.get("line")), "fstr writes a rounded value as an integer behind an equality test of its parameter; whether the test makes the two equal is not decided")
                continue
        chk.ob(not rounded, "A14.formatter-exact", f"fstr:int-cast#{n}", b.where(x, st.get("line")), "the integer written is the value itself, cut to an integer", f"fstr converts {Callee(o[2]['fn']).path.split('::')[-1] if rounded else ''}(x), not x, to the integer it writes: a value that is merely near a whole number is written as that number (150.012 -> 150), an error beyond the 3-decimal rounding of the output that every later reference to the written coordinate inherits")
    if not n:
        chk.undecided("A14.formatter-exact", "fstr", b.where(), "fstr has no float-to-integer cast: how whole numbers are written is not read here")



def elref_ids_are_xml_names(prog, chk):
    """`href="#id"` / `url(#id)` name an element by its id, and an id is an XML name: letters are Unicode letters.  The
    reader of element references classifies id characters with the Unicode predicates (is_alphabetic / is_alphanumeric),
    not their ASCII-only namesakes - `<use href="#größe"/>` is standard SVG"""
    b = prog.maybe_body("svgdx::types::extract_elref")
    if b is None:
        chk.undecided("A16.elref-id", "extract_elref", "src/types.rs", "the reader of element references is not there under this name")
        return
    chk.touch(b)
    scope = [b] + prog.closures_of(b)
    ascii_ = [(x, bb, t) for x in scope for (bb, t, c) in x.call_sites(lambda c: c.path.split("::")[-1] in ("is_ascii_alphabetic", "is_ascii_alphanumeric", "is_ascii_lowercase", "is_ascii_uppercase"))]
    uni = [1 for x in scope for (bb, t, c) in x.call_sites(lambda c: c.path.split("::")[-1] in ("is_alphabetic", "is_alphanumeric"))]
    if ascii_:
        x, bb, t = ascii_[0]
        chk.bad("A16.elref-id", "extract_elref:ascii-only", x.where(bb, t.get("line")), "the id of an element reference is read with ASCII-only character classes: a reference to an element whose id has a non-ASCII letter (`href=\"#größe\"`, valid XML and SVG) is refused as an invalid reference and the transform fails")
    elif uni:
        chk.ok("A16.elref-id", "extract_elref", b.where(), "id characters are classified with the Unicode predicates")
    else:
        chk.undecided("A16.elref-id", "extract_elref", b.where(), "how extract_elref classifies the characters of an id is not read here")
