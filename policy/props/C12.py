"""C12 Containment: surround encloses, inside is enclosed (attribute hygiene and branch wiring)."""
from sa import rules as R, hirq
from sa.prog import P, Callee, op_place, op_const, const_str

EXPLANATION = (
    "(1) hygiene: every Ok exit of handle_containment other than the 'neither attribute present' early return is dominated "
    "by remove_attrs([surround, inside, margin]), so these attributes never reach the output; (2) branch wiring on "
    "`is_surround`: surround -> get_element_bbox / union / expand_trbl_length / circumscribe, inside -> inscribed_bbox / "
    "intersection / shrink_trbl_length / inscribe; position_from_bbox: per shape the geometry attributes are set from the "
    "matching quantities (rect: x,y,width,height; circle: cx,cy and r = half of min (inscribed) / max x SQRT_2 "
    "(circumscribed); ellipse: rx/ry from width/height, SQRT_2 exactly on the circumscribing side); intersection() folds "
    "with a carried accumulator; (3) an unknown or box-less reference is an error. Undecided: enclosure inequalities, margin "
    "arithmetic and percent bases (numeric)."
    " A17: position_from_bbox (7 shape x mode cases), inscribed_bbox, margin value order, expand/shrink_trbl_length with their percent bases, combine/intersect agree as terms with the reference algebra."
)
TRUSTED = ["f32::min/max and SQRT_2 semantics"]
ASSUMPTIONS = []

EL = "svgdx::element::SvgElement"
HC = EL + "::handle_containment"


def run(prog, chk):
    chk.rule(hygiene, prog, chk)
    chk.rule(wiring, prog, chk)
    chk.rule(errors, prog, chk)
    chk.rule(accumulator, prog, chk)
    from props import geomalg
    chk.rule(geomalg.check_sites, prog, chk, "C12")
    chk.rule(geomalg.check_float_truncation, prog, chk)  # no float is cut down to an integer on the way (a truncated distance / coordinate makes different candidates tie)
    chk.rule(geomalg.check, prog, chk, "C12", floor=17)
    from props import C11
    chk.rule(C11.shape_pipeline, prog, chk)  # surround/inside/margin are consumed only in the shape pipeline
    chk.rule(all_boxes_combined, prog, chk)
    from props import C10
    chk.rule(C10.containment_every_target, prog, chk)  # every listed element contributes its box
    chk.rule(C10.registration, prog, chk)  # ... its resolved box: a listed element that failed in this pass is not visible to later siblings
    chk.rule(C10.registry_discipline, prog, chk)
    chk.rule(C10.lookups_read_current_state, prog, chk)  # the box of a listed element is the one it has now, not one remembered from an earlier lookup  # ... and stays invisible until it is: withdrawn unconditionally, never found again as written
    chk.rule(C10.registration_keys_agree, prog, chk)
    chk.rule(C11.extraction_algebra, prog, chk)  # the box a listed circle / ellipse offers follows from r / rx / ry, not from a stray width / height
    from props import C08
    chk.rule(C08.degenerate_boxes, prog, chk)  # `inside`: an intersection of zero width / height is still a region
    chk.rule(inscribed_for_placed_shape, prog, chk)
    from props import strops
    chk.rule(strops.check_for, prog, chk, "C12")  # A14.str-ops: how this property's strings are cut up is a reviewed, frozen inventory
    chk.rule(strops.blank_only_separators, prog, chk)  # a pair / list cut at blanks is cut at tabs and newlines too
    from props import C15 as _C15
    chk.rule(_C15.scope_pairing, prog, chk, "A5.scope")  # a margin given as `$m`: a scope left behind by a failed group changes what it means
    from props import C19 as _C19
    chk.rule(_C19.text_not_altered, prog, chk)  # a shape written with start and end tag is sized and placed like the empty-element form whatever white space stands between the tags
    from props import C16 as _C16e
    chk.rule(_C16e.extent_accumulation, prog, chk)  # the box of a group whose content comes from a loop covers every pass that was drawn - the last one of an `until` loop too


def _lit(body, t, i):
    if len(t["args"]) <= i:
        return None
    o = R.origin(body, t["args"][i], carriers=dict(R.CARRIERS))
    return o[1].get("str") if o[0] == "const" else None


def hygiene(prog, chk):
    b = prog.body(HC)
    chk.touch(b)
    rm = b.call_sites(R.path_endswith("::remove_attrs"))
    chk.floor("A14.containment-attrs", len(rm), 1, "remove_attrs call in handle_containment")
    if not rm:
        return
    rb, rt, _ = rm[0]
    o = R.origin(b, rt["args"][1], carriers=dict(R.CARRIERS))
    names = []
    if o[0] == "const" and "array" in o[1]:
        names = [k.get("str") for k in o[1]["array"] if isinstance(k, dict)]
    else:
        for i in range(len(b.promoted)):
            pv = b.promoted_value(i)
            if pv and pv[0] == "array":
                vals = [k.get("str") for k in pv[1] if isinstance(k, dict) and "str" in k]
                if "surround" in vals:
                    names = vals
    chk.ob({"surround", "inside", "margin"} <= set(names), "A14.containment-attrs", "remove-list", b.where(rb, rt.get("line")), "remove_attrs is given surround, inside and margin", f"remove_attrs list is {names}")
    oks = [x for x, i, s in b.all_stmts() if "lhs" in s and s["lhs"][0] == 0 and not s["lhs"][1] and s["rv"].get("variant") == "Ok"]
    # a successful exit that can be taken while `surround` or `inside` is present passes remove_attrs first.  Decided by
    # reachability under an assumption about the two get_attr() results, whichever way their presence is tested.
    gets = {}
    for (gb, gt, gc) in b.call_sites(R.path_endswith("SvgElement::get_attr")):
        k = _lit(b, gt, 1)
        if k in ("surround", "inside"):
            gets.setdefault(k, []).append(gb)
    if set(gets) != {"surround", "inside"} or not oks:
        chk.undecided("A14.containment-attrs", "must-remove", b.where(rb, rt.get("line")), f"get_attr(\"surround\") / get_attr(\"inside\") or the Ok exits of handle_containment not found (found {sorted(gets)}, {len(oks)} exits)")
        return

    def under(sur, ins):
        a = {bb: sur for bb in gets["surround"]}
        a.update({bb: ins for bb in gets["inside"]})
        return R.option_assumption(b, a)

    if R.may_reach(b, oks, under(1, 1)) or not R.may_reach(b, oks, under(0, 0), avoid={rb}):
        # sanity of the decider: both present is an error, neither present returns early (nothing to remove)
        chk.undecided("A14.containment-attrs", "must-remove", b.where(rb, rt.get("line")), "the presence tests on surround / inside are not in a form the rule understands")
        return
    leak = [name for name, (sv, iv) in (("surround", (1, 0)), ("inside", (0, 1))) if R.may_reach(b, oks, under(sv, iv), avoid={rb})]
    chk.ob(
        not leak,
        "A14.containment-attrs",
        "must-remove",
        b.where(rb, rt.get("line")),
        "every successful exit of handle_containment that can be taken with surround or inside present passes remove_attrs",
        f"a successful exit of handle_containment skips remove_attrs when {leak} is present: surround/inside/margin would leak into the output",
    )


def _summary(n):
    return dict(
        methods=sorted({m["name"] for m in hirq.exprs(n, "MethodCall") if m["name"] not in ("clone",)}),
        consts=sorted({(p.get("res") or {}).get("path", "").split("::")[-1] for p in hirq.exprs(n, "Path") if str((p.get("res") or {}).get("dk", "")).startswith(("Const", "AssocConst"))}),
        locals=sorted({(p.get("res") or {}).get("local") for p in hirq.exprs(n, "Path") if "local" in (p.get("res") or {})}),
        binops=sorted({x["op"] for x in hirq.exprs(n, "Binary")}),
    )


SHAPE_REF = {
    ("circle", "r"): (dict(methods=["min"], consts=[], locals=["height", "width"], binops=["Mul"]), dict(methods=["max"], consts=["SQRT_2"], locals=["height", "width"], binops=["Mul"])),
    ("ellipse", "rx"): (dict(methods=[], consts=[], locals=["width"], binops=["Mul"]), dict(methods=[], consts=["SQRT_2"], locals=["width"], binops=["Mul"])),
    ("ellipse", "ry"): (dict(methods=[], consts=[], locals=["height"], binops=["Mul"]), dict(methods=[], consts=["SQRT_2"], locals=["height"], binops=["Mul"])),
}
INSERT_REF = {
    "rect": {"x": "x1", "y": "y1", "width": "width", "height": "height"},
    "circle": {"cx": "cx", "cy": "cy", "r": "r"},
    "ellipse": {"cx": "cx", "cy": "cy", "rx": "rx", "ry": "ry"},
}


def wiring(prog, chk):
    b = prog.body(HC)
    h = prog.hir[b.id]
    ifs = [n for n in hirq.exprs(h["body"], "If") if hirq.field_chain(n["cond"]) == ["is_surround"]]
    got = []
    for n in ifs:
        t = sorted(_callees(n["then"]))
        e = sorted(_callees(n.get("else")))
        got.append((t, e))
    want = [(["get_element_bbox"], ["inscribed_bbox"]), (["union"], ["intersection"]), (["expand_trbl_length"], ["shrink_trbl_length"])]
    # decided on the control-flow graph (helpers spliced in): some branch on the surround flag has the first call on its
    # true side only and the second on its false side only - whether it is written as if/else, a match guard or in a helper
    flag_sw = []
    for x in sorted(b.reachable):
        t = b.term(x)
        if t["k"] == "switch" and op_place(t["op"]) is not None:
            fl = R.origin_local(b, t["op"])
            if fl is not None and b.local_name(fl) == "is_surround":
                tt, ft = R.switch_targets_bool(t)
                if tt is not None and ft is not None:
                    flag_sw.append((x, tt, ft))
    if not flag_sw:
        chk.undecided("A15.containment-wiring", "is_surround", b.where(), "no branch on a local named is_surround in handle_containment: the surround / inside flag is not recognisable")
    for w in want:
        if not flag_sw:
            break
        ca = {bb for (bb, t, c) in b.call_sites(lambda c, n=w[0][0]: c.path.split("::")[-1] == n)}
        cb = {bb for (bb, t, c) in b.call_sites(lambda c, n=w[1][0]: c.path.split("::")[-1] == n)}
        ok = False
        for (x, tt, ft) in flag_sw:
            rt, rf = b.reach([tt], avoid={x}), b.reach([ft], avoid={x})
            if ca and cb and (ca & rt) and not (ca & rf) and (cb & rf) and not (cb & rt):
                ok = True
        chk.ob(ok, "A15.containment-wiring", f"is_surround:{w[0][0]}/{w[1][0]}", b.where(), f"surround uses {w[0][0]}, inside uses {w[1][0]}", f"no branch on the surround flag separates {w[0][0]} (surround side) from {w[1][0]} (inside side); source-level branches: {got}")
    # position_from_bbox(&bb, !is_surround)
    ok = False
    plain = False
    for n in hirq.exprs(h["body"], "MethodCall"):
        if n["name"] == "position_from_bbox" and len(n["args"]) == 2:
            a = n["args"][1]
            ok = a.get("k") == "Unary" and a.get("op") == "Not" and hirq.field_chain(a["x"]) == ["is_surround"]
            plain = hirq.field_chain(a) == ["is_surround"]
    if not ok and not plain:
        # the flag is not passed as `!is_surround` / `is_surround` (an enum, a differently named local): which way
        # position_from_bbox is told to fit is decided by the evaluated site containment-placement (A17)
        chk.undecided("A15.containment-wiring", "inscribe-flag", b.where(), "the fit mode handed to position_from_bbox is not written as `!is_surround`; decided by the A17 site containment-placement")
    else:
      chk.ob(ok, "A15.containment-wiring", "inscribe-flag", b.where(), "position_from_bbox is told to inscribe exactly when the element is `inside`", "the inscribe flag passed to position_from_bbox is not `!is_surround`")
    # the marker class is d-surround / d-inside
    # per-shape geometry
    pf = prog.body(EL + "::position_from_bbox")
    hp = prog.hir[pf.id]
    arms = {}
    for m, lst in hirq.str_matches(hp):
        for ls, a in lst:
            for l in ls:
                arms[l] = a["body"]
    for (shape, var), (ins_ref, circ_ref) in SHAPE_REF.items():
        arm = arms.get(shape)
        got_t = got_e = None
        if arm:
            for st in hirq.walk(arm):
                if st.get("k") == "Let" and st.get("pat", {}).get("name") == var and isinstance(st.get("init"), dict) and st["init"].get("k") == "If":
                    iff = st["init"]
                    if hirq.field_chain(iff["cond"]) == ["inscribe"]:
                        got_t, got_e = _summary(iff["then"]), _summary(iff.get("else"))
        if got_t is None and got_e is None:
            chk.ok("A15.shape-geometry", f"{shape}.{var}", pf.where(), f"{shape} {var}: not written as `let {var} = if inscribe {{..}} else {{..}}`; decided by the A17 site containment-placement")
            continue
        chk.ob(got_t == ins_ref and got_e == circ_ref, "A15.shape-geometry", f"{shape}.{var}", pf.where(), f"{shape} {var}: inscribed = {ins_ref['methods'] or ''}{ins_ref['locals']}, circumscribed additionally x SQRT_2{' of max' if 'max' in circ_ref['methods'] else ''}", f"{shape} {var} is computed as inscribed={got_t} circumscribed={got_e}; reference inscribed={ins_ref} circumscribed={circ_ref}")
    for shape, ref in INSERT_REF.items():
        arm = arms.get(shape)
        got = {}
        if arm:
            for n in hirq.exprs(arm, "MethodCall"):
                if n["name"] == "insert" and len(n["args"]) == 2:
                    k = hirq.lit_str(n["args"][0])
                    locs = _summary(n["args"][1])["locals"]
                    got[k] = locs[0] if len(locs) == 1 else locs
        if not got:
            chk.ok("A15.shape-geometry", f"{shape}:attrs", pf.where(), f"{shape}: no literal insert(key, value) calls in a `{shape}` arm; decided by the A17 site containment-placement")
            continue
        chk.ob(got == ref, "A15.shape-geometry", f"{shape}:attrs", pf.where(), f"{shape}: attributes {sorted(ref)} are set from the like-named quantities", f"{shape}: attribute sources are {got} (expected {ref})")


def _callees(n):
    if n is None:
        return set()
    out = {m["name"] for m in hirq.exprs(n, "MethodCall")}
    for c in hirq.exprs(n, "Call"):
        out.add(hirq.callee_path(c).split("::")[-1])
    return out


def errors(prog, chk):
    b = prog.body(HC)
    from props.C10 import option_none_fate
    for k, (bb, t, c) in enumerate(b.call_sites(lambda c: c.decl_path == "svgdx::context::ElementMap::get_element")):
        fate, detail = option_none_fate(prog, b, t["dest"][0])
        chk.ob(fate == "err", "A6.containment-ref", f"get_element#{k}", b.where(bb, t.get("line")), "an unknown element in the surround/inside list is an error", f"an unknown referenced element is {fate}: {detail}")
    mb = R.constructs_variant(b, b.reachable, "svgdx::errors::SvgdxError", "MissingBoundingBox")
    chk.ob(mb, "A6.containment-ref", "boxless", b.where(), "a referenced element without a bounding box is an error (MissingBoundingBox)", "a referenced element without a bounding box is silently skipped")


def accumulator(prog, chk):
    f = prog.body("svgdx::position::BoundingBox::intersection")
    chk.touch(f)
    calls = f.call_sites(R.path_is("svgdx::position::BoundingBox::intersect"))
    ok = False
    detail = "no intersect() call"
    for (bb, t, c) in calls:
        in_loop = any(bb in bl for bl in f.loops.values())
        recv = R.origin(f, t["args"][0], carriers={"branch": 0})
        rl = None
        if recv[0] in ("unknown", "field") and recv[1]:
            rl = recv[1][0]
        elif recv[0] == "call":
            rl = None
        else:
            rl = R.origin_local(f, t["args"][0])
        # follow the `?`: bb? -> branch(bb)
        o = R.origin(f, t["args"][0], carriers={"branch": 0, "deref": 0})
        src_local = None
        pl = op_place(t["args"][0])
        seen = 0
        while pl is not None and seen < 10:
            seen += 1
            d = f.single_def(pl[0])
            is_try_payload = bool(d) and d[1] != R.TERM and d[2]["k"] == "use" and op_place(d[2]["op"]) is not None and "as Continue" in op_place(d[2]["op"])[1]
            if f.local_name(pl[0]) and not is_try_payload and not [x for x in pl[1] if x.startswith(".") and not x[1:].isdigit()]:
                src_local = pl[0]
                break
            if not d:
                break
            if d[1] == R.TERM:
                if "fn" in d[2] and Callee(d[2]["fn"]).decl_path == "std::ops::Try::branch":
                    pl = op_place(d[2]["args"][0])
                    continue
                break
            rv = d[2]
            pl = op_place(rv["op"]) if rv["k"] == "use" else (P(rv["place"]) if rv["k"] == "ref" else None)
        dest = t["dest"][0]
        dst_local = None
        for (b2, i2, node, how) in R.uses_of(f, dest):
            if i2 != R.TERM and how == "operand" and node["rv"]["k"] == "use" and not node["lhs"][1]:
                dst_local = node["lhs"][0]
        if f.local_name(dest):
            dst_local = dest
        ok = in_loop and src_local is not None and src_local == dst_local
        detail = f"receiver comes from `{f.local_name(src_local) if src_local is not None else None}`, result goes to `{f.local_name(dst_local) if dst_local is not None else None}`"
    if not ok:
        # the same fold written with an adapter: `iter.try_fold(first, |acc, bb| acc.intersect(&bb))` (also fold / reduce):
        # the closure intersects its accumulator parameter with the next box and returns the result
        for (bb, t, c) in f.call_sites(lambda c: c.decl_path in ("std::iter::Iterator::try_fold", "std::iter::Iterator::fold", "std::iter::Iterator::reduce")):
            cid = R.closure_id_of_operand(f, t["args"][-1]) if t["args"] else None
            cb = prog.bodies.get(cid) if cid is not None else None
            if cb is None:
                continue
            for (b2, t2, c2) in cb.call_sites(R.path_is("svgdx::position::BoundingBox::intersect")):
                acc = R.origin(cb, t2["args"][0], carriers={"branch": 0, "deref": 0})
                if acc[0] == "arg" and acc[1] == 2 and t2["dest"][0] == 0 and not t2["dest"][1]:
                    ok = True
                    detail = f"{c.decl_path.split('::')[-1]}() with a closure that intersects its accumulator with each further box"
    chk.ob(ok, "A13.fold-accumulator", "BoundingBox::intersection", f.where(), "intersection() intersects each further box with the running result (the accumulator is both operand and destination)", "intersection() does not fold over a carried accumulator: " + detail)


def inscribed_for_placed_shape(prog, chk):
    """`inside`: the area a listed element offers is computed for the shape of the element *being placed*:
    inscribed_bbox() is given self.name"""
    b = prog.body("svgdx::element::SvgElement::handle_containment")
    chk.touch(b)
    sites = b.call_sites(R.path_endswith("SvgElement::inscribed_bbox"))
    chk.floor("A13.inscribed-shape", len(sites), 1, "inscribed_bbox call in handle_containment")
    for (bb, t, c) in sites:
        o = R.origin(b, t["args"][1], carriers=dict(R.CARRIERS, as_str=0, deref=0, as_ref=0)) if len(t["args"]) > 1 else ("?",)
        ok = o[0] == "field" and (o[1][0] == 1 or R.origin_local(b, {"c": [o[1][0], []]}) == 1) and [str(z) for z in o[1][1] if z != "*"] == [".name"]
        chk.ob(ok, "A13.inscribed-shape", "handle_containment", b.where(bb, t.get("line")), "inscribed_bbox is asked for the shape of the element being placed (self.name)", f"inscribed_bbox is asked for a shape other than the placed element's own ({o[0]}): a rect placed inside circles is fitted into the area meant for another shape and sticks out")


def all_boxes_combined(prog, chk):
    """every listed box takes part: BoundingBox::union folds the iterator it is given with combine() - no box is filtered
    out first (a zero-area box, e.g. a horizontal line, still has to be enclosed)"""
    b = prog.body("svgdx::position::BoundingBox::union")
    chk.touch(b)
    red = b.call_sites(lambda c: c.decl_path == "std::iter::Iterator::reduce" or c.decl_path == "std::iter::Iterator::fold")
    if len(red) != 1:
        chk.anchor_missing("A10.all-boxes", f"BoundingBox::union: expected one reduce/fold, found {len(red)}")
        return
    bb, t, c = red[0]
    o = R.origin(b, t["args"][0], carriers={})
    src = Callee(o[2]["fn"]).decl_path if o[0] == "call" and "fn" in o[2] else o[0]
    chk.ob(src == "std::iter::IntoIterator::into_iter" or src == "arg", "A10.all-boxes", "BoundingBox::union", b.where(bb, t.get("line")), "union() combines every box of the list", f"union() folds an adapted iterator ({src}) instead of the list it was given: some boxes (e.g. zero-width or zero-height ones) are left out, so a surround element no longer encloses every listed element")
