"""Shared rule A14.str-ops: the string operations applied inside a set of modules equal the frozen inventory."""
import collections
import json
import os

STR_OPS = (
    "trim", "trim_start", "trim_end", "trim_matches", "trim_start_matches", "trim_end_matches", "replace", "replacen", "to_lowercase", "to_uppercase",
    "to_ascii_lowercase", "to_ascii_uppercase", "strip_prefix", "strip_suffix", "split_whitespace", "truncate", "retain", "dedup", "lines", "split", "splitn",
    "rsplit", "rsplitn", "split_once", "rsplit_once", "split_terminator", "split_ascii_whitespace", "split_inclusive", "split_at", "escape_default", "escape_debug",
    "find", "rfind", "starts_with", "ends_with", "contains", "char_indices", "chars", "eq_ignore_ascii_case",
)
TABLE = os.path.join(os.path.dirname(os.path.dirname(os.path.abspath(__file__))), "tables", "str_ops.json")


def is_str_op(c):
    last = c.path.split("::")[-1]
    if last not in STR_OPS:
        return False
    p = c.path.lower()
    return "<impl str>" in p or "string::string" in p or p.startswith("core::str::") or p.startswith("std::str::")


def check(prog, chk, prefixes, what):
    """prefixes: function-path prefixes (closures folded) that make up the scope"""
    from props.C01 import strip_closures

    with open(TABLE) as fh:
        table = {(e["function"], e["op"]): e["count"] for e in json.load(fh)["entries"]}
    cnt = collections.Counter()
    where = {}
    for b in prog.bodies.values():
        if b.unit != "svgdx-lib":
            continue
        f = strip_closures(b.path)
        if not f.startswith(tuple(prefixes)):
            continue
        for (bb, t, c) in b.call_sites(is_str_op):
            k = (f, c.path.split("::")[-1])
            cnt[k] += 1
            where.setdefault(k, b.where(bb, t.get("line")))
    scope = {k for k in table if k[0].startswith(tuple(prefixes))}
    n = 0
    for k in sorted(set(cnt) | scope):
        n += 1
        have, want = cnt.get(k, 0), table.get(k, 0)
        short = k[0].replace("svgdx::", "")
        chk.ob(have == want, "A14.str-ops", f"{short}:{k[1]}", where.get(k, "-"), f"{k[1]}() x{want} as in the reviewed inventory", f"{short} now applies str::{k[1]}() {have} time(s) (reviewed inventory: {want}): the way {what} is cut up, matched or cleaned has changed - characters can be dropped, altered or attributed to the wrong token. Review and regenerate policy/tables/str_ops.json if intended.", by="table")
    return n


S = "svgdx::"
SCOPES = {
    "C03": ([S + "events::InputList::from_reader", S + "events::OutputList::blank_line_remover", S + "transform::indent_all", S + "events::<impl std::convert::From<events::OutputEvent>"], "the input document / the output stream"),
    "C04": ([S + "types::attr_split", S + "types::fstr", S + "types::strp", S + "types::split_unit", S + "types::extract_urlref", S + "element::SvgElement::new", S + "element::SvgElement::split_compound_attr", S + "element::SvgElement::transmute", S + "<transform_attr::", S + "events::<impl element::SvgElement>::into_bytesstart"], "an attribute value"),
    "C05": ([S + "element::SvgElement::element_events", S + "events::<impl std::convert::From<events::OutputEvent>"], "generated comment / text content"),
    "C08": ([S + "element::SvgElement::bbox_raw", S + "<transform_attr::"], "a geometry attribute or transform"),
    "C09": ([S + "element::SvgElement::eval_rel_position", S + "element::expand_relspec", S + "element::expand_single_relspec", S + "<position::LocSpec", S + "<position::Length", S + "position::parse_el_loc"], "a relative-position specification"),
    "C10": ([S + "context::ElementMatch::matches", S + "types::extract_elref"], "an element reference"),
    "C11": ([S + "element::SvgElement::eval_size_attr", S + "element::SvgElement::pos_attr_helper", S + "position::parse_el_scalar", S + "<position::Length", S + "types::strp", S + "types::fstr"], "a size / position shorthand"),
    "C12": ([S + "<bearing::", S + "bearing::", S + "<path::", S + "path::", S + "element::SvgElement::bbox_raw"], "path / element geometry text"),
    "C14": ([S + "expression::", S + "functions::", S + "types::fstr"], "an expression"),
    "C19": ([S + "text::", S + "element::SvgElement::eval_text_anchor"], "text content or its placement attributes"),
    "C20": ([S + "themes::", S + "types::ClassList"], "a class name"),
}


def check_for(prog, chk, pid):
    pre, what = SCOPES[pid]
    return check(prog, chk, pre, what)
