"""Shared rule A14.str-ops: the string operations applied inside a property's anchor functions equal the frozen
inventory.

The inventory (tables/str_ops.json) records, per library function (closures folded into it), how often each
character-dropping / altering / searching / tokenising `str` operation is applied, plus the list of all library
functions at the time of review.  A property's *scope* is the set of functions under its anchor prefixes **plus
every function that did not exist at review time and is reachable from the scope through such new functions only**
(an extracted or hoisted helper stays in the scope it was extracted from).  The verdict is per (scope, operation):
the number of applications inside the scope equals the reviewed number.  Renaming locals, reordering code, moving an
operation between functions of the scope or into a new helper leaves the verdict unchanged; adding, dropping or
replacing an operation does not.  The rule decides "these strings are cut up the reviewed way", not that the reviewed
way is right."""
import collections
from sa.prog import op_const
import json
import os
import re

STR_OPS = (
    "trim", "trim_start", "trim_end", "trim_matches", "trim_start_matches", "trim_end_matches", "replace", "replacen", "to_lowercase", "to_uppercase",
    "to_ascii_lowercase", "to_ascii_uppercase", "strip_prefix", "strip_suffix", "split_whitespace", "truncate", "retain", "dedup", "lines", "split", "splitn",
    "rsplit", "rsplitn", "split_once", "rsplit_once", "split_terminator", "split_ascii_whitespace", "split_inclusive", "split_at", "escape_default", "escape_debug",
    "find", "rfind", "starts_with", "ends_with", "contains", "char_indices", "chars", "eq_ignore_ascii_case",
)
# Operations whose result is *not* a sub-slice of / a yes-no answer about their input: one more application of these
# than was reviewed means some text (or number) is altered on its way - that is a violation of "carried as written".
# Every other difference from the inventory (fewer applications; a different way of slicing, searching or matching)
# is something a behaviour-preserving rewrite does as well: it is reported as UNDECIDED (a request to review and
# regenerate the inventory), never as a violation.
ALTERING_OPS = {
    "trim", "trim_start", "trim_end", "trim_matches", "trim_start_matches", "trim_end_matches", "replace", "replacen", "to_lowercase", "to_uppercase",
    "to_ascii_lowercase", "to_ascii_uppercase", "truncate", "retain", "dedup", "escape_default", "escape_debug", "eq_ignore_ascii_case", "fstr()", "eval_attr()",
    # tokenisers that drop empty pieces / collapse runs of separators: what is re-joined from their pieces is not the input
    "split_whitespace", "split_ascii_whitespace", "lines", "split_terminator",
}
TABLE = os.path.join(os.path.dirname(os.path.dirname(os.path.abspath(__file__))), "tables", "str_ops.json")


def strip_closures(path):
    return re.sub(r"(::\{closure#\d+\})+", "", path)


# library functions that are tracked like string operations: where a number is rounded to its 3-decimal text
PSEUDO_OPS = {"svgdx::types::fstr": "fstr()", "svgdx::expression::eval_attr": "eval_attr()"}


def is_str_op(c):
    last = c.path.split("::")[-1]
    if "<impl char>" in c.path and last.startswith("is_"):
        return True  # character classes decide where a name / number / token ends
    if last not in STR_OPS:
        return False
    p = c.path.lower()
    return "<impl str>" in p or "string::string" in p or p.startswith("core::str::") or p.startswith("std::str::")


def survey(prog):
    """(per-function op counts, first location per (function, op), call edges between library functions, all library functions)"""
    cnt = collections.Counter()
    spliced_seen = set()
    where = {}
    edges = collections.defaultdict(set)
    funcs = set()
    lib = [b for b in prog.bodies.values() if b.unit == "svgdx-lib"]
    for b in lib:
        funcs.add(strip_closures(b.path))
    for b in lib:
        f = strip_closures(b.path)
        for (bb, t, c) in b.call_sites(lambda c: True):
            if is_str_op(c) or c.path in PSEUDO_OPS:
                k = (f, PSEUDO_OPS.get(c.path, c.path.split("::")[-1]))
                src = b.blocks[bb].get("src")
                if src is not None:
                    # a block of a helper that was spliced into its callers: one place, counted once per function
                    sk = (f, tuple(src), k[1])
                    if sk in spliced_seen:
                        continue
                    spliced_seen.add(sk)
                cnt[k] += 1
                where.setdefault(k, b.where(bb, t.get("line")))
            if not is_str_op(c):
                g = strip_closures(c.path)
                if g in funcs and g != f:
                    edges[f].add(g)
    return cnt, where, edges, funcs


def load_table():
    with open(TABLE) as fh:
        d = json.load(fh)
    return {(e["function"], e["op"]): e["count"] for e in d["entries"]}, set(d["functions"])  # dict or list: its keys


def adt_shapes(prog):
    """{type path: shape} for the library's structs / enums; the shape does not mention the type's own name"""
    out = {}
    for it in prog.items:
        if it.get("item") != "adt" or it.get("unit") != "svgdx-lib" or not it["path"].startswith("svgdx::"):
            continue
        own = it["path"].rsplit("::", 1)[-1]
        vs = []
        for v in it.get("variants", []):
            vs.append([v["name"] if v["name"] != own else "<self>", [[f["name"], f["ty"].replace(it["path"], "<Self>")] for f in v.get("fields", [])]])
        out[it["path"]] = [it.get("adt_kind"), vs]
    return out


def adt_renames(prog):
    """{new type path: reviewed type path}: same module, same shape, old name gone"""
    with open(TABLE) as fh:
        d = json.load(fh)
    recorded = d.get("adts") or {}
    cur = adt_shapes(prog)
    vanished = {k: v for k, v in recorded.items() if k not in cur}
    new = {k: v for k, v in cur.items() if k not in recorded}
    out = {}
    for g, sg in sorted(new.items()):
        cands = [f for f, sf in sorted(vanished.items()) if f not in out.values() and f.rsplit("::", 1)[0] == g.rsplit("::", 1)[0] and json.dumps(sf).replace(f, "<Self>") == json.dumps(sg).replace(g, "<Self>")]
        if not cands:
            # moved to another module under the same name, same shape
            cands = [f for f, sf in sorted(vanished.items()) if f not in out.values() and f.rsplit("::", 1)[1] == g.rsplit("::", 1)[1] and json.dumps(sf).replace(f, "<Self>") == json.dumps(sg).replace(g, "<Self>")]
        if len(cands) == 1:
            out[g] = cands[0]
    return out


def field_renames(prog):
    """{new field name: reviewed field name} for fields of library structs that were renamed in place: the type is
    still there with the same number of fields of the same types in the same order, and only names differ.  A new
    name that is (or was) a field name anywhere else in the library is left alone (the rewrite is by name)."""
    with open(TABLE) as fh:
        d = json.load(fh)
    recorded = d.get("adts") or {}
    cur = adt_shapes(prog)
    all_old = {f[0] for sh in recorded.values() for v in sh[1] for f in v[1]}
    all_new = collections.Counter(f[0] for sh in cur.values() for v in sh[1] for f in v[1])
    out = {}
    for path, sh in sorted(cur.items()):
        old = recorded.get(path)
        if not old or old[0] != sh[0] or len(old[1]) != len(sh[1]):
            continue
        for vo, vn in zip(old[1], sh[1]):
            if vo[0] != vn[0] or len(vo[1]) != len(vn[1]) or [f[1] for f in vo[1]] != [f[1] for f in vn[1]]:
                continue
            for fo, fn in zip(vo[1], vn[1]):
                if fo[0] != fn[0] and not fn[0].isdigit() and fn[0] not in all_old and all_new[fn[0]] == 1 and all_new[fo[0]] == 0:
                    out[fn[0]] = fo[0]
    return out


def signatures(prog):
    """{function: "argc|ret type|arg types"} for the library's functions (closures excluded)"""
    out = {}
    for b in prog.bodies.values():
        if b.unit != "svgdx-lib" or "{closure" in b.path:
            continue
        out[b.path] = "|".join([str(b.argc), b.local_ty(0) or ""] + [b.local_ty(i) or "" for i in range(1, b.argc + 1)])
    return out


def renames(prog, edges=None, funcs=None):
    """{new function: the reviewed function it is a renaming of}: a function that did not exist at review time, in the
    same module / impl as one that has vanished since, and called from exactly the (renamed) callers recorded for it"""
    with open(TABLE) as fh:
        d = json.load(fh)
    recorded = d["functions"]
    if not isinstance(recorded, dict):
        return {}
    if edges is None or funcs is None:
        _c, _w, edges, funcs = survey(prog)
    callers = collections.defaultdict(set)
    for f, gs in edges.items():
        for g in gs:
            callers[g].add(f)
    vanished = set(recorded) - funcs
    new = funcs - set(recorded)
    mapping = {}
    sigs_then = d.get("signatures") or {}
    sigs_now = signatures(prog)
    parent = lambda x: x.rsplit("::", 1)[0]  # noqa: E731
    changed = True
    while changed:
        changed = False
        for g in sorted(new - set(mapping)):
            mapped_callers = {mapping.get(c, c) for c in callers.get(g, ()) if c != g}  # (a function calling itself is not a caller to compare)
            last = lambda x: x.rsplit("::", 1)[-1]  # noqa: E731
            # renamed in place (same module / impl) or moved under the same name (another module / impl)
            cands = [f for f in sorted(vanished - set(mapping.values())) if (parent(f) == parent(g) or last(f) == last(g)) and set(recorded[f]) - {f} == mapped_callers]
            if len(cands) > 1 and sigs_now.get(g):
                # several vanished functions with the same callers: the one with the same signature
                same = [f for f in cands if sigs_then.get(f) == sigs_now[g]]
                if len(same) == 1:
                    cands = same
            if not cands and "::" in g and not g.startswith("<"):
                # a trait method of a wrapper type (`impl EventGen for LoopElement`) turned into a free function of the
                # same module named after the type (`loop_events`): same callers, same result type
                gm, gl = parent(g), last(g)
                def _snake(t):
                    t = re.sub(r"(Element|Container)$", "", t) or t
                    return re.sub(r"(?<!^)(?=[A-Z])", "_", t).lower()
                for f in sorted(vanished - set(mapping.values())):
                    m_ = re.fullmatch(r"<(.+)::([A-Za-z0-9_]+) as (.+)>::([a-z_0-9]+)", f)
                    if not m_ or m_.group(1) != gm or set(recorded[f]) != mapped_callers:
                        continue
                    if gl.startswith(_snake(m_.group(2)) + "_") or gl == _snake(m_.group(2)):
                        if sigs_now.get(g) and sigs_then.get(f) and sigs_then[f].split("|")[1] == sigs_now[g].split("|")[1]:
                            cands.append(f)
            if len(cands) == 1 and sigs_now.get(g) and sigs_then.get(cands[0]):
                # a renaming keeps what the function is: the same result type, or the same parameters
                a_, b_ = sigs_then[cands[0]].split("|"), sigs_now[g].split("|")
                if a_[1] != b_[1] and a_[2:] != b_[2:]:
                    cands = []
            if len(cands) == 1:
                mapping[g] = cands[0]
                changed = True
    # moved to another type / module under its own name while its callers moved too (a family of methods pulled out into a
    # new struct): one vanished and one new function of that name, same result type, same number of parameters
    left_new = sorted(new - set(mapping))
    left_old = sorted(vanished - set(mapping.values()))
    last = lambda x: x.rsplit("::", 1)[-1]  # noqa: E731
    for g in left_new:
        if g.startswith("<") or "{" in g:
            continue
        olds = [f for f in left_old if last(f) == last(g) and not f.startswith("<")]
        news = [x for x in left_new if last(x) == last(g) and not x.startswith("<")]
        if len(olds) == 1 and len(news) == 1 and sigs_now.get(g) and sigs_then.get(olds[0]):
            a_, b_ = sigs_then[olds[0]].split("|"), sigs_now[g].split("|")
            if a_[0] == b_[0] and a_[1] == b_[1] and len(last(g)) >= 6:
                mapping[g] = olds[0]
    return mapping


def check(prog, chk, prefixes, what, ops=None, rule="A14.str-ops", char_classes_matter=False):
    table, known = load_table()
    cnt, where, edges, funcs = survey(prog)
    ren = renames(prog, edges, funcs)
    pre = tuple(prefixes)
    scope = {f for f in funcs if ren.get(f, f).startswith(pre)}
    new = funcs - known - set(ren)
    work = list(scope)
    while work:
        f = work.pop()
        for g in edges.get(f, ()):
            if g in new and g not in scope:
                scope.add(g)
                work.append(g)
    have = collections.Counter()
    for (f, op), n in cnt.items():
        if f in scope:
            have[op] += n
    want = collections.Counter()
    for (f, op), n in table.items():
        if f.startswith(pre):
            want[op] += n
    n_ob = 0
    for op in sorted(set(have) | set(want)):
        if (ops is not None and op not in ops) or (ops is None and op in PSEUDO_OPS.values()):
            continue
        n_ob += 1
        diff = []
        loc = "-"
        inv = {v: k for k, v in ren.items()}
        for f in sorted({ren.get(f, f) for (f, o) in list(cnt) + list(table) if o == op and (f in scope or ren.get(f, f).startswith(pre))}):
            cur = inv.get(f, f)
            a, b = cnt.get((cur, op), 0) if cur in scope else 0, table.get((f, op), 0)
            if loc == "-" and (cur, op) in where:
                loc = where[(cur, op)]
            if a != b:
                diff.append(f"{f.replace('svgdx::', '')}: {b} -> {a}")
                loc = where.get((cur, op), loc)
        # a character-class predicate decides where a name / number / token ends: a violation only where the property
        # is about that character set (variable names, C15); elsewhere `c.is_ascii_uppercase()` is one more way to
        # write a test that was a pattern before
        altering = op in ALTERING_OPS or (op.startswith("is_") and char_classes_matter)
        if have[op] != want[op] and not (altering and have[op] > want[op]):
            chk.undecided(rule, op, loc, f"{'' if op.endswith('()') else 'str::'}{op}{'' if op.endswith('()') else '()'} is applied {have[op]} time(s) in the functions that handle {what} (reviewed inventory: {want[op]}; {'; '.join(diff)}): fewer applications, or a different way of slicing / searching / matching - which a behaviour-preserving rewrite does as well. Review, then regenerate policy/tables/str_ops.json (tools/gen_str_ops.py).")
            continue
        chk.ob(
            have[op] == want[op],
            rule,
            op,
            loc,
            f"{'' if op.endswith('()') else 'str::'}{op}{'' if op.endswith('()') else '()'} is applied {want[op]} time(s) in the functions that handle {what}, as in the reviewed inventory",
            f"{'' if op.endswith('()') else 'str::'}{op}{'' if op.endswith('()') else '()'} is now applied {have[op]} time(s) in the functions that handle {what} (reviewed inventory: {want[op]}; {'; '.join(diff)}): the way {what} is cut up, matched, cleaned or rounded has changed - characters can be dropped, altered or attributed to the wrong token, digits lost before they are used. Review, then regenerate policy/tables/str_ops.json (tools/gen_str_ops.py) if intended.",
            by="table",
        )
    chk.floor(rule, sum(v for o, v in want.items() if (ops is None and o not in PSEUDO_OPS.values()) or (ops is not None and o in ops)), 1, f"operation in the reviewed inventory for {what}")
    return n_ob


S = "svgdx::"
SCOPES = {
    "C03": ([S + "events::InputList::from_reader", S + "events::OutputList::blank_line_remover", S + "transform::indent_all", S + "events::<impl std::convert::From<events::OutputEvent>"], "the input document / the output stream"),
    "C04": ([S + "types::attr_split", S + "types::fstr", S + "types::strp", S + "types::split_unit", S + "types::extract_urlref", S + "element::SvgElement::new", S + "element::SvgElement::split_compound_attr", S + "element::SvgElement::transmute", S + "<transform_attr::", S + "events::<impl element::SvgElement>::into_bytesstart"], "an attribute value"),
    "C05": ([S + "element::SvgElement::element_events", S + "events::<impl std::convert::From<events::OutputEvent>"], "generated comment / text content"),
    "C08": ([S + "element::SvgElement::bbox_raw", S + "<transform_attr::"], "a geometry attribute or transform"),
    "C09": ([S + "element::SvgElement::eval_rel_position", S + "element::SvgElement::split_compound_attr", S + "element::expand_relspec", S + "element::expand_single_relspec", S + "<position::LocSpec", S + "<position::Length", S + "position::parse_el_loc"], "a relative-position specification"),
    "C10": ([S + "context::ElementMatch::matches", S + "types::extract_elref"], "an element reference"),
    "C11": ([S + "element::SvgElement::eval_size_attr", S + "element::SvgElement::pos_attr_helper", S + "position::parse_el_scalar", S + "<position::Length", S + "types::strp", S + "types::fstr"], "a size / position shorthand"),
    "C12": ([S + "<bearing::", S + "bearing::", S + "<path::", S + "path::", S + "element::SvgElement::bbox_raw"], "path / element geometry text"),
    "C14": ([S + "expression::", S + "functions::", S + "types::fstr"], "an expression"),
    "C15": ([S + "expression::eval_vars", S + "expression::valid_variable_name", S + "expression::valid_symbol", S + "<context::TransformerContext as context::VariableMap>"], "a variable reference"),
    "C19": ([S + "text::", S + "element::SvgElement::eval_text_anchor"], "text content or its placement attributes"),
    "C20": ([S + "themes::", S + "types::ClassList"], "a class name"),
}


def check_for(prog, chk, pid):
    pre, what = SCOPES[pid]
    return check(prog, chk, pre, what, char_classes_matter=(pid == "C15"))


def check_number_formatting(prog, chk):
    """fstr() rounds a number to its 3-decimal text: it belongs where a value is written into the *output* geometry.
    The places that call it are a reviewed inventory over the whole library - a new call in the middle of the pipeline
    (e.g. writing an evaluated attribute back through fstr) rounds before the constraint arithmetic instead of after."""
    return check(prog, chk, [S, "<" + S], "a number on its way to the output (3-decimal rounding)", ops={"fstr()"}, rule="A14.number-formatting")


def check_evaluation_sites(prog, chk):
    """eval_attr() substitutes variables and evaluates `{{..}}` in a string: the places that call it are a reviewed
    inventory over the whole library.  A new call evaluates something a second time (random numbers drawn twice) or
    evaluates what should be carried verbatim (a comment, a condition that is an expression already)."""
    return check(prog, chk, [S, "<" + S], "a string that is evaluated (variables substituted, expressions computed)", ops={"eval_attr()"}, rule="A14.evaluation-sites")



def blank_only_separators(prog, chk, rule="A14.separators"):
    """wherever the library cuts a string at a literal *set* of characters that contains the blank (a list of numbers,
    the two values of a shorthand pair), the set contains the other white-space characters an attribute value can hold
    too (tab, newline, carriage return) - or the same function also cuts at `char::is_whitespace` / split_whitespace.
    `xy="1<TAB>2"` or a value wrapped over two lines is otherwise one token"""
    n = 0
    roots = {}
    for bd in prog.bodies.values():
        if bd.unit != "svgdx-lib":
            continue
        roots.setdefault(bd.root if bd.root in prog.bodies else bd.id, []).append(bd)
    for rid, scope in sorted(roots.items(), key=lambda kv: prog.bodies[kv[0]].path):
        ws_split = any(bd.call_sites(lambda c: c.path.split("::")[-1] in ("split_whitespace", "split_ascii_whitespace") or c.path.endswith(("char::is_whitespace", "char::is_ascii_whitespace", "<impl char>::is_whitespace", "<impl char>::is_ascii_whitespace"))) for bd in scope)
        for bd in scope:
            for (x, t, c) in bd.call_sites(lambda c: c.path.startswith(("core::str::<impl str>::split", "core::str::<impl str>::rsplit", "std::str::<impl str>::split")) and "char" in (c.inst or "")):
                if len(t["args"]) < 2:
                    continue
                ch = bd.chase(t["args"][1])
                chars = None
                if ch[0] == "rv" and ch[1].get("k") == "aggr" and ch[1].get("ak") == "array":
                    chars = {(op_const(o) or {}).get("char") for o in ch[1]["ops"]}
                elif ch[0] == "const" and "array" in ch[1]:
                    chars = {k.get("char") for k in ch[1]["array"] if isinstance(k, dict)}
                if not chars or None in chars or " " not in chars or len(chars) < 2:
                    continue
                n += 1
                missing = sorted({"\t", "\n", "\r"} - chars)
                root = prog.bodies[rid]
                chk.ob(not missing or ws_split, rule, f"{root.short}:{''.join(sorted(chars))!r}", bd.where(x, t.get("line")), "a string cut at blanks is cut at every white-space character", f"{root.short} cuts a string at {sorted(chars)} only: a blank separates the parts but {missing!r} (tab / newline / carriage return, which an attribute value may contain wherever it may contain a blank) do not - `1<TAB>2` stays one token, so a pair is not split or a number list fails to parse")
    chk.note(f"{rule}: {n} split(s) on a literal character set containing the blank")



_TRIMS = ("trim", "trim_end", "trim_start", "trim_matches", "trim_end_matches", "trim_start_matches", "trim_ascii", "trim_ascii_end", "trim_ascii_start")


def empty_test_before_trim(prog, chk, rule="A14.trim-then-test"):
    """in an iterator chain over the pieces of a string, pieces are dropped for being empty *after* they were trimmed:
    a `filter(|p| !p.is_empty())` applied to untrimmed pieces, followed by a `map` that trims them, lets a piece of
    blanks through and hands the next stage an empty string (`transform="translate(1) "` -> "No transform args")"""
    from sa import rules as R
    from sa.prog import Callee, op_place

    n = 0
    for b in prog.bodies.values():
        if b.unit != "svgdx-lib":
            continue
        for (fb, ft, fc) in b.call_sites(lambda c: c.decl_path == "std::iter::Iterator::filter"):
            if len(ft["args"]) < 2 or "str" not in (fc.self_ty or ""):
                continue
            cid = R.closure_id_of_operand(b, ft["args"][1])
            cb = prog.bodies.get(cid) if cid is not None else None
            if cb is None or not cb.call_sites(lambda c: c.path.endswith("<impl str>::is_empty")):
                continue
            n += 1
            pl = op_place(ft["args"][1])
            cty = b.local_ty(pl[0]) if pl is not None else ""
            m = re.search(r"\{closure@[^}]*\}", cty or "")
            if not m:
                continue
            ctag = m.group(0)
            # were the pieces trimmed before the test?  (a Map inside the filtered iterator whose closure trims)
            trimmed_before = False
            for (mb, mt, mc) in b.call_sites(lambda c: c.decl_path == "std::iter::Iterator::map"):
                mcid = R.closure_id_of_operand(b, mt["args"][1]) if len(mt["args"]) > 1 else None
                mcb = prog.bodies.get(mcid) if mcid is not None else None
                mpl = op_place(mt["args"][1]) if len(mt["args"]) > 1 else None
                mty = b.local_ty(mpl[0]) if mpl is not None else ""
                mm = re.search(r"\{closure@[^}]*\}", mty or "")
                trims = mcb is not None and bool(mcb.call_sites(lambda c: c.path.split("::")[-1] in _TRIMS and "str" in c.path))
                if not trims or not mm:
                    continue
                if mm.group(0) in (fc.self_ty or ""):
                    trimmed_before = True
            for (mb, mt, mc) in b.call_sites(lambda c: c.decl_path == "std::iter::Iterator::map"):
                mcid = R.closure_id_of_operand(b, mt["args"][1]) if len(mt["args"]) > 1 else None
                mcb = prog.bodies.get(mcid) if mcid is not None else None
                trims = mcb is not None and bool(mcb.call_sites(lambda c: c.path.split("::")[-1] in _TRIMS and "str" in c.path))
                if trims and ctag in (mc.self_ty or ""):
                    # a trimming map downstream of the emptiness filter
                    if not trimmed_before:
                        chk.bad(rule, f"{b.short}:filter-then-trim", b.where(fb, ft.get("line")), f"{b.short} drops empty pieces before trimming them ({b.where(mb, mt.get('line'))} trims what the filter let through): a piece that consists of blanks only survives the filter and reaches the next stage as an empty string - a value with trailing (or only) white space is rejected instead of read")
    chk.note(f"{rule}: {n} emptiness filter(s) over string pieces")



def affix_test_sees_what_parser_sees(prog, chk, rule="A14.trim-then-test"):
    """a suffix / prefix test that decides how a string is read (`50%` is a ratio, `50` a length) is made on the text
    the number parser will accept: where the same string goes on to a parser of the crate that trims its input, the
    test is made on the trimmed string - or `"50% "` is no ratio for the test and no number for the parser"""
    from sa import rules as R
    from sa.prog import Callee, op_place

    AFFIX = ("strip_suffix", "strip_prefix", "ends_with", "starts_with")
    trimming = set()
    for b in prog.bodies.values():
        if b.unit == "svgdx-lib" and b.kind != "Closure" and b.argc == 1 and "&str" in (b.local_ty(1) or ""):
            # a parser that trims its own parameter before anything else is done with it
            for (bb, t, c) in b.call_sites(lambda c: c.path.split("::")[-1] == "trim" and "str" in c.path):
                if t["args"] and R.origin_local(b, t["args"][0]) == 1:
                    trimming.add(b.path)
    n = 0
    for b in prog.bodies.values():
        if b.unit != "svgdx-lib":
            continue
        tests = b.call_sites(lambda c: c.path.split("::")[-1] in AFFIX and "<impl str>" in c.path)
        parses = b.call_sites(lambda c: c.path in trimming)
        if not tests or not parses:
            continue
        for (bb, t, c) in tests:
            src = R.origin_local(b, t["args"][0]) if t["args"] else None
            if src is None or not (1 <= src <= b.argc):
                continue  # not the raw parameter (a trimmed copy, a piece of something else)
            same = [(pb, pt) for (pb, pt, pc) in parses if pt["args"] and R.origin_local(b, pt["args"][0]) == src]
            if not same:
                continue
            n += 1
            chk.bad(rule, f"{b.short}:{c.path.split('::')[-1]}-untrimmed", b.where(bb, t.get("line")), f"{b.short} applies {c.path.split('::')[-1]}() to its parameter as given and hands the same string to {same[0][1]['fn']['path'].split('::')[-1]}(), which trims: with trailing (leading) white space the affix is not seen, the string is parsed as the other kind and fails - `dw=\"50% \"` is neither a ratio nor a number")
    chk.ok(rule, "affix-scan", "-", f"affix tests on raw parameters that also reach a trimming parser: {n}")
